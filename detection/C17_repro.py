"""Standalone reproductions of C17 findings (no /verif imports; run: /venv/bin/python detection/C17_repro.py)."""
import schemathesis

# KF-C17-R1: two parameters with the same name in different locations, one of them with `examples`
raw = {"openapi": "3.0.2", "info": {"title": "t", "version": "1"}, "paths": {"/t": {"get": {"responses": {"200": {"description": "OK"}}, "parameters": [
    {"name": "id", "in": "query", "required": True, "schema": {"type": "integer"}, "example": 1},
    {"name": "id", "in": "header", "required": True, "schema": {"type": "string"}, "examples": {"e1": {"value": "x"}, "e2": {"value": "y"}}}]}}}}
operation = schemathesis.openapi.from_dict(raw)["/t"]["GET"]
try:
    print("strategies:", len(operation.get_strategies_from_examples()))  # expected 2 (id=1 with x, id=1 with y)
except KeyError as exc:
    print("KF-C17-R1 reproduced: KeyError", exc, "- no example of the operation is sent")
