"""Standalone reproductions for the C10 findings (imports schemathesis only; run: /venv/bin/python findings_proposed/C10_repro.py).

Each block prints `<finding id>: <observed>`; the expected behaviour is in the comment.
"""

import requests

import schemathesis
from schemathesis.core import NOT_SET
from schemathesis.core.transport import Response
from schemathesis.generation.stateful.state_machine import StepOutput
from schemathesis.specs.openapi import expressions
from schemathesis.specs.openapi.stateful.links import get_all_links

RAW = {
    "openapi": "3.0.3", "info": {"title": "t", "version": "1"},
    "paths": {
        "/src/{id}": {"post": {
            "operationId": "src", "parameters": [{"name": "id", "in": "path", "required": True, "schema": {}}],
            "requestBody": {"content": {"application/json": {"schema": {}}}},
            "responses": {"201": {"description": "ok", "links": {
                "BadBody": {"operationId": "dst", "parameters": {"id": "$response.body#/id"}, "requestBody": "$foo"},
                "BadParam": {"operationId": "dst", "parameters": {"id": "$foo"}},
            }}},
        }},
        "/dst/{id}": {"put": {"operationId": "dst", "parameters": [{"name": "id", "in": "path", "required": True, "schema": {}}],
                              "requestBody": {"content": {"application/json": {"schema": {}}}}, "responses": {"200": {"description": "ok"}}}},
    },
}
schema = schemathesis.openapi.from_dict(RAW).configure(base_url="http://127.0.0.1")
op = schema["/src/{id}"]["POST"]


def output(body, response_json=b'{"a": [10, 20, 30]}'):
    case = op.Case(path_parameters={"id": 7}, body=body, media_type=None if body is NOT_SET else "application/json")
    response = Response(201, {"X-Id": ["s-43"]}, response_json, requests.Request("POST", "http://127.0.0.1/src/7").prepare(), 0.1, False)
    return StepOutput(response, case)


def show(fid, expr, out):
    try:
        print(f"{fid}: evaluate({expr!r}) -> {expressions.evaluate(expr, out)!r}")
    except Exception as exc:
        print(f"{fid}: evaluate({expr!r}) raises {type(exc).__name__}: {exc}")


# KF-C10-1  the request had no body: nothing to denote (unresolvable), but the NotSet sentinel is returned as the value
show("KF-C10-1", "$request.body", output(NOT_SET))
show("KF-C10-1", "id_{$request.body#}", output(NOT_SET))
# KF-C10-2  RFC 6901: array index is "0" or digits without leading zero; "-1", "01", " 1" do not exist (unresolvable)
for e in ("$response.body#/a/-1", "$response.body#/a/01", "$response.body#/a/ 1"):
    show("KF-C10-2", e, output({}))
# KF-C10-3/4  an embedded whole-body expression is derivable ("{" expression "}") but is rejected (4: the same inside a link)
show("KF-C10-3", "{$response.body}", output({}, b'"abc"'))
show("KF-C10-3", "id-{$request.body}", output("xyz"))
# KF-C10-5  '#' in literal text (a constant, or the literal part around an embedded expression) starts a "pointer" that is dropped
show("KF-C10-5", "color#red", output({}))
show("KF-C10-5", "{$statusCode}#frag", output({}))
# KF-C10-6/7  ... or swallows the following '{' (7: the same inside a link)
show("KF-C10-6", "#{$statusCode}", output({}))
# KF-C10-8..15  malformed strings that are not rejected (expected: RuntimeExpressionError, or - where the string does not start
# with `$` - the string itself as a constant)
for fid, e in (("KF-C10-8 trailing_text", "$url.x"), ("KF-C10-9 pointer_on_non_body_source", "$statusCode#/a"),
               ("KF-C10-10 pointer_missing_leading_slash", "$response.body#a"), ("KF-C10-11 pointer_bad_escape", "$response.body#/a~2"),
               ("KF-C10-12 header_token_has_non_tchar", "$response.header.X/Id"), ("KF-C10-13 dollar_inside_constant", "foo$statusCode"),
               ("KF-C10-14 non_expression_in_braces", "{foo}"), ("KF-C10-15 empty_braces", "{}")):
    show(fid, e, output({}))
# KF-C10-16/17  a malformed expression in requestBody (also nested) does not make the link invalid; the same string in `parameters` does
for _, result in get_all_links(op):
    kind = type(result).__name__
    name = result.ok().name if kind == "Ok" else result.err().name
    print(f"KF-C10-16: link {name}: {kind}")
# KF-C10-18  a link under "200" is unusable from a 200 response when a link under "2XX" is documented before it
RAW2 = {
    "openapi": "3.0.3", "info": {"title": "t", "version": "1"},
    "paths": {
        "/s": {"post": {"operationId": "s", "requestBody": {"required": True, "content": {"application/json": {"schema": {"type": "object"}}}},
                        "responses": {
                            "2XX": {"description": "r", "links": {"A": {"operationId": "t", "parameters": {"id": "$response.body#/id"}}}},
                            "200": {"description": "r", "links": {"B": {"operationId": "t", "parameters": {"id": "$response.body#/id"}}}}}}},
        "/t/{id}": {"get": {"operationId": "t", "parameters": [{"name": "id", "in": "path", "required": True, "schema": {"type": "integer"}}],
                            "responses": {"200": {"description": "ok"}}}},
    },
}
schema2 = schemathesis.openapi.from_dict(RAW2).configure(base_url="http://127.0.0.1")
machine = schema2.as_state_machine()()
src = schema2["/s"]["POST"]
resp = Response(200, {}, b'{"id": 1}', requests.Request("POST", "http://127.0.0.1/s").prepare(), 0.1, False)
print("KF-C10-18: 200 response stored in bundle:", machine._get_target_for_result(StepOutput(resp, src.Case(body={}))),
      "(the bundle 'POST /s -> 200' of link B stays empty)")

# KF-C10-19  a link-supplied path parameter value is not escaped (generated values go through quote_all): '/' changes the route
target = schema2["/t/{id}"]["GET"]
case = target.Case(path_parameters={"id": "s t/u"})  # what into_step_input passes on as explicit `path_parameters`
print("KF-C10-19: explicit path parameter 's t/u' ->", requests.Request(**case.as_transport_kwargs()).prepare().url)

# ---- review round 2 -------------------------------------------------------------------------------------------------------
# KF-C10-R1  a request header is the same header in any letter case (RFC 7230 3.2; evaluate() itself looks it up case-insensitively),
# but OpenApiLink._normalize_parameters compares `p.name == node.parameter`: the link below is an InvalidTransition
# ("references non-existent header parameter `x-id`") and as_state_machine() refuses the whole document
RAW3 = {"openapi": "3.0.3", "info": {"title": "t", "version": "1"}, "paths": {
    "/src": {"post": {"operationId": "src", "parameters": [{"name": "X-Id", "in": "header", "schema": {"type": "string"}}],
                      "responses": {"201": {"description": "ok", "links": {
                          "L": {"operationId": "dst", "parameters": {"path.id": "$request.header.x-id"}}}}}}},
    "/dst/{id}": {"get": {"operationId": "dst", "parameters": [{"name": "id", "in": "path", "required": True, "schema": {"type": "string"}},
                                                               {"name": "X-Id", "in": "header", "schema": {"type": "string"}}],
                          "responses": {"200": {"description": "ok"}}}}}}
schema3 = schemathesis.openapi.from_dict(RAW3).configure(base_url="http://127.0.0.1")
for _, result in get_all_links(schema3["/src"]["POST"]):
    print("KF-C10-R1:", type(result).__name__, [e.message for e in result.err().errors] if type(result).__name__ == "Err" else "")
# KF-C10-R2  a link parameter `header.x-id` for a target that declares `X-Id`: the generated `X-Id` is not excluded
# (get_parameters_value: exclude=value.keys(), exact spelling) and replaces the link value in the case-insensitive Case.headers
import hypothesis
dst = schema3["/dst/{id}"]["GET"]  # what into_step_input does with the evaluated link parameters:
strategy = dst.as_strategy(path_parameters={"id": "7"}, headers={"x-id": "from-link"})
case = hypothesis.find(strategy, lambda c: "X-Id" in list(c.headers or {}), settings=hypothesis.settings(database=None))
sent = requests.Request(**case.as_transport_kwargs()).prepare().headers
print("KF-C10-R2: Case.headers =", dict(case.headers), "-> sent X-Id =", repr(sent["X-Id"]), "(expected 'from-link')")
