"""Standalone reproductions of the C14 findings of review round 2 (no /verif imports; run: /venv/bin/python detection/C14_repro.py)."""

from types import SimpleNamespace as NS

import schemathesis
from schemathesis.engine.phases.unit import get_strategy_kwargs
from schemathesis.generation.overrides import Override
from schemathesis.specs.openapi.checks import _set_auth_for_case

schema = schemathesis.openapi.from_dict({"openapi": "3.0.2", "info": {"title": "t", "version": "1"}, "paths": {"/r": {"get": {
    "parameters": [{"name": "X-H", "in": "header", "schema": {"type": "string"}}], "responses": {"200": {"description": "OK"}}}}}})
operation = schema["/r"]["GET"]

# KF-C14-R1: `--header X-Custom: U9` together with `--set-header X-H=U5`: the header override never reaches generation
override = Override(query={}, headers={"X-H": "U5"}, cookies={}, path_parameters={})
ctx = NS(config=NS(override=override, network=NS(headers={"X-Custom": "U9"})))
kwargs = get_strategy_kwargs(ctx, operation)  # kwargs["headers"] = the override, then REPLACED by the --header mapping
print("KF-C14-R1", "reproduced:" if kwargs["headers"].get("X-H") != "U5" else "not reproduced:", kwargs)

# KF-C14-R2: `--set-header x-h=U5` for an operation that declares the header as `X-H` (header names are case-insensitive)
lower = Override(query={}, headers={"x-h": "U5"}, cookies={}, path_parameters={})
applied = lower.for_operation(operation)["headers"]
print("KF-C14-R2", "reproduced:" if not applied else "not reproduced:", applied)

# KF-C14-R3: the ignored_auth probe crashes when the case carries no headers (--auth + security parameters not generated)
try:
    _set_auth_for_case(operation.Case(), {"name": "Authorization", "in": "header"})
    print("KF-C14-R3 not reproduced")
except TypeError as exc:
    print("KF-C14-R3 reproduced:", exc)  # 'NoneType' object does not support item assignment
