"""Standalone reproductions of the staged C03 findings (real code only, no /verif imports).

Run:  /venv/bin/python /verif/findings_proposed/C03_repro.py [KF-C03-n ...]
Each block prints the offending labelled value/case; `jsonschema` (the validator schemathesis itself uses) is the judge here.
Blocks that need a particular answer of the unseeded `generate_one` draw loop over fresh draws (cache cleared) until it shows.
"""

from __future__ import annotations

import sys

import jsonschema
import schemathesis
from schemathesis.generation import GenerationMode, coverage
from schemathesis.generation.coverage import CoverageContext, cover_schema_iter
from schemathesis.generation.hypothesis.builder import _iter_coverage_cases

P, N = GenerationMode.POSITIVE, GenerationMode.NEGATIVE


def values(schema, modes, location="body"):
    coverage.cached_draw.cache_clear()
    return list(cover_schema_iter(CoverageContext(location=location, generation_modes=list(modes)), dict(schema)))


def ok(schema, value, draft=jsonschema.Draft4Validator):
    return draft(schema, format_checker=jsonschema.FormatChecker()).is_valid(value)


def operation(parameters=(), body=None, method="post"):
    op = {"parameters": list(parameters), "responses": {"200": {"description": "OK"}}}
    if body is not None:
        op["requestBody"] = {"required": True, "content": {"application/json": {"schema": body}}}
    doc = {"openapi": "3.0.2", "info": {"title": "t", "version": "1"}, "paths": {"/t": {method: op}}}
    return schemathesis.openapi.from_dict(doc)["/t"][method.upper()]


def cases(op, modes):
    coverage.cached_draw.cache_clear()
    return list(_iter_coverage_cases(op, list(modes)))


def show(case):
    d = case.meta.phase.data
    return (f"mode={case.meta.generation.mode.value} components={ {k.value: v.mode.value for k, v in case.meta.components.items()} } "
            f"description={d.description!r} query={case.query} headers={case.headers} body={case.body!r}")


def kf1():
    """2nd..n-th body case carries the FIRST body value's mode (builder.py: `mode=value.generation_mode` in the body loop)."""
    op = operation(body={"type": "integer", "minimum": 1})
    for c in cases(op, [P, N]):
        if c.meta.components and any(k.value == "body" and v.mode == N for k, v in c.meta.components.items()) and c.meta.generation.mode == P:
            print("KF-C03-1", show(c))
            return True


def kf2():
    """minimum = maximum = 0: `not maximum` treats 0 as 'no maximum' -> 1 is emitted as a positive 'Near-boundary number'."""
    s = {"type": "integer", "minimum": 0, "maximum": 0}
    for v in values(s, [P]):
        if v.generation_mode == P and not ok(s, v.value):
            print("KF-C03-2", v.description, v.value, "violates", s)
            return True


def kf3():
    """OpenAPI 3.0 / draft-4 boolean exclusiveMaximum is used as a number (True - 1 = 0): 0 is 'Maximum value' of maximum 0 exclusive."""
    s = {"type": "integer", "maximum": 0, "exclusiveMaximum": True}
    for v in values(s, [P]):
        if v.generation_mode == P and not ok(s, v.value):
            print("KF-C03-3", v.description, v.value, "violates", s)
            return True


def kf4():
    """...and the negative for it is the boolean itself: True 'Value greater than maximum' (violates `type`, not the bound)."""
    s = {"type": "integer", "maximum": 5, "exclusiveMaximum": True}
    for v in values(s, [N]):
        if v.description == "Value greater than maximum" and isinstance(v.value, bool):
            print("KF-C03-4", v.description, repr(v.value), "for", s)
            return True


def kf5():
    """negative value built against one anyOf branch (or the non-null branch of `nullable`) is accepted by the sibling branch."""
    s = {"anyOf": [{"type": "integer", "minimum": 1}, {"type": "string", "maxLength": 1}]}
    for v in values(s, [N]):
        if v.generation_mode == N and ok(s, v.value):
            print("KF-C03-5", v.description, repr(v.value), "at", v.location, "conforms to", s)
            return True


def kf6():
    """positive boundary value of one oneOf branch matches the sibling branch too (violates oneOf)."""
    s = {"oneOf": [{"type": "integer", "minimum": 1}, {"type": "integer", "maximum": 2}]}
    for v in values(s, [P]):
        if v.generation_mode == P and not ok(s, v.value):
            print("KF-C03-6", v.description, v.value, "violates", s)
            return True


def kf7():
    """case level of KF-C03-5: nullable integer body, `null` sent as 'Incorrect type', body component labelled negative."""
    op = operation(body={"type": "integer", "nullable": True})
    for c in cases(op, [N]):
        if c.body is None and c.meta.components and list(c.meta.components.values())[0].mode == N:
            print("KF-C03-7", show(c))
            return True


def answering(pred):
    """Replace the unseeded draw by another LEGAL answer of the same strategy (hypothesis.find proves the strategy can return it)."""
    from hypothesis import find, settings

    real = coverage.cached_draw

    def draw(strategy):
        try:
            return find(strategy, lambda v: isinstance(v, str) and pred(v), settings=settings(max_examples=500, database=None))
        except Exception:
            return real(strategy)

    return real, draw


def kf8_9_10():
    """pattern x length: generate_from_schema draws from_regex(pattern) and ignores the length keywords."""
    found = set()
    s1 = {"type": "string", "maxLength": 1, "pattern": "a"}
    s2 = {"type": "string", "minLength": 2, "pattern": "^[ab]{1,2}$"}
    s3 = {"type": "string", "minLength": 2, "pattern": "^a+$"}
    for v in values(s2, [P]):  # deterministic
        if not ok(s2, v.value):
            found.add("9")
            print("KF-C03-9", v.description, repr(v.value), "violates", s2)
    real, draw = answering(lambda v: len(v) > 1)
    coverage.cached_draw = draw
    try:
        for v in cover_schema_iter(CoverageContext(location="body", generation_modes=[P]), dict(s1)):
            if not ok(s1, v.value) and "8" not in found:
                found.add("8")
                print("KF-C03-8", v.description, repr(v.value), "violates", s1, "(draw answered with a non-simplest example)")
        for v in cover_schema_iter(CoverageContext(location="body", generation_modes=[N]), dict(s3)):
            if v.description == "String smaller than minLength" and ok(s3, v.value) and "10" not in found:
                found.add("10")
                print("KF-C03-10", v.description, repr(v.value), "conforms to", s3, "(draw answered with a non-simplest example)")
    finally:
        coverage.cached_draw = real
    return len(found) == 3


def kf11_12():
    """format without a checker (binary, byte): any string is emitted as 'Value not matching the format'."""
    out = 0
    for fmt in ("binary", "byte"):
        s = {"type": "string", "format": fmt}
        for v in values(s, [N]):
            if v.description.endswith("format") and v.value == "":
                print("KF-C03-11/12", v.description, repr(v.value), "- every string is valid `binary`, '' is valid base64")
                out += 1
    return out == 2


def kf13():
    """integer with a fractional multipleOf: 1.5 is a positive 'Near-boundary number'."""
    s = {"type": "integer", "minimum": 1, "multipleOf": 0.5}
    for v in values(s, [P]):
        if v.generation_mode == P and not ok(s, v.value):
            print("KF-C03-13", v.description, v.value, "violates", s)
            return True


def kf14():
    """unsatisfiable schema (minimum > maximum) still gets POSITIVE values."""
    s = {"type": "integer", "minimum": 2, "maximum": 1}
    bad = [(v.description, v.value) for v in values(s, [P]) if v.generation_mode == P]
    print("KF-C03-14", bad, "labelled positive for", s)
    return bool(bad)


def kf15_16():
    """'Incorrect type' negatives of a string parameter are valid strings once serialised (0 -> "0", False -> "false")."""
    op = operation(parameters=[{"name": "p", "in": "query", "required": True, "schema": {"type": "string"}},
                               {"name": "X-H", "in": "header", "required": True, "schema": {"type": "string"}}], method="get")
    a = b = False
    for c in cases(op, [N]):
        d = c.meta.phase.data
        if d.description == "Incorrect type" and d.parameter == "p" and isinstance(c.query["p"], str) and not a:
            print("KF-C03-15/16", show(c))
            a = True
        if d.description.startswith("Unspecified HTTP method") and not b:
            print("KF-C03-17 (template values of negative-only mode)", show(c))
            b = True
    return a and b


def kf17_18():
    """required parameter whose schema yields no value in the requested modes is dropped silently / its negative template is ignored."""
    op = operation(parameters=[{"name": "p", "in": "query", "required": True, "schema": {"minimum": 1}}], method="get")
    a = b = False
    for c in cases(op, [P]):
        if c.meta.generation.mode == P and (c.query is None or "p" not in c.query):
            print("KF-C03-18/19", show(c), "- required `p` is absent")
            a = True
            break
    for c in cases(op, [P, N]):
        if c.meta.generation.mode == P and any(v.mode == N for v in c.meta.components.values()):
            print("KF-C03-20", show(c))
            b = True
            break
    return a and b


ALL = {"KF-C03-1": kf1, "KF-C03-2": kf2, "KF-C03-3": kf3, "KF-C03-4": kf4, "KF-C03-5": kf5, "KF-C03-6": kf6, "KF-C03-7": kf7,
       "KF-C03-8": kf8_9_10, "KF-C03-11": kf11_12, "KF-C03-13": kf13, "KF-C03-14": kf14, "KF-C03-15": kf15_16, "KF-C03-18": kf17_18}

if __name__ == "__main__":
    wanted = sys.argv[1:] or list(ALL)
    failed = [name for name in wanted if not ALL[name]()]
    print("not reproduced:", failed)
    sys.exit(1 if failed else 0)
