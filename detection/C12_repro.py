"""Standalone reproduction for KF-C12-R1 (imports schemathesis only; run: /venv/bin/python detection/C12_repro.py).
A stateful scenario is started AFTER a stop was requested: the stop flag is read inside `step` only, `setup` announces anyway."""
import io, hypothesis, requests, schemathesis, urllib3
from schemathesis.engine import from_schema
from schemathesis.engine.config import EngineConfig, ExecutionConfig, NetworkConfig
from schemathesis.engine.phases import PhaseName
link = {"g": {"operationId": "g", "parameters": {"id": "$response.body#/id"}}}
doc = {"openapi": "3.0.2", "info": {"title": "t", "version": "1"}, "paths": {
    "/users": {"post": {"responses": {"201": {"description": "ok", "links": link}}}},
    "/users/{id}": {"get": {"operationId": "g", "parameters": [{"name": "id", "in": "path", "required": True, "schema": {"type": "integer"}}], "responses": {"200": {"description": "ok"}}}}}}
def send(self, request, **kw):  # the API answers 201 {"id": 7}; the stop request arrives while the FIRST request is being served
    stream.stop()
    return self.build_response(request, urllib3.HTTPResponse(body=io.BytesIO(b'{"id": 7}'), headers={"Content-Type": "application/json"}, status=201, preload_content=False))
requests.adapters.HTTPAdapter.send = send
execution = ExecutionConfig(phases=[PhaseName.STATEFUL_TESTING], seed=1, hypothesis_settings=hypothesis.settings(max_examples=5, stateful_step_count=1, derandomize=True, database=None, deadline=None))
stream = from_schema(schemathesis.openapi.from_dict(doc).configure(base_url="http://x.local"), config=EngineConfig(execution=execution, network=NetworkConfig())).execute()
started = [e for e in stream if type(e).__name__ == "ScenarioStarted"]
print("KF-C12-R1: scenarios started:", len(started), "(expected 1: the stop was requested during the only request of the first one)")
