# Standalone reproduction (no /verif imports): use_after_free looks at the status of the DELETE's *parent*.
import requests, schemathesis
from schemathesis.checks import CheckContext
from schemathesis.core.transport import Response
from schemathesis.engine.recorder import ScenarioRecorder
from schemathesis.specs.openapi.checks import UseAfterFree, use_after_free

P = [{"name": "id", "in": "path", "required": True, "schema": {"type": "integer"}}]
R = {"default": {"description": "any"}}
schema = schemathesis.openapi.from_dict({"openapi": "3.0.2", "info": {"title": "t", "version": "1"}, "paths": {
    "/users": {"post": {"responses": R}},
    "/users/{id}": {"parameters": P, "get": {"responses": R}, "delete": {"responses": R}}}})

def run(steps):
    """steps: (method, path, id, status, parent index or None); returns the verdict of use_after_free on the last one."""
    recorder, cases = ScenarioRecorder(label="s"), []
    for method, path, ident, status, parent in steps:
        case = schema[path][method].Case(path_parameters={"id": ident} if ident else None)
        cases.append(case)
        recorder.record_case(parent_id=cases[parent].id if parent is not None else None, transition=None, case=case)
        response = Response(status, {}, b"", requests.Request(method, "http://x" + path).prepare(), 0.1, True)
        recorder.record_response(case_id=case.id, response=response)
    ctx = CheckContext(override=None, auth=None, headers=None, config={}, transport_kwargs=None, recorder=recorder)
    try:
        use_after_free(ctx, response, case)
        return "not reported"
    except UseAfterFree as exc:
        return f"REPORTED ({exc.free} then {exc.usage})"

print("DELETE failed with 403, then GET 200      :", run([("POST", "/users", None, 201, None), ("DELETE", "/users/{id}", 1, 403, 0), ("GET", "/users/{id}", 1, 200, 0)]))
print("DELETE failed with 500, then GET 200      :", run([("POST", "/users", None, 201, None), ("DELETE", "/users/{id}", 1, 500, 0), ("GET", "/users/{id}", 1, 200, 0)]))
print("root DELETE succeeded (204), then GET 200 :", run([("DELETE", "/users/{id}", 1, 204, None), ("GET", "/users/{id}", 1, 200, 0)]))
print("canonical: DELETE 204 then GET 200        :", run([("POST", "/users", None, 201, None), ("DELETE", "/users/{id}", 1, 204, 0), ("GET", "/users/{id}", 1, 200, 0)]))
