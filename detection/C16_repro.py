"""Standalone reproductions for the staged C16 findings (real schemathesis code only, no /verif imports).

Run: /venv/bin/python /verif/findings_proposed/C16_repro.py            (prints one line per finding)
"""
import io, json, os, sys, tempfile, uuid, warnings, xml.etree.ElementTree as ET  # noqa: E401

warnings.simplefilter("ignore")
import requests, yaml  # noqa: E402,E401
from click.utils import LazyFile  # noqa: E402

import schemathesis  # noqa: E402
from schemathesis.cli.commands.run.context import ExecutionContext  # noqa: E402
from schemathesis.cli.commands.run.handlers.cassettes import CassetteWriter  # noqa: E402
from schemathesis.cli.commands.run.handlers.junitxml import JunitXMLHandler  # noqa: E402
from schemathesis.cli.commands.run.reports import ReportFormat  # noqa: E402
from schemathesis.core.failures import Failure  # noqa: E402
from schemathesis.core.transport import Response  # noqa: E402
from schemathesis.engine import Status, events  # noqa: E402
from schemathesis.engine.phases import PhaseName  # noqa: E402
from schemathesis.engine.recorder import ScenarioRecorder  # noqa: E402
from schemathesis.generation import GenerationMode  # noqa: E402
from schemathesis.generation.meta import CaseMetadata, GenerationInfo, PhaseInfo  # noqa: E402

SCHEMA = schemathesis.openapi.from_dict({
    "openapi": "3.0.2", "info": {"title": "t", "version": "1"},
    "paths": {"/a": {"get": {"responses": {"200": {"description": "ok"}}}}},
}).configure(base_url="http://h.local")
META = CaseMetadata(generation=GenerationInfo(time=0.1, mode=GenerationMode.POSITIVE), components={}, phase=PhaseInfo.generate())


def recorder(label, *, url="http://h.local/a", meta=META, req_headers=None, resp_headers=None, failure=None):
    case = SCHEMA["/a"]["GET"].Case(meta=meta)
    prepared = requests.Request("GET", url, headers=req_headers or {}).prepare()
    response = Response(500, {"Content-Type": ["application/json"], **(resp_headers or {})}, b"{}", prepared, 0.1, True, "ISE")
    rec = ScenarioRecorder(label=label)
    rec.record_case(parent_id=None, transition=None, case=case)
    rec.record_response(case_id=case.id, response=response)
    if failure is not None:
        rec.record_check_failure(name="c", case_id=case.id, code_sample="curl http://h.local/a", failure=failure)
    else:
        rec.record_check_success(name="c", case_id=case.id)
    return rec


def finished(rec, status=Status.SUCCESS, phase=PhaseName.FUZZING):
    return events.ScenarioFinished(id=uuid.uuid4(), phase=phase, suite_id=uuid.uuid4(), label=rec.label, status=status, recorder=rec,
                                   elapsed_time=0.1, skip_reason=None, is_final=False)


def cassette(rec, argv=None):
    """Feed one scenario to the real VCR writer; returns (file bytes, writer thread alive?)."""
    old = sys.argv
    with tempfile.TemporaryDirectory() as tmp:
        path = LazyFile(os.path.join(tmp, "c.yaml"), mode="w", encoding="utf-8")
        if argv:
            sys.argv = argv
        try:
            sys.stderr = io.StringIO()  # the dying writer thread prints its traceback
            writer = CassetteWriter(format=ReportFormat.VCR, path=path, sanitize_output=False)
            ctx = ExecutionContext(seed=1)
            writer.start(ctx)
            writer.handle_event(ctx, finished(rec))
            writer.shutdown(ctx)
            writer.worker.join()
        finally:
            sys.argv, sys.stderr = old, sys.__stderr__
        path.close()
        return open(path.name, "rb").read()


def parses(data):
    try:
        yaml.safe_load(data)
        return "valid YAML"
    except yaml.YAMLError as exc:
        return f"INVALID YAML ({type(exc).__name__})"


def kf1_junit_keyerror():
    """Same failure found in the unit phase (label GET /a) and again in the stateful phase (label 'Stateful tests')."""
    ctx = ExecutionContext()
    with tempfile.TemporaryDirectory() as tmp:
        junit = JunitXMLHandler(LazyFile(os.path.join(tmp, "j.xml"), mode="w", encoding="utf-8"))
        f1 = Failure(operation="GET /a", title="Server error", message="m")
        f1_again = Failure(operation="GET /a", title="Server error", message="m")
        for event in (finished(recorder("GET /a", failure=f1), Status.FAILURE),
                      finished(recorder("Stateful tests", failure=f1_again), Status.FAILURE, PhaseName.STATEFUL_TESTING)):
            ctx.on_event(event)
            try:
                junit.handle_event(ctx, event)
            except KeyError as exc:
                return f"JunitXMLHandler.handle_event raised KeyError({exc}) -> `_execute` re-raises, run aborted, junit.xml empty"
    return "no error"


def kf7_junit_surrogate():
    ctx = ExecutionContext()
    with tempfile.TemporaryDirectory() as tmp:
        junit = JunitXMLHandler(LazyFile(os.path.join(tmp, "j.xml"), mode="w", encoding="utf-8"))
        event = finished(recorder("GET /a", failure=Failure(operation="GET /a", title="Custom check failed: `c`", message="got \ud800")),
                         Status.FAILURE)
        ctx.on_event(event)
        junit.handle_event(ctx, event)
        try:
            junit.handle_event(ctx, events.EngineFinished(running_time=1.0))
        except Exception as exc:  # noqa: BLE001
            return f"JunitXMLHandler raised {type(exc).__name__}: {exc}"
        junit.file_handle.close()  # (the finding is fixed in /repo: the "ok" path is taken now and needs the flushed file)
        return "ok: " + str(len(ET.parse(junit.file_handle.name).getroot()))


if __name__ == "__main__":
    print("KF-C16-1 ", kf1_junit_keyerror())
    print("KF-C16-2  case without metadata:", parses(cassette(recorder("GET /a", meta=None))),
          "|", [line for line in cassette(recorder("GET /a", meta=None)).decode().splitlines() if "status:" in line][0].strip())
    print("KF-C16-3  URL path with ':", parses(cassette(recorder("GET /a", url="http://h.local/a'b"))))
    print("KF-C16-4  argv with ':", parses(cassette(recorder("GET /a"), argv=["st", "run", "-H", "X-Note: it's", "http://h.local/o.json"])))
    data = cassette(recorder("GET /a"), argv=["st", "run", os.fsdecode(b"http://h.local/\xff.json")])
    print("KF-C16-5  argv with a non-UTF-8 byte: writer thread died with UnicodeEncodeError, cassette has", len(data), "bytes:", json.dumps(data.decode()))
    print("KF-C16-6  argv with DEL:", parses(cassette(recorder("GET /a"), argv=["st", "run", "http://h.local/\x7f"])))
    print("KF-C16-7 ", kf7_junit_surrogate())
    print('KF-C16-8  request header name with ":', parses(cassette(recorder("GET /a", req_headers={'X-"a"': "v"}))))
    print("KF-C16-9  request header name with \\:", parses(cassette(recorder("GET /a", req_headers={"X-\\": "v"}))),
          "| infix:", yaml.safe_load(cassette(recorder("GET /a", req_headers={"X-a\\b": "v"})))["http_interactions"][0]["request"]["headers"])
    print('KF-C16-10 response header name with ":', parses(cassette(recorder("GET /a", resp_headers={'x-"a"': ["v"]}))))
    print("KF-C16-11 response header name with \\:", parses(cassette(recorder("GET /a", resp_headers={"x-\\": ["v"]}))))


# ---- review round 2 (KF-C16-R1 .. R5); each reproduction is self-contained apart from the helpers above -------------------------


def _rec2(label="GET /a", headers=None, encoding=None, fail=True):
    case = SCHEMA["/a"]["GET"].Case(meta=META)
    prepared = requests.Request("GET", "http://h.local/a").prepare()
    rec = ScenarioRecorder(label=label)
    rec.record_case(parent_id=None, transition=None, case=case)
    # encoding = what requests derives from `Content-Type: text/plain; charset=<encoding>` (Response.from_requests copies it)
    rec.record_response(case_id=case.id, response=Response(500, headers or {}, b"abc", prepared, 0.1, True, "ISE", encoding=encoding))
    if fail:
        rec.record_check_failure(name="c", case_id=case.id, code_sample="curl", failure=Failure(operation=label, title="Server error", message="m"))
    return rec


def _junit(rec):
    ctx = ExecutionContext()
    with tempfile.TemporaryDirectory() as tmp:
        junit = JunitXMLHandler(LazyFile(os.path.join(tmp, "j.xml"), mode="w", encoding="utf-8"))
        try:
            for event in (finished(rec, Status.FAILURE), events.EngineFinished(running_time=1.0)):
                ctx.on_event(event)
                junit.handle_event(ctx, event)
        except Exception as exc:  # noqa: BLE001
            return f"JunitXMLHandler raised {type(exc).__name__}: {exc} on {type(event).__name__} -> run aborted, junit.xml empty"
        return "ok"


def _cassette2(rec, fmt, preserve):
    with tempfile.TemporaryDirectory() as tmp:
        path = LazyFile(os.path.join(tmp, "c"), mode="w", encoding="utf-8")
        sys.stderr = io.StringIO()
        writer = CassetteWriter(format=fmt, path=path, sanitize_output=False, preserve_bytes=preserve)
        ctx = ExecutionContext(seed=1)
        writer.start(ctx), writer.handle_event(ctx, finished(rec)), writer.shutdown(ctx), writer.worker.join()
        sys.stderr = sys.__stderr__
        path.close()
        return open(path.name, "rb").read()


if __name__ == "__main__":
    ct = {"Content-Type": ["text/plain; charset=zzz"]}
    print("KF-C16-R1 response declares an unknown charset:", _junit(_rec2(headers=ct, encoding="zzz")))
    data = _cassette2(_rec2(headers=ct, encoding="zzz"), ReportFormat.VCR, False)
    print("KF-C16-R2 same response, VCR writer thread died with LookupError: cassette ends after", repr(data.decode()[-40:]), "|", parses(data),
          "| has response body:", b"string:" in data)
    data = _cassette2(_rec2(headers={"Content-Type": ["text/plain; charset=a'b"]}, encoding="a'b"), ReportFormat.VCR, True)
    print("KF-C16-R3 charset with a quote, preserve_bytes on:", parses(data), "|", [ln.strip() for ln in data.decode().splitlines() if "encoding:" in ln])
    har = json.loads(_cassette2(_rec2(headers={"Set-Cookie": ["a=1", "b=2"]}), ReportFormat.HAR, False))
    print("KF-C16-R4 two Set-Cookie values received, HAR response headers:", har["log"]["entries"][0]["response"]["headers"])
    print("KF-C16-R5 operation label with U+FFFF (path key of a JSON schema):", _junit(_rec2(label="GET /a￿")))
