"""Standalone reproductions (real code only, no /verif imports) of the C01 findings of review round 2.

Run: /venv/bin/python detection/C01_repro.py   -> prints one line per finding, `REPRODUCED` when the defect shows.
"""
import schemathesis
from hypothesis import HealthCheck, Phase, given, settings
from schemathesis.generation import GenerationConfig, GenerationMode

STRICT = GenerationConfig(modes=[GenerationMode.POSITIVE], allow_x00=False, codec="ascii")


def draws(strategy, n=60):
    out = []

    @settings(max_examples=n, derandomize=True, database=None, deadline=None, phases=[Phase.generate], suppress_health_check=list(HealthCheck))
    @given(strategy)
    def collect(case):
        out.append(case)

    collect()
    return out


def document(parameters=(), body=None, security=None, version="3.0.2"):
    op = {"parameters": list(parameters), "responses": {"200": {"description": "OK"}}}
    if body is not None:
        op["requestBody"] = {"required": True, "content": {"application/json": {"schema": body}}}
    doc = {"openapi": version, "info": {"title": "t", "version": "1"}, "paths": {"/t": {"post": op}}}
    if security:
        doc["components"] = {"securitySchemes": security}
        op["security"] = [{name: [] for name in security}]
    return doc


def positive(doc, config=None, n=60):
    config = config or GenerationConfig(modes=[GenerationMode.POSITIVE])
    operation = schemathesis.openapi.from_dict(doc).configure(generation=config)["/t"]["POST"]
    return draws(operation.as_strategy(generation_mode=GenerationMode.POSITIVE, generation_config=config), n)


def report(finding, bad):
    print(finding, "REPRODUCED" if bad else "not reproduced", repr(bad[:2]))


# KF-C01-R1: a readOnly property is sent (and even demanded) when the object schema that owns it does not say `type: object`
# (converter.to_json_schema calls rewrite_properties only if schema.get("type") == "object")
props = {"properties": {"a": {"type": "integer"}, "r": {"type": "string", "readOnly": True}}, "required": ["a", "r"]}
report("KF-C01-R1", [c.body for c in positive(document(body=props)) if isinstance(c.body, dict) and "r" in c.body])
# KF-C01-R2: the same with the OpenAPI 3.1 spelling `type: [object, "null"]`
report("KF-C01-R2", [c.body for c in positive(document(body={**props, "type": ["object", "null"]}, version="3.1.0")) if isinstance(c.body, dict) and "r" in c.body])
# KF-C01-R3 / R4: enum members are generated although they break the configured codec / contain NUL with allow_x00=False,
# while another member ("a") meets the restrictions
q = {"name": "q", "in": "query", "required": True, "schema": {"type": "string", "enum": ["é", "a\x00", "a"]}}
values = [c.query["q"] for c in positive(document([q]), STRICT)]
report("KF-C01-R3", [v for v in values if not v.isascii()])
report("KF-C01-R4", [v for v in values if "\x00" in v])
# KF-C01-R5: `const` at the top level of an OpenAPI 3.1 parameter schema is dropped (OpenAPI30Parameter.supported_jsonschema_keywords)
q = {"name": "q", "in": "query", "required": True, "schema": {"type": "integer", "const": 2}}
report("KF-C01-R5", [c.query["q"] for c in positive(document([q], version="3.1.0")) if c.query["q"] != 2])
# KF-C01-R6: the generated `Authorization: Bearer ...` value ignores allow_x00=False / codec=ascii (formats: `_bearer_auth`)
bearer = [c.headers["Authorization"] for c in positive(document(security={"T": {"type": "http", "scheme": "bearer"}}), STRICT)]
report("KF-C01-R6", [v for v in bearer if "\x00" in v or not v.isascii()])
# KF-C01-R7: the per-operation strategy caches (_PARAMETER_STRATEGIES_CACHE / _BODY_STRATEGIES_CACHE in specs/openapi/_hypothesis.py)
# ignore the generation config: the second as_strategy(generation_config=...) on the same operation reuses the first one's strategies
q = {"name": "q", "in": "query", "required": True, "schema": {"type": "string"}}
operation = schemathesis.openapi.from_dict(document([q]))["/t"]["POST"]
draws(operation.as_strategy(generation_mode=GenerationMode.POSITIVE, generation_config=GenerationConfig()), 3)
second = draws(operation.as_strategy(generation_mode=GenerationMode.POSITIVE, generation_config=STRICT), 100)
report("KF-C01-R7", [c.query["q"] for c in second if "\x00" in c.query["q"] or not c.query["q"].isascii()])
# KF-C01-R8: a schema that names no type (`{}`) ignores allow_x00=False / codec=ascii (hypothesis-jsonschema returns its fixed,
# unrestricted JSON_STRATEGY for the empty schema; make_positive_strategy does not filter it)
q = {"name": "q", "in": "query", "required": True, "schema": {}}
values = [c.query["q"] for c in positive(document([q]), STRICT, 300)]
report("KF-C01-R8", [v for v in values if isinstance(v, str) and ("\x00" in v or not v.isascii())])
