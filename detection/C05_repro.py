"""Standalone reproduction for KF-C05-R1 (imports schemathesis only; run: /venv/bin/python detection/C05_repro.py).
With unique inputs the outcome cache outlives a phase: the fuzzing scenario fails without a request, a case or a check."""
import io, hypothesis, requests, schemathesis, urllib3
from schemathesis.engine import from_schema
from schemathesis.engine.config import EngineConfig, ExecutionConfig, NetworkConfig
from schemathesis.engine.phases import PhaseName
doc = {"openapi": "3.0.2", "info": {"title": "t", "version": "1"}, "paths": {"/b": {"get": {"responses": {"200": {"description": "OK"}}}}}}
sent = []
def send(self, request, **kw):  # the API under test: always 500
    sent.append(request.url)
    return self.build_response(request, urllib3.HTTPResponse(body=io.BytesIO(b"{}"), headers={"Content-Type": "application/json"}, status=500, preload_content=False))
requests.adapters.HTTPAdapter.send = send
execution = ExecutionConfig(phases=[PhaseName.COVERAGE, PhaseName.FUZZING], unique_inputs=True, seed=1, hypothesis_settings=hypothesis.settings(max_examples=2, derandomize=True, database=None, deadline=None))
events = list(from_schema(schemathesis.openapi.from_dict(doc).configure(base_url="http://x.local"), config=EngineConfig(execution=execution, network=NetworkConfig())).execute())
for e in events:
    if type(e).__name__ == "ScenarioFinished":  # expected: a FAILURE scenario records the failed check and its request
        print("KF-C05-R1:", e.phase.name, e.status.name, "cases", len(e.recorder.cases), "checks", len(e.recorder.checks), "interactions", len(e.recorder.interactions))
print("KF-C05-R1: requests sent in total:", sent)
