"""Standalone reproductions for the C08 findings of review round 2 (no /verif imports): /venv/bin/python detection/C08_repro.py"""
import schemathesis

ITEM = {"get": {"operationId": "getA", "responses": {"200": {"description": "ok"}}}}
BASE = {"openapi": "3.0.2", "info": {"title": "t", "version": "1"}}

# case 1 (KF-C08-R1, R1b, R1c): a path item `$ref` chain of two - the operation is neither offered nor reported
doc = {**BASE, "paths": {"/a": {"$ref": "#/x-items/A1"}}, "x-items": {"A1": {"$ref": "#/x-items/A"}, "A": ITEM}}
print("case 1 iteration:", list(schemathesis.openapi.from_dict(doc).get_all_operations()), "(expected: one Ok or one Err naming /a)")
for access in (lambda s: s["/a"]["GET"], lambda s: s.get_operation_by_id("getA")):
    try:
        print("case 1 lookup:", access(schemathesis.openapi.from_dict(doc)))
    except Exception as exc:
        print("case 1 lookup raises:", type(exc).__name__, exc)

# case 2 (KF-C08-R2): the percent-encoded spelling of the same JSON reference gives an operation with another path
doc = {**BASE, "paths": {"/users/{id}": {"parameters": [{"name": "id", "in": "path", "required": True, "schema": {"type": "string"}}], **ITEM}}}
schema = schemathesis.openapi.from_dict(doc)
plain = schema.get_operation_by_reference("#/paths/~1users~1{id}/get")
encoded = schema.get_operation_by_reference("#/paths/~1users~1%7Bid%7D/get")
print("case 2:", plain.path, "vs", encoded.path, "(expected: the same operation)", plain is encoded)
