"""Standalone reproduction for the C07 finding of review round 2 (no /verif imports): /venv/bin/python -m pytest -q -p no:cacheprovider detection/C07_repro.py
KF-C07-R1: the filters of a schema returned by a fixture are dropped by schemathesis.pytest.from_fixture - the excluded DELETE is tested."""
import pytest, schemathesis
R = {"200": {"description": "OK"}}
DOC = {"openapi": "3.0.2", "info": {"title": "t", "version": "1"}, "paths": {"/users": {"get": {"responses": R}, "delete": {"responses": R}}}}
SEEN = []
@pytest.fixture
def api_schema():
    return schemathesis.openapi.from_dict(DOC).exclude(method="DELETE")  # the user excludes DELETE on the schema itself
@schemathesis.pytest.from_fixture("api_schema").parametrize()
def test_api(case):
    SEEN.append(case.operation.label)
def test_zz_excluded_operation_was_not_tested():
    assert "DELETE /users" not in SEEN, f"tested although excluded: {sorted(set(SEEN))}"
