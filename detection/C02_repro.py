"""Standalone reproductions of the C02 findings of review round 2 (real code only, no /verif imports).
Run: /venv/bin/python /verif/detection/C02_repro.py   - prints one outcome per operation; the control lines say `skipped` / `cases`."""
import hypothesis, schemathesis
from hypothesis.errors import Unsatisfiable
from schemathesis.core.control import SkipTest
from schemathesis.generation import GenerationConfig, GenerationMode as M

def outcome(method, definition, version="3.0.2"):  # what a negative-only run of one operation ends in
    doc = {"openapi": version, "info": {"title": "t", "version": "1"},
           "paths": {"/t": {method: {**definition, "responses": {"200": {"description": "OK"}}}}}}
    strategy = schemathesis.openapi.from_dict(doc)["/t"][method.upper()].as_strategy(
        generation_mode=M.NEGATIVE, generation_config=GenerationConfig(modes=[M.NEGATIVE]))
    test = hypothesis.settings(max_examples=5, database=None, derandomize=True, suppress_health_check=list(hypothesis.HealthCheck))(
        hypothesis.given(strategy)(lambda case: None))
    try:
        test()
    except SkipTest:
        return "skipped"
    except Unsatisfiable:
        return "Unsatisfiable -> the engine reports the operation as an ERROR (neither skipped nor tested)"
    return "cases"

body = lambda schema, **kw: {"requestBody": {"content": {"application/json": {"schema": schema}}, **kw}}
param = lambda loc, schema: {"parameters": [{"name": "X-P", "in": loc, "schema": schema}]}
print("control   body {}                       :", outcome("post", body({})))
print("KF-C02-R1 body {description: d}         :", outcome("post", body({"description": "d"})))
print("control   cookie {type: string}         :", outcome("get", param("cookie", {"type": "string"})))
print("KF-C02-R2 cookie {minItems: 0}          :", outcome("get", param("cookie", {"minItems": 0})))
print("KF-C02-R3 header {minItems: 0}          :", outcome("get", param("header", {"minItems": 0})))
print("control   body {type: string, const: a} :", outcome("post", body({"type": "string", "const": "a"}, required=True), "3.1.0"))
print("KF-C02-R4 body {const: a}  (OpenAPI 3.1):", outcome("post", body({"const": "a"}, required=True), "3.1.0"))
