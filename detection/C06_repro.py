"""Standalone reproductions of the C06 findings (no /verif imports; run: /venv/bin/python detection/C06_repro.py).

Each block builds a tiny schema, makes the case the way Schemathesis itself makes it (the real strategy helpers / the real
coverage generator / the real example strategies), asks the real transport for the request and prints what a server would see.
"""

import requests
import schemathesis
from hypothesis import HealthCheck, Phase, given, settings
from schemathesis.generation import GenerationMode
from schemathesis.generation.hypothesis.builder import _iter_coverage_cases
from schemathesis.specs.openapi._hypothesis import jsonify_python_specific_types, quote_all


def op3(parameter, template="/t", method="get", **extra):
    raw = {"openapi": "3.0.2", "info": {"title": "t", "version": "1"},
           "paths": {template: {method: {"parameters": [parameter] if parameter else [], "responses": {"200": {"description": "OK"}}, **extra}}}}
    return schemathesis.openapi.from_dict(raw).configure(base_url="http://h")[template][method.upper()]


def op2(parameter, template="/t", method="get", **extra):
    raw = {"swagger": "2.0", "info": {"title": "t", "version": "1"},
           "paths": {template: {method: {"parameters": [parameter], "responses": {"200": {"description": "OK"}}, **extra}}}}
    return schemathesis.openapi.from_dict(raw).configure(base_url="http://h")[template][method.upper()]


def wire(case):
    prepared = requests.Session().prepare_request(requests.Request(**case.as_transport_kwargs()))
    return prepared.url, {k: v for k, v in prepared.headers.items() if k not in ("User-Agent", "Accept", "Accept-Encoding", "Connection", "X-Schemathesis-TestCaseId")}, prepared.body


def generated(operation, location, value):
    """What get_parameters_strategy does to a drawn value: serialize -> (path: quote_all) -> jsonify."""
    serialize = operation.get_parameter_serializer(location)
    value = {k: v for k, v in value.items()}
    if serialize is not None:
        value = serialize(value)
    if location == "path":
        value = jsonify_python_specific_types(quote_all(value))
    elif location == "query":
        value = jsonify_python_specific_types(value)
    return value


def show(title, got, want):
    print(f"{title}\n    sent:     {got}\n    expected: {want}")


STR = {"type": "string"}
ARR = {"type": "array", "items": {"type": "string"}}
ARRB = {"type": "array", "items": {"type": "boolean"}}
OBJ = {"type": "object", "properties": {"a": {"type": "string"}}}

# KF-C06-1  space in a path value is sent as '+', which is a literal plus in a path
o = op3({"name": "p", "in": "path", "required": True, "schema": STR}, "/t/{p}")
show("KF-C06-1 path value 'a b'", wire(o.Case(path_parameters=generated(o, "path", {"p": "a b"})))[0], "http://h/t/a%20b")

# KF-C06-2  '.' / '..' are escaped as %2E by quote_all, requests un-escapes unreserved characters again
show("KF-C06-2 path value '.'", wire(o.Case(path_parameters=generated(o, "path", {"p": "."})))[0], "http://h/t/%2E (no raw dot segment)")
show("KF-C06-2 path value '..'", wire(o.Case(path_parameters=generated(o, "path", {"p": ".."})))[0], "http://h/t/%2E%2E")

# KF-C06-4  path arrays/objects without an explicit `style` (default: simple) are formatted with Python's str()
o = op3({"name": "p", "in": "path", "required": True, "schema": ARR}, "/t/{p}")
show("KF-C06-4 path array ['a?b'] without `style`", wire(o.Case(path_parameters=generated(o, "path", {"p": ["a?b", "c"]})))[0], "http://h/t/a%3Fb,c")
o = op3({"name": "p", "in": "path", "required": True, "style": "simple", "schema": OBJ}, "/t/{p}")
show("KF-C06-4 path object, style=simple, explode omitted", wire(o.Case(path_parameters=generated(o, "path", {"p": {"a": "x"}})))[0], "http://h/t/a,x")
o = op3({"name": "X-P", "in": "header", "required": True, "schema": OBJ})
show("KF-C06-4 header object, explode omitted", wire(o.Case(headers=generated(o, "header", {"X-P": {"a": "x"}})))[1], "{'X-P': 'a,x'}")

# KF-C06-5  query objects with the default explode (true for form) send only their keys
o = op3({"name": "p", "in": "query", "required": True, "schema": OBJ})
show("KF-C06-5 query object {'a': 'x'}, explode omitted", wire(o.Case(query=generated(o, "query", {"p": {"a": "x"}})))[0], "http://h/t?a=x")

# KF-C06-6  matrix style, explode=false: the ';name=' prefix is missing
o = op3({"name": "p", "in": "path", "required": True, "style": "matrix", "schema": ARR}, "/t/{p}")
show("KF-C06-6 matrix array ['a','b']", wire(o.Case(path_parameters=generated(o, "path", {"p": ["a", "b"]})))[0], "http://h/t/;p=a,b")

# KF-C06-7  pipeDelimited / spaceDelimited with the default explode (false) are sent exploded
o = op3({"name": "p", "in": "query", "required": True, "style": "pipeDelimited", "schema": ARR})
show("KF-C06-7 pipeDelimited ['a','b'], explode omitted", wire(o.Case(query=generated(o, "query", {"p": ["a", "b"]})))[0], "http://h/t?p=a%7Cb")

# KF-C06-8  Swagger 2.0 formData arrays ignore collectionFormat
o = op2({"name": "p", "in": "formData", "required": True, "type": "array", "items": {"type": "string"}, "collectionFormat": "csv"},
        method="post", consumes=["application/x-www-form-urlencoded"])
show("KF-C06-8 formData csv ['a','b']", wire(o.Case(body={"p": ["a", "b"]}, media_type="application/x-www-form-urlencoded"))[2], "p=a%2Cb")

# KF-C06-9..12  coverage phase (Template._serialize)
o = op3({"name": "p", "in": "path", "required": True, "style": "label", "schema": {"type": "integer"}}, "/t/{p}")
case = next(iter(_iter_coverage_cases(o, [GenerationMode.POSITIVE])))
show("KF-C06-9 coverage, label integer", (case.path_parameters, wire(case)[0]), "{'p': '.0'} http://h/t/.0")
o = op2({"name": "X-P", "in": "header", "required": True, "type": "array", "items": {"type": "integer"}, "minItems": 2, "collectionFormat": "pipes"})
case = next(c for c in _iter_coverage_cases(o, [GenerationMode.POSITIVE]) if "," in str(c.headers))
show("KF-C06-10 coverage, header pipes array", wire(case)[1], "{'X-P': '0|0'}")
o = op3({"name": "X-P", "in": "header", "required": True, "content": {"application/json": {"schema": {"type": "array", "items": {"type": "boolean"}, "minItems": 1}}}})
case = next(iter(_iter_coverage_cases(o, [GenerationMode.POSITIVE])))
show("KF-C06-11 coverage, JSON-content header array", wire(case)[1], "{'X-P': '[false]'} (a JSON array)")
o = op3({"name": "p", "in": "query", "required": True, "style": "form", "explode": True, "schema": {"type": "object", "properties": {"a": {"type": "string"}, "b": {"type": "boolean"}}}})
cases = [c for c in _iter_coverage_cases(o, [GenerationMode.POSITIVE])]
target = next(c for c in cases if c.meta.phase.data.description.endswith("and 'a'"))
show("KF-C06-12 coverage, exploded object, case 'all required properties and a'", wire(target)[0], "http://h/t?a=<value>   (no b=...)")

# KF-C06-13  explicit examples of path parameters are not percent-encoded
for example, want in (("a/b", "http://h/t/a%2Fb"), ("a?b", "http://h/t/a%3Fb"), ("a#b", "http://h/t/a%23b"), ("..", "http://h/t/%2E%2E"), ("%41", "http://h/t/%2541")):
    o = op3({"name": "p", "in": "path", "required": True, "schema": STR, "example": example}, "/t/{p}")
    seen = []

    @given(case=o.get_strategies_from_examples()[0])
    @settings(max_examples=1, phases=[Phase.generate], database=None, derandomize=True, suppress_health_check=list(HealthCheck))
    def run(case):
        seen.append(wire(case)[0])

    run()
    show(f"KF-C06-13 path example {example!r}", seen[0], want)


# ---- review round 2 (standalone: only the helpers of this file)

# KF-C06-R1  a percent-escaped reserved character in the configured base URL is decoded (prepare_url: unquote(urljoin(...)))
raw = {"openapi": "3.0.2", "info": {"title": "t", "version": "1"}, "paths": {"/t": {"get": {"responses": {"200": {"description": "OK"}}}}}}
o = schemathesis.openapi.from_dict(raw).configure(base_url="http://h/a%2Fb/")["/t"]["GET"]
show("KF-C06-R1 base URL 'http://h/a%2Fb/'", wire(o.Case())[0], "http://h/a%2Fb/t   ('/a%2Fb' is one segment, '/a/b' are two)")

# KF-C06-R2 / R3  the style serializer is chosen by the literal `schema.type`: a 3.1 type list or an allOf wrapper disables it
for title, version, schema in (
    ("KF-C06-R2 3.1 `type: [array, null]`, form explode=false", "3.1.0", {"type": ["array", "null"], "items": {"type": "string", "enum": ["x"]}, "minItems": 2, "maxItems": 2}),
    ("KF-C06-R3 `allOf: [{type: array}]`, form explode=false", "3.0.2", {"allOf": [{"type": "array", "items": {"type": "string", "enum": ["x"]}, "minItems": 2, "maxItems": 2}]}),
):
    raw = {"openapi": version, "info": {"title": "t", "version": "1"}, "paths": {"/t": {"get": {"parameters": [
        {"name": "q", "in": "query", "required": True, "style": "form", "explode": False, "schema": schema}], "responses": {"200": {"description": "OK"}}}}}}
    o = schemathesis.openapi.from_dict(raw).configure(base_url="http://h")["/t"]["GET"]
    show(title, wire(o.Case(query=generated(o, "query", {"q": ["x", "x"]})))[0], "http://h/t?q=x%2Cx   (one pair, comma-separated)")

# KF-C06-R4  as_curl_command() (sanitisation on by default) filters case.query / case.cookies in place: the next send carries '[Filtered]'
raw = {"openapi": "3.0.2", "info": {"title": "t", "version": "1"}, "paths": {"/t": {"get": {"parameters": [
    {"name": "api_key", "in": "query", "required": True, "schema": STR}, {"name": "session", "in": "cookie", "required": True, "schema": STR}],
    "responses": {"200": {"description": "OK"}}}}}}
o = schemathesis.openapi.from_dict(raw).configure(base_url="http://h")["/t"]["GET"]
case = o.Case(query={"api_key": "abc"}, cookies={"session": "xyz"})
first = wire(case)
case.as_curl_command()
show("KF-C06-R4 second request of one case, after as_curl_command()", wire(case)[:2], first[:2])
