"""Standalone reproductions of C04 findings of review round 2 (no /verif imports; run: /venv/bin/python detection/C04_repro.py)."""
import requests
import schemathesis
from schemathesis.core.transport import Response

A = {"type": "object", "properties": {"id": {"type": "integer"}}, "required": ["id"]}
raw = {"openapi": "3.0.2", "info": {"title": "t", "version": "1"}, "paths": {"/t": {"get": {"responses": {"200": {"description": "d", "content": {
    "text/plain": {}, "application/json": {"schema": A}}}}}}}}
operation = schemathesis.openapi.from_dict(raw)["/t"]["GET"]
request = requests.Request("GET", "http://127.0.0.1/t").prepare()

# KF-C04-R1: the first documented media type has no schema -> the body of the second (application/json) is never validated
bad = Response(200, {"Content-Type": ["application/json"]}, b'{"id": "x"}', request, 0.1, False)
print("KF-C04-R1", "reproduced" if operation.validate_response(bad) is None else "not reproduced", "- {'id': 'x'} passed although `id` must be an integer")

# KF-C04-R2: is_response_valid is documented to return a bool but lets FailureGroup (a BaseExceptionGroup, not an AssertionError) escape
no_content_type = Response(200, {}, b'{"id": "x"}', request, 0.1, False)
raw["paths"]["/t"]["get"]["responses"]["200"]["content"].pop("text/plain")
operation = schemathesis.openapi.from_dict(raw)["/t"]["GET"]
try:
    print("KF-C04-R2 not reproduced: returned", operation.is_response_valid(no_content_type))
except BaseException as exc:  # noqa: BLE001
    print("KF-C04-R2 reproduced: is_response_valid raised", type(exc).__name__, [type(e).__name__ for e in exc.exceptions])
