# Standalone reproduction (no /verif imports): /venv/bin/python repro.py
import http.server, subprocess, threading, schemathesis
from schemathesis.core.output import OutputConfig
seen = []
class H(http.server.BaseHTTPRequestHandler):
    def do_POST(self):
        seen.append((self.path, self.headers.get("X-T"), self.headers.get("Content-Type"), self.rfile.read(int(self.headers.get("Content-Length") or 0))))
        self.send_response(200); self.send_header("Content-Length", "0"); self.end_headers()
    def log_message(self, *a): pass
srv = http.server.ThreadingHTTPServer(("127.0.0.1", 0), H); threading.Thread(target=srv.serve_forever, daemon=True).start()
obj = {"type": "object", "properties": {"f": {"type": "string"}}}
doc = {"openapi": "3.0.2", "info": {"title": "t", "version": "1"}, "paths": {"/p/{x}": {"post": {
    "parameters": [{"name": "x", "in": "path", "required": True, "schema": {"type": "string"}}, {"name": "X-T", "in": "header", "schema": {"type": "string"}}],
    "requestBody": {"content": {"text/plain": {"schema": {"type": "string"}}, "multipart/form-data": {"schema": obj}}}, "responses": {"200": {"description": "OK"}}}}}}
def show(title, sanitize=False, **kw):
    schema = schemathesis.openapi.from_dict(doc).configure(base_url=f"http://127.0.0.1:{srv.server_port}", output=OutputConfig(sanitize=sanitize))
    case = schema["/p/{x}"]["POST"].Case(**{"path_parameters": {"x": "1"}, **kw}); del seen[:]
    response = case.call(); cmd = case.as_curl_command(headers=dict(response.request.headers), verify=response.verify)
    subprocess.run(["sh", "-c", cmd], capture_output=True, cwd="/"); print(title, "\n  command   :", cmd, "\n  original  :", seen[0], "\n  reproduced:", seen[1])
show("KF-C09-1 empty header value", headers={"X-T": ""})
show("KF-C09-2 text body starting with @", body="@/etc/hostname", media_type="text/plain")
show("KF-C09-3 multipart boundary", body={"f": "a"}, media_type="multipart/form-data")
show("KF-C09-4 newline in path, sanitisation on", sanitize=True, path_parameters={"x": "a\nb"})

# KF-C09-R1 (review round 2): a header given to call() whose name requests also sets by default is dropped from the command
def show_r1(name, value):
    schema = schemathesis.openapi.from_dict(doc).configure(base_url=f"http://127.0.0.1:{srv.server_port}", output=OutputConfig(sanitize=False))
    case = schema["/p/{x}"]["POST"].Case(path_parameters={"x": "1"}); got = []
    class R(H):
        def do_POST(self): got.append(self.headers.get(name)); super().do_POST()
    srv.RequestHandlerClass = R
    response = case.call(headers={name: value}); cmd = case.as_curl_command(headers=dict(response.request.headers), verify=response.verify)
    subprocess.run(["sh", "-c", cmd], capture_output=True, cwd="/"); print("KF-C09-R1", name, "\n  command   :", cmd, "\n  original  :", got[0], "\n  reproduced:", got[1])
    assert got[0] == value and got[1] != value
show_r1("Accept", "application/xml"); show_r1("User-Agent", "my-client/1"); show_r1("Accept-Encoding", "identity")
