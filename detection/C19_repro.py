"""Standalone reproductions of the C19 findings of review round 2 (no /verif imports; run: /venv/bin/python detection/C19_repro.py)."""

# KF-C19-R1: a filter with an `operation_id` condition makes every GraphQL operation fail instead of (not) applying the hook
import schemathesis
from hypothesis import HealthCheck, given, settings

schema = schemathesis.graphql.from_file("type Query { getBooks(n: Int!): Int }")

@schemathesis.hook.skip_for(operation_id="legacy-op")      # e.g. a hooks file shared by an Open API and a GraphQL project
def map_query(context, query):
    return {"tagged": "1"}

@given(case=schema["Query"]["getBooks"].as_strategy())
@settings(max_examples=1, derandomize=True, database=None, suppress_health_check=list(HealthCheck))
def test(case):
    assert case.query == {"tagged": "1"}     # expected: no GraphQL operation has this operationId, so the hook applies

try:
    test()
    print("KF-C19-R1 not reproduced")
except AttributeError as exc:
    print("KF-C19-R1 reproduced:", exc)      # 'GraphQLField' object has no attribute 'get'
