"""Shared by C11 / C12 / C05: work items = (document, engine config, API behaviour, single fault, bounds); each item is
explored completely by E3 (all schedules <= p pre-emptions, <= e environment deviations) on the real engine."""

from __future__ import annotations

import copy
from typing import Any, Callable, Iterator

from mc import engine, engine_sched, httpseam, sched

OK = {"200": {"description": "OK"}}

DOC_UNIT3 = {
    "openapi": "3.0.2", "info": {"title": "t", "version": "1"},
    "paths": {
        "/a": {"get": {"parameters": [{"name": "q", "in": "query", "schema": {"type": "integer", "example": 7}}], "responses": OK}},
        "/b": {"get": {"responses": OK}},
        "/c": {"get": {"parameters": [{"name": "h", "in": "query", "schema": {"type": "boolean"}}], "responses": OK}},
    },
}

DOC_UNIT2 = {
    "openapi": "3.0.2", "info": {"title": "t", "version": "1"},
    "paths": {
        "/a": {"get": {"parameters": [{"name": "q", "in": "query", "schema": {"type": "integer", "example": 7}}], "responses": OK}},
        "/b": {"get": {"responses": OK}},
    },
}

DOC_LINK = {
    "openapi": "3.0.2", "info": {"title": "t", "version": "1"},
    "paths": {
        "/users": {"post": {
            "operationId": "createUser",
            "requestBody": {"required": True, "content": {"application/json": {"schema": {
                "type": "object", "properties": {"name": {"type": "string", "maxLength": 2}}, "required": ["name"], "additionalProperties": False}}}},
            "responses": {"201": {"description": "ok", "content": {"application/json": {"schema": {"type": "object"}}},
                                  "links": {"get": {"operationId": "getUser", "parameters": {"id": "$response.body#/id"}}}}},
        }},
        "/users/{id}": {"get": {
            "operationId": "getUser",
            "parameters": [{"name": "id", "in": "path", "required": True, "schema": {"type": "integer"}}],
            "responses": {"200": {"description": "ok"}, "404": {"description": "nf"}},
        }},
    },
}

# the smallest documents: ONE operation (with a parameter that has an example / without any parameter)
DOC_ONE_A = {"openapi": "3.0.2", "info": {"title": "t", "version": "1"}, "paths": {"/a": copy.deepcopy(DOC_UNIT2["paths"]["/a"])}}
DOC_ONE_B = {"openapi": "3.0.2", "info": {"title": "t", "version": "1"}, "paths": {"/b": {"get": {"responses": OK}}}}

# a defect of the document itself: one path item whose path-level parameters hold a dangling reference; the error has a
# path but no method (no scenario to attach it to) and sits before / between / after healthy operations
_BROKEN_ITEM = {"parameters": [{"$ref": "#/components/parameters/Missing"}], "get": {"responses": OK}}


def _with_broken(position: int) -> dict:
    doc = copy.deepcopy(DOC_UNIT2)
    paths = list(doc["paths"].items())
    paths.insert(position, ("/z", copy.deepcopy(_BROKEN_ITEM)))
    doc["paths"] = dict(paths)
    return doc


def _with_broken_operation(position: int) -> dict:
    """The same dangling reference inside ONE OPERATION's own parameters: this error has a path AND a method, so the engine
    announces a scenario of its own for it (ScenarioStarted / NonFatalError / ScenarioFinished(ERROR) put by `on_error`)."""
    doc = copy.deepcopy(DOC_UNIT2)
    paths = list(doc["paths"].items())
    paths.insert(position, ("/z", {"get": {"parameters": [{"$ref": "#/components/parameters/Missing"}], "responses": OK}}))
    doc["paths"] = dict(paths)
    return doc


def _with_header_examples(values: list[str]) -> dict:
    """An explicit example that cannot be sent (line break in a header value) before / between / after sendable ones: the
    unsendable one is dropped while the test is built and has to be reported (InvalidHeadersExample)."""
    doc = copy.deepcopy(DOC_UNIT2)
    doc["paths"]["/a"]["get"]["parameters"].append(
        {"name": "X-E", "in": "header", "schema": {"type": "string"}, "examples": {f"e{i}": {"value": v} for i, v in enumerate(values)}})
    return doc


_BAD = "a\nb"
BROKEN_DOCS = {"unit2_broken_first": _with_broken(0), "unit2_broken_mid": _with_broken(1), "unit2_broken_last": _with_broken(2),
               "hdr_example_bad_first": _with_header_examples([_BAD, "ok"]), "hdr_example_bad_mid": _with_header_examples(["ok", _BAD, "fine"]),
               "hdr_example_bad_last": _with_header_examples(["ok", _BAD]), "hdr_example_bad_only": _with_header_examples([_BAD]),
               "unit2_opbroken_mid": _with_broken_operation(1)}
DOCS = {"unit3": DOC_UNIT3, "unit2": DOC_UNIT2, "link": DOC_LINK, "one_a": DOC_ONE_A, "one_b": DOC_ONE_B, **BROKEN_DOCS}


def make_handler(behaviour: str) -> Callable[[], httpseam.Handler]:
    """API behaviour alphabet: which operation answers 500 (a failing `not_a_server_error`)."""

    def factory() -> httpseam.Handler:
        seen: dict[str, int] = {}  # requests per path within this execution (a fresh handler per execution)

        def handler(ex: httpseam.Exchange) -> tuple:
            path = ex.path
            seen[path] = seen.get(path, 0) + 1
            if behaviour.startswith("nth:"):
                # only the n-th request to the path fails (n=1: the first response fails, every later one succeeds)
                _, target, n = behaviour.split(":")
                if path == target and seen[path] == int(n):
                    return httpseam.json_response(500, {})
            if behaviour.startswith("even:") and path == behaviour[5:] and seen[path] % 2 == 0:
                return httpseam.json_response(500, {})  # every second response fails
            if behaviour.startswith("neg:") and path == behaviour[4:] and any(k == "q" and v.startswith("-") for k, v in ex.query):
                return httpseam.json_response(500, {})  # fails for one region of the input only (a negative number)
            if behaviour.startswith("noquery:") and path == behaviour[8:] and not ex.query:
                return httpseam.json_response(500, {})  # fails for the boundary input only (optional parameter left out)
            if behaviour == "fail_linked_user" and path == "/users/7":
                return httpseam.json_response(500, {})  # reachable through the link only (the id the API handed out): stateful phase
            if behaviour == "bad_body" and path == "/users" and ex.method == "POST":
                return httpseam.json_response(201, [7])  # documented status, body violates the documented schema
            if behaviour == "all500":
                return httpseam.json_response(500, {})
            if behaviour.startswith("fail:") and path == behaviour[5:]:
                return httpseam.json_response(500, {})
            if behaviour.startswith("two_kinds:") and path == behaviour[10:]:
                # the documented example value fails one way (500), every other input another way (undocumented 418)
                if ("q", "7") in ex.query:
                    return httpseam.json_response(500, {})
                return httpseam.json_response(418, {})
            if behaviour == "fail_get_user" and path.startswith("/users/"):
                return httpseam.json_response(500, {})
            if path == "/users" and ex.method == "POST":
                return httpseam.json_response(201, {"id": 7})
            return httpseam.json_response(200, {})

        return handler

    return factory


def violating_paths(behaviour: str) -> list[str]:
    """Path prefixes on which the behaviour makes a check fail (independent of the engine: read off the script above)."""
    for prefix in ("fail:", "nth:", "even:", "neg:", "noquery:", "two_kinds:"):
        if behaviour.startswith(prefix):
            return [behaviour.split(":")[1]]
    return {"all500": ["/"], "fail_get_user": ["/users/"], "fail_linked_user": ["/users/7"], "bad_body": ["/users"]}.get(behaviour, [])


def is_violating(behaviour: str, exchange: httpseam.Exchange) -> bool:
    """Did the scripted API answer this request with something an enabled check rejects?"""
    if exchange.status is None:
        return False
    if exchange.status >= 500:
        return True
    return behaviour == "bad_body" and exchange.path == "/users" and exchange.method == "POST" and exchange.status == 201


class FaultState:
    def __init__(self, fault: dict | None) -> None:
        self.fault = fault
        self.count = 0
        self.fired = 0

    def hit(self, stage: str, path: str) -> BaseException | None:
        f = self.fault
        if f is None or f["stage"] != stage:
            return None
        if f.get("path") and not path.startswith(f["path"]):
            return None
        self.count += 1
        if self.count == f.get("k", 1) or (f.get("persistent") and self.count >= f.get("k", 1)):
            self.fired += 1
            return make_exception(f["kind"])
        return None


def make_exception(kind: str) -> BaseException:
    import hypothesis.errors
    import requests

    return {
        "RuntimeError": RuntimeError("injected"),
        "ValueError": ValueError("injected"),
        "KeyError": KeyError("injected"),
        "AttributeError": AttributeError("injected"),
        "AssertionError": AssertionError("injected"),
        "ConnectionError": requests.ConnectionError("injected"),
        "Timeout": requests.Timeout("injected"),
        "InvalidArgument": hypothesis.errors.InvalidArgument("injected"),
        "KeyboardInterrupt": KeyboardInterrupt(),
        "PatternError": Exception("first argument must be string or compiled pattern"),
    }[kind]


def build_body(item: dict) -> tuple[Callable[[sched.Scheduler], engine_sched.ScheduledRun], list]:
    """Returns (body, fault_states): fault_states collects one FaultState per execution (the last one is current)."""
    doc = DOCS[item["doc"]]
    states: list[FaultState] = []

    def make_config() -> Any:
        from schemathesis.checks import not_a_server_error

        state = FaultState(item.get("fault"))
        states.append(state)
        checks = [not_a_server_error]
        if item.get("fault") and item["fault"]["stage"] == "check":
            def injected_check(ctx: Any, response: Any, case: Any) -> None:
                exc = state.hit("check", case.operation.path)
                if exc is not None:
                    raise exc

            injected_check.__name__ = "injected_check"
            checks = [not_a_server_error, injected_check]
        if item.get("extra_checks") == "status":
            from schemathesis.specs.openapi.checks import status_code_conformance

            checks = [*checks, status_code_conformance]
        if item.get("extra_checks") == "schema":
            from schemathesis.specs.openapi.checks import response_schema_conformance

            checks = [*checks, response_schema_conformance]
        modes = None
        if item.get("modes"):
            from schemathesis.generation import GenerationMode

            modes = [GenerationMode[m.upper()] for m in item["modes"]]
        return engine.make_config(
            modes=modes, phases=item["phases"], workers=item["workers"], max_examples=item.get("max_examples", 1),
            max_failures=item.get("max_failures"), continue_on_failure=item.get("cof", False),
            unique_inputs=item.get("unique", False), checks=checks, seed=item.get("seed", 1),
            stateful_step_count=item.get("steps", 2),
        )

    def on_send_extra(exchange: httpseam.Exchange) -> None:
        if states:
            exc = states[-1].hit("transport", exchange.path)
            if exc is not None:
                raise exc

    fault = item.get("fault")
    registered: list = []

    def prepare(schema: Any) -> None:
        """Install the fault at a public extension point (E4)."""
        import schemathesis

        if not fault:
            return
        stage = fault["stage"]

        def fire(stage_name: str, path: str) -> None:
            if states:
                exc = states[-1].hit(stage_name, path)
                if exc is not None:
                    raise exc

        if stage == "iterate":
            @schema.hook("before_init_operation")
            def _iterate(context: Any, operation: Any) -> None:
                fire("iterate", operation.path)
        elif stage == "construct":
            @schema.hook("before_add_examples")
            def _construct(context: Any, examples: Any) -> None:
                fire("construct", context.operation.path)
        elif stage == "generate":
            @schema.hook("map_query")
            def _generate(context: Any, query: Any) -> Any:
                fire("generate", context.operation.path)
                return query
        elif stage == "before_call":
            def before_call(context: Any, case: Any, **kwargs: Any) -> None:
                fire("before_call", case.operation.path)

            schemathesis.hook(before_call)
            registered.append(before_call)
        elif stage == "after_call":
            def after_call(context: Any, case: Any, response: Any) -> None:
                fire("after_call", case.operation.path)

            schemathesis.hook(after_call)
            registered.append(after_call)

    def cleanup() -> None:
        from schemathesis.hooks import GLOBAL_HOOK_DISPATCHER

        while registered:
            GLOBAL_HOOK_DISPATCHER.unregister(registered.pop())

    body = engine_sched.engine_body(doc, make_config, make_handler(item.get("behaviour", "ok")),
                                    consumer_may_stop=item.get("e", 0) > 0 and item.get("consumer_stop", True),
                                    on_send_extra=on_send_extra, prepare=prepare, cleanup=cleanup)
    return body, states


def explore_item(item: dict, max_executions: int | None = None) -> Iterator[tuple[sched.ScheduleRun, FaultState | None, sched.ExploreStats]]:
    body, states = build_body(item)
    stats = sched.ExploreStats()
    if "replay_choices" in item:
        # replay of one recorded schedule (used by the runner's replay-before-report and by --replay)
        run = sched.run_schedule(body, list(item["replay_choices"]), allow_interrupt=item.get("ctrl_c", True) and item.get("e", 0) > 0)
        stats.executions, stats.points, stats.states, stats.max_points = 1, len(run.choices), run.states, len(run.choices)
        yield run, (states[-1] if states else None), stats
        return
    for run in sched.explore(body, preemptions=item["p"], env=item.get("e", 0), allow_interrupt=item.get("ctrl_c", True),
                             max_executions=max_executions, stats=stats, total=item.get("total"),
                             shard=tuple(item["shard"]) if item.get("shard") else None):
        yield run, (states[-1] if states else None), stats


def events_brief(events: list) -> list[str]:
    out = []
    for e in events:
        s = type(e).__name__
        for attr in ("label", "status"):
            v = getattr(e, attr, None)
            if v is not None:
                s += f":{getattr(v, 'name', v)}"
        ph = getattr(e, "phase", None)
        if ph is not None:
            inner = getattr(ph, "name", ph)
            s += f"@{getattr(inner, 'name', inner)}"
        out.append(s)
    return out


def schedule_brief(run: sched.ScheduleRun) -> list[str]:
    """Only the non-default decisions: (point index, thread, description, chosen label)."""
    return [f"{i}:T{p.thread}:{p.desc}->{p.labels[p.chosen]}" for i, p in enumerate(run.trace) if p.chosen]


def sharded(item: dict, n: int) -> list[dict]:
    """Split the exploration of one item into n work items (see sched.explore(shard=...))."""
    if n <= 1:
        return [item]
    return [{**item, "shard": [k, n]} for k in range(n)]
