"""C11 - the engine event stream is a well-formed, properly nested protocol.

E3 explores every schedule (<= p pre-emptions, <= e environment deviations: consumer stop after any event, Ctrl-C at any
main-thread point) of the real engine threads for a matrix of small schemas x API behaviours x configurations x single
faults; the reference automaton of oracles/protocol.py judges the yielded event list of every execution.
"""

from __future__ import annotations

import re
from typing import Any

from mc.runner import Result
from oracles.protocol import check_protocol
from props import engine_explore as ee

ID = "C11"
LEVEL = "model_checking"
ENGINES = ["E3", "E4"]
RULE = (
    "work item = (document, phases, workers, max_failures, continue_on_failure, API behaviour, single fault); for each, every "
    "schedule of the real engine threads with <=p pre-emptions and <=e environment deviations (consumer stop after event i, "
    "Ctrl-C at a main-thread point, early timeout) is executed; a case is one complete execution; distinct = distinct "
    "(item, yielded event sequence); non-trivial = at least two threads interleaved or an environment deviation taken"
)
BOUNDS = {
    "quick": {"preemptions": 1, "env_deviations": 1, "total_deviations": 1, "workers": [1, 2], "max_exec_per_item": 1500},
    "thorough": {"preemptions": 2, "env_deviations": 1, "total_deviations": 2, "workers": [1, 2, 3], "max_exec_per_item": 20000},
}
BUDGET_S = {"quick": 140, "thorough": 3300}
CHUNK = 1
ASSUMPTIONS = [
    "context switches happen only at scheduling points: Thread/Lock/Event/Queue operations, reads of the stop flags, "
    "count_failure, and the moment a request is put on the wire; code between two points runs atomically",
    "Hypothesis runs derandomised without database; its internals touch no engine state",
    "Ctrl-C is delivered only at main-thread scheduling points",
]
TECHNIQUE = "stateless exploration of all thread schedules of the real engine under a controlled scheduler (iterative pre-emption bounding), protocol automaton as oracle"
LEVEL_TEXT = (
    "All schedules of the real worker/consumer threads up to the stated pre-emption bound, combined with every single "
    "environment deviation, are executed on the real engine and each yielded event list is run through a reference automaton. "
    "Lost/duplicated/unmatched events depend on where a thread is pre-empted; enumeration of schedules is what reaches them."
)
LEVEL_NOTE = "Trusted: the scheduler shims (mc/sched.py) faithfully stand in for threading/queue primitives; bounds as stated; 2-3 workers, 2-3 operations."


def items(tier: str, seed: int) -> list[dict]:
    b = BOUNDS[tier]
    p, e = b["preemptions"], b["env_deviations"]
    out: list[dict] = []
    shards = 4 if tier == "quick" else 16

    def add(**kw: Any) -> None:
        base = {"doc": "unit3", "phases": ["fuzzing"], "workers": 2, "max_failures": None, "cof": False, "behaviour": "ok",
                "fault": None, "p": p, "e": e, "max_examples": 1, "total": b["total_deviations"]}
        base.update(kw)
        out.extend(ee.sharded(base, shards if base["workers"] > 1 else 1))

    # unit phase, 2 workers: API behaviours x failure limit x continue_on_failure (every stop / Ctrl-C point, every pre-emption)
    # the smallest runs under TWO pre-emptions (one worker, one operation, one example): e.g. the consumer's queue time-out
    # firing while the worker is active and the worker finishing before the consumer looks at it
    add(doc="one_b", workers=1, behaviour="ok", p=2, e=0, total=2)
    add(doc="one_b", workers=1, behaviour="all500", p=2, e=0, total=2)
    add(doc="one_a", workers=1, behaviour="all500", max_failures=1, p=2, e=0, total=2)
    add(behaviour="ok")
    add(behaviour="fail:/b", max_failures=1)
    add(behaviour="all500", max_failures=1)
    add(behaviour="all500", max_failures=2)
    add(behaviour="fail:/b", cof=True)
    # single worker
    add(workers=1, behaviour="fail:/b")
    add(workers=1, behaviour="all500", max_failures=1)
    # several phases in sequence
    add(doc="unit2", phases=["coverage", "fuzzing"], behaviour="ok", e=0)
    add(doc="unit2", phases=["examples", "coverage", "fuzzing"], behaviour="fail:/b", max_failures=1, workers=1)
    # stateful phase (its own thread), alone and after fuzzing
    add(doc="link", phases=["stateful"], workers=1, behaviour="ok", max_examples=2)
    add(doc="link", phases=["stateful"], workers=1, behaviour="fail_get_user", max_examples=2)
    add(doc="link", phases=["stateful"], workers=1, behaviour="fail_get_user", max_failures=1, max_examples=2)
    add(doc="link", phases=["fuzzing", "stateful"], workers=1, behaviour="ok")
    # single faults injected into workers (schedules only)
    for kind in ("ConnectionError", "RuntimeError"):
        add(fault={"stage": "transport", "kind": kind, "path": "/b", "k": 1}, e=0)
    for kind in ("RuntimeError", "AssertionError", "KeyboardInterrupt"):
        add(fault={"stage": "check", "kind": kind, "path": "/b", "k": 1}, e=0)
    add(doc="link", phases=["stateful"], workers=1, max_examples=2, fault={"stage": "check", "kind": "RuntimeError", "path": "/users/", "k": 1})
    add(doc="link", phases=["stateful"], workers=1, max_examples=2, fault={"stage": "check", "kind": "KeyboardInterrupt", "path": "/users/", "k": 1})
    _review_round_2(add, tier)
    if tier == "thorough":
        for behaviour in ("ok", "fail:/b", "all500"):
            add(workers=3, behaviour=behaviour, max_failures=1)
            add(doc="unit2", phases=["examples", "coverage", "fuzzing"], behaviour=behaviour, workers=2)
        add(max_examples=2, behaviour="fail:/b", max_failures=1)
        add(doc="link", phases=["fuzzing", "stateful"], workers=2, behaviour="ok")
    return out


def _review_round_2(add: Any, tier: str) -> None:
    """Histories / configurations / faults the property quantifies over that the first version left out.  One worker (its
    schedules against the consumer, every stop / Ctrl-C point) unless the shape is about two workers."""
    all_unit = ["examples", "coverage", "fuzzing"]
    # -- documents: ONE operation; two workers of which one finds nothing to do; every phase of the engine in sequence
    add(doc="one_b", behaviour="fail:/b")
    add(doc="one_a", phases=all_unit, workers=1, behaviour="fail:/a")
    # -- a defect of the document: the engine itself announces (and closes) a scenario for the unusable operation / reports
    #    an error outside any scenario for the unusable path item; also while the failure limit is reached by that very error
    add(doc="unit2_opbroken_mid", workers=2, e=0)
    add(doc="unit2_opbroken_mid", workers=1, max_failures=1)
    add(doc="unit2_broken_mid", workers=1)
    add(doc="hdr_example_bad_mid", phases=["examples", "fuzzing"], workers=1, e=0)
    # -- phases: one that is enabled but not applicable (stateful without links); all four; later phases skipped by the limit
    add(doc="unit2", phases=["fuzzing", "stateful"], workers=1)
    add(doc="link", phases=[*all_unit, "stateful"], workers=1, behaviour="all500", max_failures=1, e=0)
    add(doc="link", phases=[*all_unit, "stateful"], workers=1, behaviour="fail_linked_user", max_failures=1, e=0)
    add(doc="link", phases=["stateful"], workers=1, max_examples=1, steps=1)
    add(doc="one_b", phases=["examples"], workers=1)                       # a phase in which every scenario is skipped
    add(doc="link", phases=["coverage", "stateful"], workers=1, e=0)        # a subset with a gap between its phases
    # -- API behaviours: which response fails; continue_on_failure / unique inputs with one worker and several phases
    add(doc="unit2", workers=1, behaviour="nth:/a:1", max_examples=3, cof=True, e=0)
    add(doc="unit2", workers=1, behaviour="even:/a", max_examples=4, cof=True, max_failures=1)
    add(doc="unit2", phases=["coverage", "fuzzing"], workers=1, behaviour="fail:/b", unique=True, e=0)
    # -- single faults at the other extension points (hooks), as exceptions and as KeyboardInterrupt raised by user code
    for stage, kind, workers in (("iterate", "RuntimeError", 2), ("iterate", "KeyboardInterrupt", 1), ("construct", "KeyboardInterrupt", 2),
                                 ("generate", "RuntimeError", 1), ("before_call", "KeyboardInterrupt", 1), ("after_call", "RuntimeError", 1),
                                 ("transport", "KeyboardInterrupt", 1)):
        # (the construct-stage hook runs where explicit examples are added: the examples phase)
        add(doc="unit2", workers=workers, e=0, fault={"stage": stage, "kind": kind, "path": "/a", "k": 1},
            phases=["examples"] if stage == "construct" else ["fuzzing"])
    # ... in the examples phase (later phases follow), and on the LAST request of an operation
    add(doc="unit2", phases=all_unit, workers=1, e=0, fault={"stage": "check", "kind": "KeyboardInterrupt", "path": "/a", "k": 1})
    add(doc="unit2", phases=all_unit, workers=1, e=0, fault={"stage": "transport", "kind": "RuntimeError", "path": "/a", "k": 1})
    add(doc="unit2", workers=1, max_examples=2, e=0, fault={"stage": "check", "kind": "KeyboardInterrupt", "path": "/a", "k": 2})
    # ... in the stateful phase: first step / second step, transport / hook
    add(doc="link", phases=["stateful"], workers=1, max_examples=2, e=0, fault={"stage": "transport", "kind": "KeyboardInterrupt", "path": "/users", "k": 1})
    add(doc="link", phases=["stateful"], workers=1, max_examples=2, e=0, fault={"stage": "transport", "kind": "ConnectionError", "path": "/users/", "k": 1})
    add(doc="link", phases=["stateful"], workers=1, max_examples=2, e=0, fault={"stage": "before_call", "kind": "RuntimeError", "path": "/users/", "k": 1})


def check_item(item: dict, tier: str) -> Result:
    res = Result()
    cap = BOUNDS[tier]["max_exec_per_item"]
    last_stats = None
    seen_sequences = set()
    for run, fault_state, stats in ee.explore_item(item, max_executions=cap):
        last_stats = stats
        current_item = item if "replay_choices" in item else {**item, "replay_choices": run.choices}
        res.evaluations += 1
        res.traces += 1
        r = run.outcome
        env = next((p.labels[p.chosen] for p in run.trace if p.chosen and p.costs[p.chosen][1]), None)
        terminated = run.aborted is None and r is not None
        events = r.events if r is not None else []
        fault_ki = bool(fault_state and fault_state.fault and fault_state.fault["kind"] == "KeyboardInterrupt" and fault_state.fired)
        interrupted = env is not None or fault_ki
        env_at = next((re.sub(r"_\d+$", "", p.desc) for p in run.trace if p.chosen and p.costs[p.chosen][1]), None)
        if env == "stop" and r is not None and r.stop_after_event is not None:
            env_at = "after:" + type(events[r.stop_after_event]).__name__ if r.stop_after_event < len(events) else env_at
        base = {"env": env, "env_at": env_at}
        if env is None and item["fault"]:
            # without an environment deviation the injected fault is the only candidate cause
            base |= {"fault": item["fault"]["kind"], "fault_stage": item["fault"]["stage"]}
        detail = {"item": item, "schedule": ee.schedule_brief(run), "choices": run.choices, "events": ee.events_brief(events)}
        if run.leaked:
            res.violation({**base, "kind": "threads_left_running"}, detail | {"leaked": run.leaked}, current_item)
        if run.aborted:
            res.violation({**base, "kind": f"no_termination_{run.aborted}"}, detail, current_item)
        if r is not None and r.error is not None and not isinstance(r.error, KeyboardInterrupt):
            res.violation({**base, "kind": "event_stream_raised", "error": type(r.error).__name__}, detail | {"error": repr(r.error)[:300]}, current_item)
        elif r is not None and isinstance(r.error, KeyboardInterrupt):
            # Ctrl-C that escapes the generator: the finish event was never yielded
            res.violation({**base, "kind": "keyboard_interrupt_escaped_stream"}, detail, current_item)
        if r is not None:
            for kind, d in check_protocol(events, interrupted=interrupted, terminated=terminated):
                facts = {k: v for k, v in d.items() if k in ("phase", "phases", "status", "worst")}
                if kind in ("scenario_never_closed_without_interrupt", "phase_status_better_than_worst_scenario"):
                    facts |= {"workers_gt1": item["workers"] > 1, "max_failures": item["max_failures"] is not None}
                res.violation({**base, "kind": kind, **facts}, detail | d, current_item)
            for name, err in r.worker_errors:
                res.count("worker_thread_died")
            _round2_counters(item, events, fault_state, res)
        seq = tuple(ee.events_brief(events))
        if seq not in seen_sequences:
            seen_sequences.add(seq)
            if run.switches > 1 or env is not None:
                res.nontriv([item, seq])
        res.outcomes.add((len(events), env))
        if len(res.samples) < 2 and run.switches > 2:
            res.samples.append({"item": item, "schedule": ee.schedule_brief(run), "events": ee.events_brief(events)})
    if last_stats is not None:
        res.states += len(last_stats.states)
        res.transitions += last_stats.points
        if last_stats.capped:
            res.exhaustive = False
            res.count("items_capped")
        res.count("max_points_per_execution", 0)
        res.counters["max_points_per_execution"] = max(res.counters.get("max_points_per_execution", 0), last_stats.max_points)
    return res


def _round2_counters(item: dict, events: list, fault_state: Any, res: Result) -> None:
    """Coverage counters of the review-round-2 shapes (asserted in vacuity)."""
    open_scenarios = 0
    for e in events:
        n = type(e).__name__
        if n == "ScenarioStarted":
            open_scenarios += 1
        elif n == "ScenarioFinished":
            open_scenarios -= 1
            if item["doc"] == "unit2_opbroken_mid" and e.label == "GET /z" and getattr(e.status, "name", "") == "ERROR":
                res.count("r2_scenario_announced_by_engine_for_unusable_operation")
        elif n == "NonFatalError" and open_scenarios == 0 and item["workers"] == 1:
            res.count("r2_error_reported_outside_any_scenario")
        elif n == "PhaseFinished":
            reason = getattr(getattr(e.phase, "skip_reason", None), "name", None)
            if reason == "NOT_APPLICABLE":
                res.count("r2_enabled_phase_not_applicable")
            if reason == "FAILURE_LIMIT_REACHED" and e.phase.is_enabled and getattr(getattr(e.phase, "name", None), "name", "") == "STATEFUL_TESTING":
                res.count("r2_stateful_phase_skipped_by_failure_limit")
    fault = item.get("fault") or {}
    if fault_state is not None and fault_state.fired and fault.get("kind") == "KeyboardInterrupt" and fault.get("stage") in ("iterate", "construct"):
        res.count("r2_user_interrupt_outside_any_scenario")
    if fault_state is not None and fault_state.fired and fault.get("stage") in ("iterate", "construct", "generate", "before_call", "after_call"):
        res.count("r2_hook_fault_fired:" + fault["stage"])
    if item["doc"] in ("one_a", "one_b") and item["workers"] > len(DOC_OPERATIONS[item["doc"]]):
        res.count("r2_more_workers_than_operations")


DOC_OPERATIONS = {"one_a": ["GET /a"], "one_b": ["GET /b"]}
_R2_KEYS = ["r2_scenario_announced_by_engine_for_unusable_operation", "r2_error_reported_outside_any_scenario", "r2_enabled_phase_not_applicable",
            "r2_stateful_phase_skipped_by_failure_limit", "r2_user_interrupt_outside_any_scenario", "r2_more_workers_than_operations",
            *("r2_hook_fault_fired:" + s for s in ("iterate", "construct", "generate", "before_call", "after_call"))]


def vacuity(total: Result, tier: str) -> list[str]:
    out = [f"review-round-2 shape never exercised: {key}" for key in _R2_KEYS if not total.counters.get(key)]
    if len(total.nontrivial) < 10:
        out.append("fewer than 10 distinct interleaved event sequences")
    if not any(env for _, env in total.outcomes):
        out.append("no environment deviation (stop / Ctrl-C) was ever taken")
    return out
