"""C12 (vi) - rate limit under a virtual clock, all schedules of the workers (E3).

`pyrate_limiter.clocks.TimeClock.now` and the module global `pyrate_limiter.limiter.sleep` are replaced by a virtual clock
owned by the harness; `try_acquire` sleeps while holding the limiter's own RLock, so it is one atomic step (the virtual
sleep advances the clock without yielding).  Scheduling points: before `ratelimit()` and when the request is on the wire.
Oracle: every request was preceded by exactly one successful `try_acquire` of its own, on one limiter object shared by all
workers; admission times (virtual clock at `try_acquire` return) have <= limit entries in every window of (interval - 10%).
"""

from __future__ import annotations

import contextlib
from typing import Any, Iterator

from mc import engine, engine_sched, httpseam, sched
from mc.runner import Result
from props import engine_explore as ee

INTERVAL_MS = 1000
TOLERANCE_MS = 100
#: every unit the rate string accepts (`<n>/s|m|h|d`); the window of the oracle is the unit the user wrote, less 10 %
UNIT_MS = {"s": 1000, "m": 60_000, "h": 3_600_000, "d": 86_400_000}


class VirtualClock:
    def __init__(self) -> None:
        self.now_ms = 1_000_000
        self.admissions: list[tuple[int, int, str]] = []  # (time, id(limiter), thread)
        self.sleeps = 0


@contextlib.contextmanager
def virtual_time(clock: VirtualClock, sch: sched.Scheduler) -> Iterator[None]:
    import pyrate_limiter.clocks as clocks
    import pyrate_limiter.limiter as limiter_mod
    import schemathesis.transport.requests as tr
    import schemathesis.transport.wsgi as tw

    import threading

    saved_now = clocks.TimeClock.now
    saved_sleep = limiter_mod.sleep
    saved_try = limiter_mod.Limiter.try_acquire
    saved_rl_requests = tr.ratelimit
    saved_rl_wsgi = tw.ratelimit

    def now(self: Any) -> int:
        return clock.now_ms

    def sleep(seconds: float) -> None:
        clock.sleeps += 1
        clock.now_ms += int(round(seconds * 1000))

    def try_acquire(self: Any, name: str, weight: int = 1) -> Any:
        result = saved_try(self, name, weight)
        if result:
            clock.admissions.append((clock.now_ms, id(self), threading.current_thread().name))
        return result

    def make_ratelimit(original: Any) -> Any:
        def ratelimit(rate_limiter: Any, base_url: Any) -> Any:
            sch.point("ratelimit")
            return original(rate_limiter, base_url)

        return ratelimit

    clocks.TimeClock.now = now  # type: ignore[method-assign]
    limiter_mod.sleep = sleep
    limiter_mod.Limiter.try_acquire = try_acquire  # type: ignore[method-assign]
    tr.ratelimit = make_ratelimit(saved_rl_requests)
    tw.ratelimit = make_ratelimit(saved_rl_wsgi)
    try:
        yield
    finally:
        clocks.TimeClock.now = saved_now  # type: ignore[method-assign]
        limiter_mod.sleep = saved_sleep
        limiter_mod.Limiter.try_acquire = saved_try  # type: ignore[method-assign]
        tr.ratelimit = saved_rl_requests
        tw.ratelimit = saved_rl_wsgi


def _wsgi_app(log: list) -> Any:
    def app(environ: dict, start_response: Any) -> list:
        if environ["PATH_INFO"] == "/openapi.json":
            import json

            body = json.dumps(ee.DOC_UNIT2).encode()
        else:
            log.append((environ["REQUEST_METHOD"], environ["PATH_INFO"]))
            body = b"{}"
        start_response("200 OK", [("Content-Type", "application/json"), ("Content-Length", str(len(body)))])
        return [body]

    return app


def check_item(item: dict, tier: str) -> Result:
    res = Result()
    limit = item["limit"]
    stats = sched.ExploreStats()
    clocks: list[VirtualClock] = []
    transport = item.get("transport", "requests")
    unit = item.get("unit", "s")
    interval_ms = UNIT_MS[unit]

    def body(sch: sched.Scheduler) -> Any:
        from schemathesis.engine import from_schema

        clock = VirtualClock()
        clocks.append(clock)
        wsgi_log: list = []
        run = engine_sched.ScheduledRun()

        def on_send(exchange: httpseam.Exchange) -> None:
            sch.point("send")
            exchange.time = clock.now_ms

        with virtual_time(clock, sch), engine_sched.patched(sch), httpseam.installed(httpseam.ok_handler, on_send) as log:
            if transport == "wsgi":
                # The engine drives `requests` only; WSGI apps are used through `case.call()` (pytest style), so the
                # transport is driven directly: N logical threads x k calls each, one schema (= one limiter) shared.
                import schemathesis

                schema = schemathesis.openapi.from_wsgi("/openapi.json", _wsgi_app(wsgi_log)).configure(rate_limit=f"{limit}/{unit}")
                operation = schema["/b"]["GET"]

                def worker() -> None:
                    for _ in range(item["max_examples"]):
                        operation.Case().call()

                threads = [sch.spawn(f"caller_{i}", worker) for i in range(item["workers"])]
                for t in threads:
                    sch.point(f"join:{t.name}", enabled=lambda t=t: t.finished)
                for t in threads:
                    err = getattr(t, "error", None)
                    if err is not None:
                        run.error = err
                run.exchanges = list(wsgi_log)
                return run
            schema = engine.load_schema(ee.DOC_UNIT2, rate_limit=f"{limit}/{unit}")
            config = engine.make_config(phases=["fuzzing"], workers=item["workers"], max_examples=item["max_examples"])
            try:
                for event in from_schema(schema, config=config).execute():
                    run.events.append(event)
            except sched.SchedAbort:
                raise
            except BaseException as exc:  # noqa: BLE001
                run.error = exc
            run.exchanges = list(log.exchanges) if transport != "wsgi" else list(wsgi_log)
        return run

    if "replay_choices" in item:
        runs = iter([sched.run_schedule(body, list(item["replay_choices"]))])
    else:
        runs = sched.explore(body, preemptions=item["p"], env=0, max_executions=item.get("cap", 6000), stats=stats,
                             shard=tuple(item["shard"]) if item.get("shard") else None)
    for run in runs:
        res.evaluations += 1
        r = run.outcome
        clock = clocks[-1]
        if r is None or run.aborted:
            res.count("aborted_executions")
            continue
        res.traces += 1
        current_item = item if "replay_choices" in item else {**item, "replay_choices": run.choices}
        base = {"kind_item": "rate", "transport": transport, "workers_gt1": item["workers"] > 1}
        if unit != "s":
            base["unit"] = unit
        detail = {"item": item, "schedule": ee.schedule_brief(run), "admissions": clock.admissions[:20], "sleeps": clock.sleeps,
                  "requests": len(r.exchanges)}
        if r.error is not None:
            res.violation({**base, "kind": "run_raised", "error": type(r.error).__name__}, detail | {"error": repr(r.error)[:200]}, current_item)
            continue
        n_requests = len(r.exchanges)
        if len(clock.admissions) != n_requests:
            res.violation({**base, "kind": "requests_and_limiter_admissions_differ"}, detail, current_item)
        if len({lim for _, lim, _ in clock.admissions}) > 1:
            res.violation({**base, "kind": "more_than_one_limiter"}, detail, current_item)
        times = sorted(t for t, _, _ in clock.admissions)
        for i, t in enumerate(times):
            window = [u for u in times if t - (interval_ms - interval_ms // 10) < u <= t]
            if len(window) > limit:
                res.violation({**base, "kind": "rate_limit_exceeded"}, detail | {"window_end": t, "in_window": len(window), "limit": limit}, current_item)
                break
        if clock.sleeps:
            res.nontriv([item, times, run.choices])
        res.outcomes.add((clock.sleeps, n_requests))
        if len(res.samples) < 1:
            res.samples.append({"item": item, "admission_times_ms": [t - 1_000_000 for t in times], "virtual_sleeps": clock.sleeps})
    res.states += len(stats.states)
    res.transitions += stats.points
    if stats.capped:
        res.exhaustive = False
    return res


def items(tier: str) -> list[dict]:
    out: list[dict] = []
    base = _items(tier)
    for it in base:
        out.extend(ee.sharded(it, 4 if it["workers"] > 1 and it["transport"] == "requests" else 1))
    return out


def _items(tier: str) -> list[dict]:
    out = []
    for workers in ((1, 2) if tier == "quick" else (1, 2, 3)):
        out.append({"kind": "rate", "limit": 2, "workers": workers, "max_examples": 3, "p": 1 if tier == "quick" else 2, "transport": "requests"})
    out.append({"kind": "rate", "limit": 2, "workers": 2, "max_examples": 3, "p": 1, "transport": "wsgi"})
    out.append({"kind": "rate", "limit": 1, "workers": 2, "max_examples": 2, "p": 1, "transport": "requests"})
    # the other units of the rate string (one worker: the unit is what is judged, the interleavings are covered above)
    for unit in ("m", "h", "d"):
        out.append({"kind": "rate", "limit": 2, "workers": 1, "max_examples": 3, "p": 0, "transport": "requests", "unit": unit})
    out.append({"kind": "rate", "limit": 2, "workers": 2, "max_examples": 2, "p": 0, "transport": "wsgi", "unit": "h"})
    return out
