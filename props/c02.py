"""C02 - negative-mode data really violates the schema and is labelled so.

Review round 2 (enumerators in mc/c02_extra.py): entry points / where the modes are configured, real engine runs (skip decision as
the user sees it), three locations and both writing orders, accept-all schemas beyond ``{}``, ``required`` left out, two media types.

E2 enumerates small one-operation documents (one input, or an un-negatable input next to a negatable one); E1 enumerates
every choice path (deviation-bounded) of the real ``operation.as_strategy(generation_mode=NEGATIVE)``; every produced
Case is judged by the independent evaluator (labels vs. content).  Operation-level claims (negatable => gets a case,
un-negatable => skipped) are decided only on trees that were exhausted with the minimal alphabet.
"""

from __future__ import annotations

import copy
from urllib.parse import unquote, unquote_plus
from typing import Any

from mc import c02_extra as round2
from mc import smallscope as ss
from mc.choicetree import Alphabet, Stats, explore
from mc.runner import Result, digest
from oracles.jsonschema_mini import verdict
from props import common

ID = "C02"
LEVEL = "model_checking"
RULE = (
    "work item = one-operation OpenAPI document (1-2 inputs: schema from a small keyword grammar x location x required x spec, "
    "plus the un-negatable shapes and un-negatable+negatable mixes) x generation modes; for each, every choice path of the real "
    "negative strategy with <=d non-default PRNG/mutation answers over a bounded alphabet is executed (main pass); when the main "
    "pass yields no case, the whole tree over the minimal alphabet is executed (liveness pass); a case is non-trivial when a "
    "component labelled negative is present and was judged (violates/conforms) by the evaluator; distinct = distinct "
    "(document, modes, generated case) triples; review round 2 adds (mc/c02_extra.py): the same operations through the other entry "
    "points (configuration stored on the schema only / passed per call only, schema.as_strategy, schema[path].as_strategy), one "
    "deterministic run of the real engine per document x modes (skipped / error / tested, recorded cases judged), inputs in two "
    "and three locations in both writing orders, accept-all schemas other than {} (neutral keywords, annotations only, "
    "combinators with an accept-all branch), enumerations with null, `required` left out, two media types"
)
BOUNDS = {
    "quick": {"d": 2, "max_exec_per_tree": 2500, "d_mixed_mode_recheck": 1, "liveness_max_exec": 2600, "chars": ["a", "0"],
              "review2_d": 1, "engine_runs": {"phases": ["fuzzing"], "max_examples": 3, "derandomize": True, "workers": 1}},
    "thorough": {"d": 3, "max_exec_per_tree": 12000, "d_mixed_mode_recheck": 2, "liveness_max_exec": 120000,
                 "chars": ["a", "b", "0", "1", "\x00", "é", " "], "k2_grammar_d": 2, "review2_d": 2,
                 "engine_runs": {"phases": ["fuzzing"], "max_examples": 3, "derandomize": True, "workers": 1}},
}
# Measured (quick, unchanged tree): 281 documents, 100 841 executions, ~600 k tree nodes, all d<=2 trees completed (largest 1 222
# executions), 41 liveness trees exhausted (largest 2 048); ~5-7 ms CPU per execution => ~700 CPU-seconds.
# Review round 2 (quick, unchanged tree): 426 documents (+121: 24 entry-point, 21 engine, 20 multi-input, 42 accept-all/enum/const,
# 14 writing-variant), 104 429 executions (+5 %), 24 engine runs (0.1-0.3 s each, ~3 s for the four that end in Unsatisfiable);
# the added items cost ~30 CPU-seconds together.
BUDGET_S = {"quick": 150, "thorough": 3000}
CHUNK = 1
ENGINES = ["E2", "E1"]
TECHNIQUE = (
    "exhaustive choice-tree enumeration (deviation-bounded stateless DFS over every PRNG / mutation answer of the real negative "
    "strategy; full tree over a minimal alphabet for liveness) over an exhaustively enumerated small-document grammar, judged by an "
    "independent schema evaluator"
)
LEVEL_TEXT = (
    "Every negative case the real strategy can produce for each small document, over the stated draw alphabet and up to d "
    "non-default answers (mutation order, always-applied mutation, feature flags, type candidates, data draws), is executed and "
    "its labels are compared with the evaluator's verdict on its content; 'gets a case' / 'is skipped' are decided only where the "
    "minimal-alphabet tree was exhausted."
)
LEVEL_NOTE = (
    "Trusted: oracles/jsonschema_mini.py (own evaluator, three-valued) and the Hypothesis PrimitiveProvider seam. Not covered: draws "
    "outside the alphabets / beyond d deviations, schemas outside the grammar, serialisation styles (C06), security parameters."
)
ASSUMPTIONS = [
    "draws outside the stated candidate alphabets and beyond d deviations are not explored; liveness is decided over the minimal alphabet only",
    "a non-body location is judged as the object of its parameters: it violates iff a declared value violates its schema under string "
    "coercion, a required parameter is missing, or an undeclared name is present; it conforms iff none of these and every value conforms",
    "wire model of the query: a list value is sent as repeated name=item pairs (a one-item list is that item, an empty list is an "
    "omitted parameter; measured on requests' PreparedRequest), longer lists and dict values are left undecided for non-array schemas",
    "evaluator verdict None (1.0 vs integer, formats, unsupported keywords) is never reported",
    "engine items: one derandomised run of the fuzzing phase (max_examples=3, one worker, in-process HTTP answering 200) per document "
    "and modes is ONE deterministic execution, not a search: 'skipped' / 'error' are read from ScenarioFinished.status and "
    "NonFatalError, 'gets negative cases' from the cases in its recorder; only documents with a trivially satisfiable negation are used "
    "for the 'gets cases' direction",
    "a body declared with several media types is judged against the schema of case.media_type (undecided when that is not one of them)",
    "'can be violated' is decided by brute force over mc.smallscope.candidate_values(); operations that are neither clearly negatable "
    "(some value violates) nor clearly un-negatable (everything conforms and nothing can be omitted) get no liveness verdict",
]

N, PN = "N", "PN"


# -- E2: documents -----------------------------------------------------------------------------------------------------

def _scalar_schemas(spec: str, tier: str) -> list[tuple[str, dict]]:
    excl = {"exclusiveMaximum": 1} if spec == "3.1" else {"maximum": 1, "exclusiveMaximum": True}
    out: list[tuple[str, dict]] = [
        ("numeric", {"type": "integer"}),
        ("numeric", {"type": "integer", "minimum": 1}),
        ("numeric", {"type": "integer", "maximum": 0}),
        ("numeric", {"type": "integer", "minimum": 0, "maximum": 1}),
        ("numeric", {"type": "integer", "multipleOf": 2}),
        ("numeric", {"type": "number"}),
        ("numeric", {"type": "number", **excl}),
        ("string", {"type": "string", "minLength": 1}),
        ("string", {"type": "string", "minLength": 2}),
        ("string", {"type": "string", "maxLength": 1}),
        ("string", {"type": "string", "pattern": "^a+$"}),
        ("string", {"type": "string", "format": "date"}),
    ]
    out += [("misc", s) for s in ss.misc_schemas(spec)]
    return out


def _extra_scalar_schemas(spec: str) -> list[tuple[str, dict]]:
    """Thorough tier: the K<=2 keyword grammar of C01 (run with the quick deviation bound, query and body only)."""
    seen = {digest(s) for _, s in _scalar_schemas(spec, "thorough")}
    out = []
    for fam, gen in (("string", ss.string_schemas(2)), ("numeric", ss.numeric_schemas(2, spec))):
        for s in gen:
            if digest(s) not in seen:
                seen.add(digest(s))
                out.append((fam, s))
    return out


def _array_schemas(tier: str) -> list[tuple[str, dict]]:
    return [
        ("array", {"type": "array", "items": {"type": "integer"}}),
        ("array", {"type": "array", "items": {"type": "string"}}),
        ("array", {"type": "array", "items": {"type": "integer"}, "minItems": 1}),
        ("array", {"type": "array", "items": {"type": "integer"}, "maxItems": 1}),
        ("array", {"type": "array", "items": {"type": "integer", "minimum": 1, "maximum": 2}, "uniqueItems": True}),
    ]


# schemas that accept every value: the un-negatable shapes named by the property
UNNEGATABLE_BODY = [{}, {"additionalProperties": True}, {"additionalProperties": {}}]


def _param(loc: str, schema: dict, required: bool, name: str | None = None) -> dict:
    if name is None:
        name = "X-P" if loc == "header" else "p"
    return {"name": name, "in": loc, "required": True if loc == "path" else required, "schema": schema}


def _item(spec: str, params: list[dict], body: dict | None, family: str, tier: str, *, modes: list[str] | None = None,
          ref: int = 0, shape: str = "single") -> dict:
    return {"spec": spec, "params": params, "body": body, "family": family, "modes": modes or [N, PN], "ref": ref,
            "shape": shape, "d": BOUNDS[tier]["d"]}


def items(tier: str, seed: int) -> list[dict]:
    quick = tier == "quick"
    out: list[dict] = []
    int_min = {"type": "integer", "minimum": 1}
    # schemas that also get an optional (required: false) variant in the quick tier
    optional_too = {digest(s) for s in ({"type": "integer"}, int_min, {"type": "string", "maxLength": 1},
                                        {"type": "array", "items": {"type": "integer"}})}
    for spec in ("3.0", "2.0", "3.1"):
        full = spec == "3.0" or not quick
        both = [N, PN] if full else [N]
        scalars = _scalar_schemas(spec, tier)
        if not full:
            # other spec versions: one schema per family and the version-specific keywords
            keep = {digest(s) for s in (int_min, {"type": "string", "maxLength": 1}, {"type": "boolean"})}
            scalars = [(f, s) for f, s in scalars if digest(s) in keep or "exclusiveMaximum" in s or "nullable" in s or "x-nullable" in s
                       or isinstance(s.get("type"), list)]
        arrays = _array_schemas(tier)
        combos = [("combinator", s) for s in ss.combinator_schemas()]
        if spec == "2.0":
            combos = [(f, s) for f, s in combos if not ({"anyOf", "oneOf", "not"} & set(s))]
        for loc in ("query", "path", "header", "cookie"):
            if spec == "2.0" and loc == "cookie":
                continue
            loc_arrays = arrays if not quick else (arrays[:2] + (arrays[4:] if loc == "query" else []) if full else arrays[:1])
            loc_combos = combos if not quick else ([c for n, c in enumerate(combos) if n in (0, 3, 4, 6)] if full else combos[:1])
            for fam, schema in scalars + loc_arrays + ([] if spec == "2.0" else loc_combos):
                if spec == "2.0" and schema.get("type") in (None, "object"):
                    continue
                if loc == "cookie" and fam == "array":
                    continue
                reqs = [True]
                if loc == "query" and (not quick or (full and digest(schema) in optional_too)):
                    reqs = [True, False]
                if loc == "header" and (schema == {"type": "integer"} or not quick):
                    reqs = [True, False]
                # path parameters that accept everything end in a ~2000-execution liveness tree per mode (see KF-C02-1/2); the
                # mixed-modes run gives no liveness verdict for them, so the quick tier runs them in negative-only mode
                modes = [N] if quick and loc == "path" and fam in ("string", "misc") else both
                for required in reqs:
                    out.append(_item(spec, [_param(loc, schema, required)], None, fam, tier, modes=modes))
            # un-negatable parameter shapes
            for required in (True, False):
                if loc == "path" and (not required or (quick and spec == "2.0")):
                    continue
                if not full and not required and loc != "header":
                    continue
                out.append(_item(spec, [_param(loc, {"type": "string"}, required)], None, "unnegatable", tier, shape="plain_string",
                                 modes=[N] if quick and loc == "path" else both))
                if spec != "2.0":
                    out.append(_item(spec, [_param(loc, {}, required)], None, "unnegatable", tier, shape="empty_schema", modes=both))
        # bodies
        objects = [("object", s) for s in ss.object_schemas()]
        if quick:
            objects = [o for n, o in enumerate(objects) if n in (1, 3, 5, 6, 8, 9, 10, 11)] if full else objects[1:2]
        bodies = scalars + (arrays if full else arrays[:1]) + objects + (combos if full else combos[:1]) + [("string", {"type": "string"})]
        for n, (fam, schema) in enumerate(bodies):
            reqs = [True, False] if (full and (n % 5 == 0 or not quick)) else [True]
            for required in reqs:
                out.append(_item(spec, [], {"required": required, "schema": schema}, fam, tier, modes=both))
        for schema in UNNEGATABLE_BODY:
            for required in (True, False):
                if not full and schema:
                    continue
                out.append(_item(spec, [], {"required": required, "schema": schema}, "unnegatable", tier, shape="accept_all_body", modes=both))
        # no input at all
        out.append(_item(spec, [], None, "unnegatable", tier, shape="no_inputs", modes=both))
        if not quick:
            for fam, schema in _extra_scalar_schemas(spec):
                for params, body in (([_param("query", schema, True)], None), ([], {"required": True, "schema": schema})):
                    extra = _item(spec, params, body, fam, tier, modes=[N], shape="k2_grammar")
                    extra["d"] = BOUNDS["quick"]["d"]
                    out.append(extra)
        # $ref variants
        for depth in (1, 2):
            out.append(_item(spec, [], {"required": True, "schema": int_min}, "numeric", tier, ref=depth, modes=[N]))
            if spec != "2.0":
                out.append(_item(spec, [_param("query", int_min, True)], None, "numeric", tier, ref=depth, modes=[N]))
        # an un-negatable input next to a negatable one; the two modes differ only in reject vs SkipTest, so both are run on some
        mixes: list[tuple[list[dict], dict | None, list[str]]] = [
            ([_param("path", {"type": "string"}, True), _param("query", int_min, True, "q")], None, both),
            ([_param("header", {"type": "string"}, True), _param("query", int_min, True, "q")], None, both),
            ([_param("path", {"type": "string"}, True)], {"required": True, "schema": int_min}, [N]),
            ([_param("path", {"type": "string", "minLength": 1}, True), _param("query", int_min, True, "q")], None, [N]),
            ([_param("cookie", {"type": "string"}, True), _param("query", int_min, True, "q")], None, [N]),
            ([_param("header", {"type": "string"}, True)], {"required": True, "schema": int_min}, [N]),
            ([_param("query", {"type": "string"}, False, "q")], {"required": True, "schema": int_min}, [N]),
            ([_param("path", {"type": "integer"}, True), _param("query", {"type": "string"}, False, "q")], None, [N]),
            ([_param("path", {"type": "string"}, True), _param("path", {"type": "integer"}, True, "r")], None, [N]),
            ([_param("query", int_min, True, "q")], {"required": False, "schema": {}}, [N]),
            ([_param("header", {"type": "string"}, False), _param("header", {"type": "integer"}, True, "X-Q")], None, [N]),
            ([_param("path", {}, True), _param("query", int_min, True, "q")], None, [N]),
            ([_param("path", {"type": "string"}, True), _param("cookie", int_min, True, "c")], None, [N]),
        ]
        if spec == "2.0":
            mixes = [m for m in mixes if not any(p["in"] == "cookie" or p["schema"] == {} for p in m[0])]
        if quick:
            mixes = mixes[:-1] if full else (mixes[:2] if spec == "2.0" else [mixes[1], mixes[4]])
        for params, body, modes in mixes:
            out.append(_item(spec, params, body, "mixed", tier, shape="mixed", modes=modes if quick else [N, PN]))
    # review round 2: other entry points, engine runs, three locations / writing orders, accept-all shapes, writing variants
    for e in round2.all_items(tier):
        more = {k: v for k, v in e.items() if k not in ("spec", "params", "body", "family", "shape", "modes", "d")}
        out.append({"spec": e["spec"], "params": e["params"], "body": e["body"], "family": e["family"], "modes": e["modes"],
                    "ref": 0, "shape": e["shape"], "d": e["d"], **more})
    return out


def build(item: dict) -> tuple[dict, dict]:
    """Returns (document, expectation)."""
    spec = item["spec"]
    params = copy.deepcopy(item["params"])
    body = copy.deepcopy(item["body"])
    components: dict = {}
    if item["ref"]:
        target = body if body is not None else params[0]
        used, components = list(ss.ref_variants(target["schema"], spec))[item["ref"]]
        target["schema"] = used
    path = "/t" + "".join("/{%s}" % p["name"] for p in params if p["in"] == "path")
    method = "post" if body is not None else "get"
    doc_body = None
    if body is not None:
        content = body["content"] if "content" in body else [["application/json", body["schema"]]]
        doc_body = {"required": body["required"], "content": {mt: {"schema": copy.deepcopy(sch)} for mt, sch in content}}
    doc_params = copy.deepcopy(params)
    if item.get("omit_required"):
        # `required: false` left out instead of written (the default of the keyword)
        for p in doc_params:
            if p["required"] is False:
                del p["required"]
        if doc_body is not None and doc_body["required"] is False:
            del doc_body["required"]
    doc = ss.make_document(spec, path=path, method=method, parameters=doc_params, body=doc_body,
                           components=copy.deepcopy(components))
    if item.get("omit_required") and spec == "2.0":
        for p in doc["paths"][path][method]["parameters"]:
            if p["in"] == "body" and p.get("required") is False:
                del p["required"]
    return doc, {"params": params, "body": body, "path": path, "method": method}


def body_schemas(body: dict) -> list[tuple[str, Any]]:
    """(media type, schema) pairs of a declared body, in writing order."""
    if "content" in body:
        return [(mt, sch) for mt, sch in body["content"]]
    return [("application/json", body["schema"])]


def body_schema_for(body: dict, media_type: Any) -> tuple[bool, Any]:
    """(known, schema) of the body for the media type a case was generated for."""
    pairs = body_schemas(body)
    if len(pairs) == 1:
        return True, pairs[0][1]
    for mt, sch in pairs:
        if isinstance(media_type, str) and mt.lower() == media_type.lower():
            return True, sch
    return False, None


# -- oracle ------------------------------------------------------------------------------------------------------------

COMPONENT_LOCATION = {"query": "query", "path_parameters": "path", "headers": "header", "cookies": "cookie", "body": "body"}


def _lookup(container: dict, name: str, loc: str) -> tuple[bool, Any]:
    if name in container:
        return True, container[name]
    if loc == "header":
        for k in container:
            if isinstance(k, str) and k.lower() == name.lower():
                return True, container[k]
    return False, None


def _combine(reasons: list[tuple[str, bool | None]]) -> bool | None:
    """Object-of-parameters verdict: False if any part violates, True if all conform, else None."""
    if any(v is False for _, v in reasons):
        return False
    if all(v is True for _, v in reasons):
        return True
    return None


ABSENT = "absent"


def wire_value_verdict(doc: dict, schema: Any, value: Any, loc: str, spec: str) -> Any:
    """Verdict on what the server can read from the wire: True / False / None, or ABSENT when nothing is sent.

    Query values that are lists are sent as repeated ``name=item`` pairs (measured with requests' PreparedRequest:
    ``[0]`` -> ``p=0``, ``[]`` -> nothing): for a schema that does not describe an array, a one-item list is that item, an
    empty list is an omitted parameter, a longer list is left undecided.  Dict values in the query are left undecided.
    """
    if loc == "path" and isinstance(value, str) and ("%" in value or "+" in value):
        # Case.path_parameters holds URL text (the strategy percent-encodes every generated value): the server reads the
        # decoded segment.  A negative label is justified as soon as one decoding violates; "conforms" needs both to conform.
        vs = [common.param_verdict(doc, schema, d, loc, spec, decode_path=False) for d in dict.fromkeys([unquote(value), unquote_plus(value)])]
        if any(v is False for v in vs):
            return False
        return True if all(v is True for v in vs) else None
    as_is = common.param_verdict(doc, schema, value, loc, spec)
    if loc == "query" and isinstance(value, (list, tuple)) and not common._allows_array(doc, schema, spec):
        if len(value) > 0 and all(isinstance(v, (list, tuple, dict)) for v in value):
            # items that are containers themselves (measured with requests' PreparedRequest: every item of a list goes through
            # urlencode(doseq=True), so `[[]]`, `[{}]`, `[[], []]` send nothing, `[[0]]` sends `p=0`, `[{"a": 1}]` sends `p=a`)
            flat = [x for v in value for x in v]
            if len(flat) == 0:
                return ABSENT
            if len(flat) == 1 and not isinstance(flat[0], (list, tuple, dict)) and flat[0] is not None:
                return wire_value_verdict(doc, schema, [flat[0]], loc, spec) if as_is is not True else True
            return True if as_is is True else None
        if len(value) == 0:
            return ABSENT
        if len(value) == 1:
            inner = wire_value_verdict(doc, schema, value[0], loc, spec)
            if as_is is True or inner is True:
                return True
            if as_is is False and inner is False:
                return False
            return None
        return True if as_is is True else None
    if loc == "query" and isinstance(value, dict):
        return True if as_is is True else None
    return as_is


def location_verdicts(doc: dict, expect: dict, loc: str, container: dict, spec: str) -> dict:
    """Raw (Python value vs schema) and wire (after string coercion) verdicts of one non-body location."""
    declared = [p for p in expect["params"] if p["in"] == loc]
    raw: list[tuple[str, bool | None]] = []
    wire: list[tuple[str, bool | None]] = []
    via: set[str] = set()
    names = set()
    for p in declared:
        present, value = _lookup(container, p["name"], loc)
        names.add(p["name"].lower() if loc == "header" else p["name"])
        if not present:
            if p["required"]:
                raw.append(("missing_required", False))
                wire.append(("missing_required", False))
            continue
        r = verdict(doc, p["schema"], value, spec=spec)
        raw.append(("value", r))
        w = wire_value_verdict(doc, p["schema"], value, loc, spec)
        if w == ABSENT:
            if p["required"]:
                wire.append(("missing_required", False))
            continue
        wire.append(("value", w))
        if w is True:
            via.add(_why_conforms(r, value))
    for k in container:
        key = k.lower() if (loc == "header" and isinstance(k, str)) else k
        if key not in names:
            raw.append(("undeclared_name", False))
            wire.append(("undeclared_name", False))
    return {
        "raw": _combine(raw), "wire": _combine(wire),
        "violating_parts": sorted({r for r, v in wire if v is False}),
        "raw_violating_parts": sorted({r for r, v in raw if v is False}),
        "via": sorted(via - {"conforms_as_generated"}) or sorted(via),
    }


SERIALISATION_REASONS = {"string_read_as_typed_value", "non_string_sent_as_string", "one_item_list", "jsonified_literal"}


def _why_conforms(raw: bool | None, value: Any) -> str:
    """Why a value that is sent conforms on the wire (facts for the violation signature)."""
    if raw is None:
        return "raw_undecided"
    if raw is False:
        # the Python value violates the schema, what the server reads from the wire does not
        if isinstance(value, (list, tuple)):
            return "one_item_list"
        if isinstance(value, str):
            return "string_read_as_typed_value"  # e.g. "0" for an integer
        return "non_string_sent_as_string"  # e.g. 0.0 for a (nullable) string
    if isinstance(value, str) and value in ("true", "false", "null"):
        return "jsonified_literal"  # True/False/None rewritten after the implementation's own validity filter
    return "conforms_as_generated"


NEUTRAL_VALUES: dict[str, list] = {"minItems": [0], "minProperties": [0], "minLength": [0], "uniqueItems": [False], "required": [[]],
                                   "properties": [{}], "items": [{}], "additionalProperties": [True, {}], "nullable": [True],
                                   "x-nullable": [True]}
ANNOTATION_KEYWORDS = {"description", "title", "default", "example", "examples", "deprecated", "externalDocs"}


def classify_operation(doc: dict, expect: dict, spec: str) -> tuple[str, dict]:
    """'must_produce' (some input has a violating value), 'must_skip' (every input accepts everything and nothing can be
    omitted) or 'undecided'.  Brute force over the evaluator's candidate values; no schemathesis code involved."""
    negatable: list[str] = []
    unnegatable: list[str] = []
    open_: list[str] = []
    omittable = False

    def shape(schema: Any) -> str:
        if schema == {}:
            return "empty"
        if isinstance(schema, dict) and set(schema) == {"type"} and isinstance(schema["type"], str):
            return schema["type"]
        if isinstance(schema, dict) and schema.get("type") == "string" and set(schema) == {"type", "minLength"}:
            return "string_minLength%s" % schema["minLength"]
        if isinstance(schema, dict) and set(schema) == {"additionalProperties"}:
            return "additionalProperties_only"
        if isinstance(schema, dict) and set(schema) == {"const"}:
            return "const_only"
        if isinstance(schema, dict) and schema and set(schema) <= ANNOTATION_KEYWORDS:
            return "annotations_only"  # no validation keyword at all
        if isinstance(schema, dict) and schema and all(k in NEUTRAL_VALUES and any(v == n and type(v) is type(n) for n in NEUTRAL_VALUES[k])
                                                       for k, v in schema.items()):
            return "neutral_keywords_only"  # validation keywords, each written with the value that allows everything
        return "other"

    for p in expect["params"]:
        loc = p["in"]
        verdicts = []
        for cand in ss.candidate_values():
            if isinstance(cand, dict):
                continue
            if isinstance(cand, list) and not common._allows_array(doc, p["schema"], spec):
                continue  # serialised into a string / repeated pairs: not a value of its own on the wire
            if loc == "path" and (cand is None or cand == "" or cand == []):
                continue
            verdicts.append(common.param_verdict(doc, p["schema"], cand, loc, spec))
        label = f"{loc}:{shape(p['schema'])}"
        if any(v is False for v in verdicts):
            negatable.append(label)
        elif all(v is True for v in verdicts):
            unnegatable.append(label)
        else:
            open_.append(label)
        if p["required"] and loc != "path":
            omittable = True
    if expect["body"] is not None:
        # several media types: negatable when the schema of one of them is, un-negatable when all of them accept everything
        per_media = [[verdict(doc, sch, cand, spec=spec) for cand in ss.candidate_values()] for _, sch in body_schemas(expect["body"])]
        label = "body:" + "|".join(shape(sch) for _, sch in body_schemas(expect["body"]))
        if any(v is False for verdicts in per_media for v in verdicts):
            negatable.append(label)
        elif all(v is True for verdicts in per_media for v in verdicts):
            unnegatable.append(label)
        else:
            open_.append(label)
        if expect["body"]["required"]:
            omittable = True
    facts = {"negatable_inputs": sorted(negatable), "unnegatable_inputs": sorted(unnegatable), "open_inputs": sorted(open_),
             "required_input_can_be_omitted": omittable}
    if negatable:
        return "must_produce", facts
    if not open_ and not omittable:
        return "must_skip", facts
    return "undecided", facts


class _Item:
    """Per work item: de-duplicates violations by signature (one defect shows up on hundreds of paths)."""

    def __init__(self, res: Result) -> None:
        self.res = res
        self.seen: set[str] = set()

    def violation(self, signature: dict, detail: dict) -> None:
        key = digest(signature)
        self.res.count("alarms_before_dedup")
        if key in self.seen:
            return
        self.seen.add(key)
        self.res.violation(signature, detail)


SKIPPED = "<<skipped>>"


def _make_body(strategy: Any) -> Any:
    from schemathesis.core.control import SkipTest

    def body(draw: Any) -> Any:
        try:
            return draw(strategy)
        except SkipTest:  # BaseException: would otherwise escape the explorer
            return SKIPPED

    return body


def check_item(item: dict, tier: str) -> Result:
    from schemathesis.generation import GenerationConfig, GenerationMode

    if item.get("entry") == "engine":
        return check_engine_item(item, tier)
    res = Result()
    acc = _Item(res)
    b = BOUNDS[tier]
    entry = item.get("entry", "call+stored")
    res.count(f"entry_{entry}")
    doc, expect = build(item)
    spec = item["spec"]
    op_class, facts = classify_operation(doc, expect, spec)
    res.count(f"operations_{op_class}", len(item["modes"]))
    base = {"family": item["family"], "shape": item["shape"]}
    produced_in_negative_only = False
    for mode_key in item["modes"]:
        modes = [GenerationMode.NEGATIVE] if mode_key == N else [GenerationMode.POSITIVE, GenerationMode.NEGATIVE]
        common.reset_schemathesis_caches()
        ctx = {"item": item, "doc": doc, "expect": expect, "spec": spec, "modes": mode_key, "base": base}
        try:
            config = GenerationConfig(modes=modes)
            schema = common.load(doc)
            if entry in ("call+stored", "stored"):
                schema = schema.configure(generation=config)
            # "stored": the modes are known from the schema only; the other entries pass them with the call
            per_call = {} if entry == "stored" else {"generation_config": config}
            if entry == "schema":
                strategy = schema.as_strategy(generation_mode=GenerationMode.NEGATIVE, **per_call)
            elif entry == "map":
                strategy = schema[expect["path"]].as_strategy(generation_mode=GenerationMode.NEGATIVE, **per_call)
            else:
                operation = schema[expect["path"]][expect["method"].upper()]
                strategy = operation.as_strategy(generation_mode=GenerationMode.NEGATIVE, **per_call)
        except Exception as exc:  # noqa: BLE001
            res.evaluations += 1
            res.outcomes.add("construction_error")
            acc.violation({**base, "kind": "strategy_construction_failed", "error": type(exc).__name__, "modes": mode_key},
                          {"inputs": _inputs(expect), "error": repr(exc)[:300]})
            continue
        body = _make_body(strategy)
        tally = {"valid": 0, "skipped": 0, "rejected": 0, "overrun": 0, "error": 0}
        errors: list[BaseException] = []

        def run(alphabet: Alphabet, d: int | None, cap: int, which: str) -> Stats:
            stats = Stats()
            for ex in explore(body, alphabet, d, max_executions=cap, stats=stats):
                res.evaluations += 1
                status = ex.status
                if status == "valid" and isinstance(ex.value, str) and ex.value == SKIPPED:
                    status = "skipped"
                tally[status] += 1
                res.outcomes.add(status)
                if status == "valid":
                    res.traces += 1
                    judge(res, acc, ctx, ex.value, ex.choices, which)
                elif status == "error":
                    errors.append(ex.error)
            res.states += stats.nodes
            res.transitions += stats.edges
            return stats

        # main pass: safety on every path with <= d deviations.  The mixed-modes strategy differs from the negative-only one
        # only in how "nothing was negated" is reported (reject vs SkipTest), so an operation that produced cases in
        # negative-only mode is merely re-checked there with a smaller d and gets no second liveness verdict.
        recheck = mode_key == PN and produced_in_negative_only
        d = b["d_mixed_mode_recheck"] if recheck else item["d"]
        main = run(Alphabet(chars=list(b["chars"])), d, b["max_exec_per_tree"], "main")
        if main.capped:
            res.exhaustive = False
            res.count("main_trees_capped")
        res.count("main_trees")
        if mode_key == N and tally["valid"]:
            produced_in_negative_only = True
        if recheck:
            res.count("mixed_mode_rechecks")
            if errors:
                acc.violation({"kind": "generation_error", "error": type(errors[0]).__name__, "error_text": str(errors[0])[:80], "modes": mode_key},
                              {"inputs": _inputs(expect), "spec": spec, "error": repr(errors[0])[:300]})
            continue
        # liveness pass: only needed when no case was seen; whole tree, minimal alphabet
        live: Stats | None = None
        if tally["valid"] == 0 and op_class != "undecided":
            live = run(Alphabet(minimal=True), None, b["liveness_max_exec"], "liveness")
            res.count("liveness_trees")
            res.count("liveness_trees_exhausted" if live.exhausted else "liveness_trees_not_exhausted")
        outcome = "case" if tally["valid"] else ("skipped" if tally["skipped"] else ("error" if tally["error"] else "all_rejected"))
        res.outcomes.add(f"operation:{op_class}:{mode_key}:{outcome}")
        op_sig = {"modes": mode_key, "operation_class": op_class, "outcome": outcome,
                  "unnegatable_inputs": facts["unnegatable_inputs"], "negatable_inputs": facts["negatable_inputs"],
                  "unnegatable_locations": sorted({x.split(":")[0] for x in facts["unnegatable_inputs"]})}
        if entry != "call+stored":
            op_sig["entry"] = entry
        op_detail = {"inputs": _inputs(expect), "spec": spec, "facts": facts, "tally": dict(tally),
                     "liveness_exhausted": None if live is None else live.exhausted,
                     "liveness_executions": None if live is None else live.executions}
        if errors:
            acc.violation({"kind": "generation_error", "error": type(errors[0]).__name__, "error_text": str(errors[0])[:80], "modes": mode_key},
                          {**op_detail, "error": repr(errors[0])[:300]})
        if op_class == "must_produce":
            if tally["skipped"]:
                # the real engine stops at the first SkipTest: a negatable operation would be reported as skipped
                acc.violation({**op_sig, "kind": "negatable_operation_skipped"}, op_detail)
            elif tally["valid"] == 0 and not errors:
                if live is not None and live.exhausted:
                    acc.violation({**op_sig, "kind": "no_negative_case_for_negatable_operation"}, op_detail)
                    res.count("liveness_decided")
                else:
                    res.count("liveness_undecided")
            else:
                res.count("liveness_decided")
        elif op_class == "must_skip":
            if tally["valid"]:
                res.count("cases_for_unnegatable_operation")  # each is judged by the per-case oracle
            elif mode_key == N and not errors:
                if tally["skipped"]:
                    res.count("liveness_decided")
                    res.count("unnegatable_operation_skipped")
                elif live is not None and live.exhausted:
                    acc.violation({**op_sig, "kind": "unnegatable_operation_not_skipped"}, op_detail)
                    res.count("liveness_decided")
                else:
                    res.count("liveness_undecided")
            elif mode_key == PN and not errors:
                if tally["skipped"]:
                    res.count("skiptest_in_mixed_modes")  # not stated by the property: counted, never reported
                res.count("unnegatable_operation_no_case_mixed_modes")
        else:
            res.count("liveness_not_judged")
    return res


def check_engine_item(item: dict, tier: str) -> Result:
    """One deterministic execution of the real engine (fuzzing phase only, derandomised, one worker, in-process HTTP).

    Judged: the scenario of an operation without anything violable is reported as skipped in negative-only mode (not as an
    error / failure, and nothing is sent); an operation with a violable input is neither skipped nor an error and gets at
    least one case in negative-only mode; every recorded case labelled negative goes through the per-case oracle."""
    from mc import engine
    from schemathesis.generation import GenerationMode

    res = Result()
    acc = _Item(res)
    doc, expect = build(item)
    spec = item["spec"]
    op_class, facts = classify_operation(doc, expect, spec)
    res.count(f"operations_{op_class}", len(item["modes"]))
    res.count("entry_engine")
    base = {"family": item["family"], "shape": item["shape"]}
    for mode_key in item["modes"]:
        modes = [GenerationMode.NEGATIVE] if mode_key == N else [GenerationMode.POSITIVE, GenerationMode.NEGATIVE]
        common.reset_schemathesis_caches()
        schema = engine.load_schema(doc)
        config = engine.make_config(phases=["fuzzing"], modes=modes, max_examples=ENGINE_MAX_EXAMPLES, seed=1, workers=1)
        run = engine.run_engine(schema, config)
        res.evaluations += 1
        res.count("engine_runs")
        finished = run.of_type("ScenarioFinished")
        errors = run.of_type("NonFatalError")
        statuses = sorted(getattr(e.status, "value", str(e.status)) for e in finished)
        cases = [node.value for e in finished for node in e.recorder.cases.values()]
        negative_cases = [c for c in cases if c.meta is not None and c.meta.generation.mode == GenerationMode.NEGATIVE]
        res.states += len(run.events)
        res.transitions += len(run.exchanges)
        if run.error is not None or errors or "error" in statuses or len(finished) != 1:
            outcome = "error"
        elif statuses == ["skip"]:
            outcome = "skipped"
        elif "failure" in statuses:
            outcome = "failure"
        elif cases:
            outcome = "case"
        else:
            outcome = "no_case"
        res.outcomes.add(f"engine:{op_class}:{mode_key}:{outcome}")
        ctx = {"item": item, "doc": doc, "expect": expect, "spec": spec, "modes": mode_key, "base": base}
        for case in (cases if mode_key == N else negative_cases):
            res.traces += 1
            res.count("engine_cases_judged")
            judge(res, acc, ctx, case, [], "engine")
        if mode_key == PN:
            res.count("engine_positive_cases_in_mixed_modes", len(cases) - len(negative_cases))
        op_sig = {"modes": mode_key, "operation_class": op_class, "outcome": outcome, "entry": "engine",
                  "unnegatable_inputs": facts["unnegatable_inputs"], "negatable_inputs": facts["negatable_inputs"],
                  "unnegatable_locations": sorted({x.split(":")[0] for x in facts["unnegatable_inputs"]})}
        op_detail = {"inputs": _inputs(expect), "spec": spec, "facts": facts, "statuses": statuses, "cases": len(cases),
                     "exchanges": len(run.exchanges),
                     "errors": [repr(getattr(e, "value", e))[:200] for e in errors] + ([repr(run.error)[:200]] if run.error else [])}
        if op_class == "must_skip":
            if outcome == "case":
                res.count("cases_for_unnegatable_operation")  # each negative one was judged by the per-case oracle above
            elif mode_key == N:
                if outcome == "skipped" and not run.exchanges:
                    res.count("engine_unnegatable_operation_skipped")
                else:
                    acc.violation({**op_sig, "kind": "unnegatable_operation_not_skipped"}, op_detail)
            elif outcome in ("error", "failure"):
                # mixed modes: the operation is still tested with positive data; "failed" is what the property excludes
                acc.violation({**op_sig, "kind": "unnegatable_operation_failed_in_mixed_modes"}, op_detail)
            else:
                res.count("engine_unnegatable_operation_not_failed_mixed_modes")
        elif op_class == "must_produce":
            if outcome == "skipped":
                acc.violation({**op_sig, "kind": "negatable_operation_skipped"}, op_detail)
            elif outcome in ("error", "no_case") or (mode_key == N and not negative_cases):
                acc.violation({**op_sig, "kind": "no_negative_case_for_negatable_operation"}, op_detail)
            else:
                res.count("engine_negatable_operation_tested")
        else:
            res.count("liveness_not_judged")
    return res


ENGINE_MAX_EXAMPLES = 3


def _inputs(expect: dict) -> dict:
    return {"params": expect["params"], "body": expect["body"]}


def judge(res: Result, acc: _Item, ctx: dict, case: Any, choices: list[int], which: str) -> None:
    from schemathesis.core import NOT_SET
    from schemathesis.generation import GenerationMode

    doc, expect, spec, base = ctx["doc"], ctx["expect"], ctx["spec"], ctx["base"]
    summary = common.summarize_case(case)
    labels = {kind.value: info.mode.value for kind, info in case.meta.components.items()}
    detail = {"inputs": _inputs(expect), "spec": spec, "modes": ctx["modes"], "case": summary, "labels": labels,
              "choices": choices, "pass": which}
    if case.meta.generation.mode != GenerationMode.NEGATIVE:
        acc.violation({**base, "kind": "case_not_labelled_negative"}, detail)
    if not any(info.mode == GenerationMode.NEGATIVE for info in case.meta.components.values()):
        acc.violation({**base, "kind": "no_component_labelled_negative"}, detail)
    judged_negative = False
    really_negative = False
    negative_label_on_declared_input = False
    verdicts: dict[str, Any] = {}
    for kind, info in case.meta.components.items():
        component = kind.value
        loc = COMPONENT_LOCATION[component]
        if loc == "body":
            declared = expect["body"] is not None
            present = case.body is not NOT_SET
            if present and declared:
                known, body_schema = body_schema_for(expect["body"], case.media_type)
                v = verdict(doc, body_schema, case.body, spec=spec) if known else None
                lv = {"raw": v, "wire": v, "violating_parts": ["value"] if v is False else [], "raw_violating_parts": ["value"] if v is False else [],
                      "via": ["conforms_as_generated"] if v is True else []}
            elif present:
                lv = {"raw": False, "wire": False, "violating_parts": ["undeclared_body"], "raw_violating_parts": ["undeclared_body"], "via": []}
            else:
                # an absent body conforms unless it is required
                required = bool(declared and expect["body"]["required"])
                lv = {"raw": not required, "wire": not required, "violating_parts": ["missing_required"] if required else [],
                      "raw_violating_parts": ["missing_required"] if required else [], "via": []}
        else:
            container = getattr(case, component)
            declared = any(p["in"] == loc for p in expect["params"])
            present = container is not None
            lv = location_verdicts(doc, expect, loc, dict(container) if present else {}, spec)
        verdicts[component] = {"label": info.mode.value, "present": present, **lv}
        sig = {"component": component}
        if info.mode == GenerationMode.NEGATIVE:
            if present or declared:
                negative_label_on_declared_input = True
            if not present:
                acc.violation({**sig, "kind": "negative_label_on_absent_component", "input_declared": declared,
                               "absent_component_conforms": lv["wire"]}, detail | {"verdicts": dict(verdicts)})
                continue
            res.count("negative_components_judged")
            if lv["wire"] is True:
                judged_negative = True
                acc.violation({**sig, "kind": "negative_component_conforms", "via": "+".join(lv["via"]) or "nothing_sent",
                               "explained_by_serialisation": bool(lv["via"]) and set(lv["via"]) <= SERIALISATION_REASONS},
                              detail | {"verdicts": dict(verdicts)})
                if lv["raw"] is False:
                    res.count("raw_violates_wire_conforms")
            elif lv["wire"] is False:
                judged_negative = True
                really_negative = True
                if lv["violating_parts"] == ["undeclared_name"]:
                    res.count("negative_only_by_undeclared_name")
            else:
                res.count("undecided_components")
            if lv["raw"] is True and lv["wire"] is not True:
                res.count("raw_conforms_wire_does_not")
        else:
            if lv["wire"] is False:
                acc.violation({**sig, "kind": "positive_component_violates", "present": present, "violating_parts": lv["violating_parts"]},
                              detail | {"verdicts": dict(verdicts)})
            elif lv["wire"] is None:
                res.count("undecided_components")
            else:
                res.count("positive_components_conform")
    if not negative_label_on_declared_input:
        # "at least one part is labelled negative" + "every part labelled negative is present and violates" => some present part
        # violates; here every negative label sits on a location for which nothing is declared and nothing is sent
        acc.violation({"kind": "negative_labels_only_on_undeclared_absent_components",
                       "positive_components": sorted(k.value for k, i in case.meta.components.items() if i.mode != GenerationMode.NEGATIVE)},
                      detail | {"verdicts": dict(verdicts)})
    if really_negative:
        res.count("cases_with_a_violating_negative_component")
    if judged_negative:
        res.nontriv([digest(doc), ctx["modes"], summary, labels])
    if len(res.samples) < 3 and really_negative:
        res.samples.append({"inputs": _inputs(expect), "spec": spec, "modes": ctx["modes"], "choices": choices, "case": summary,
                            "labels": labels, "verdicts": verdicts})


def vacuity(total: Result, tier: str) -> list[str]:
    out = []
    c = total.counters
    if total.traces == 0:
        out.append("no negative case was produced at all")
    if c.get("cases_with_a_violating_negative_component", 0) == 0:
        out.append("no case with a really violating negative component was seen")
    if c.get("positive_components_conform", 0) == 0:
        out.append("no positive-labelled component was judged in negative mode (fallback never seen)")
    if "skipped" not in total.outcomes:
        out.append("SkipTest was never observed")
    if c.get("liveness_trees_exhausted", 0) == 0:
        out.append("no liveness tree was exhausted")
    if c.get("unnegatable_operation_skipped", 0) == 0:
        out.append("no un-negatable operation was seen skipped")
    if c.get("operations_must_produce", 0) == 0 or c.get("operations_must_skip", 0) == 0:
        out.append("operation classes not both populated")
    if len(total.outcomes) < 4:
        out.append("too few distinct outcomes")
    # review round 2 dimensions
    for entry in ("stored", "call", "schema", "map", "engine"):
        if c.get(f"entry_{entry}", 0) == 0:
            out.append(f"entry point '{entry}' was never exercised")
    if c.get("engine_unnegatable_operation_skipped", 0) == 0:
        out.append("no engine run reported an un-negatable operation as skipped")
    if c.get("engine_cases_judged", 0) == 0 or c.get("engine_negatable_operation_tested", 0) == 0:
        out.append("no case recorded by an engine run was judged")
    if not any(o.startswith("operation:must_skip:N:skipped") for o in total.outcomes):
        out.append("no un-negatable operation outcome 'skipped' among the strategy entry points")
    return out
