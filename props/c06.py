"""C06 - the HTTP request on the wire is exactly the generated test case.

E2 enumerates one-parameter documents (location x style x explode x type, OpenAPI 3.0 and Swagger 2.0 collectionFormat,
``content: application/json`` parameters), request bodies per media type, and base-URL configurations
(``base_url`` / ``servers`` / ``basePath``).  E1 enumerates, per document, every choice path (<= d deviations) of the
REAL ``operation.as_strategy()`` over a character alphabet made of URL-reserved characters; the alphabet is *rotated* so
that every character is the default one once (so '.', '..', '%', '+', ' ' ... are reached alone and doubled at d<=1).
Every produced case is sent through the real transport (``case.call()``: requests via the in-process adapter of
mc/httpseam.py; WSGI and ASGI transports with recording apps) and the logged request is decoded by the independent
decoders of oracles/styles.py and compared with the value captured *before* serialisation (a wrapper around the function
returned by ``operation.get_parameter_serializer(location)`` records a deep copy of its input).
Coverage-phase cases (``_iter_coverage_cases`` -> ``Template._serialize``) and explicit examples
(``get_strategies_from_examples`` -> ``serialize_components``) of the same documents go through the same oracle.

What is judged (transcription of the property text):
  U  URL == base URL (trailing '/' stripped) + path template, each ``{var}`` replaced by exactly one segment; no
     fragment; no '.'/'..' raw segments; the segment, percent-decoded and style-decoded, recovers the captured value.
  Q  query / header / Cookie decoders recover the captured value up to string coercion (1<->"1", true<->"true",
     null<->"null"; Python's str() spellings 'True'/'False'/'None' are accepted as coercions too, as C01 does, and counted
     as ``trivial:python_spelling``); no query parameter / cookie / header other than the generated ones, the configured ones, the standard
     client headers (User-Agent, Accept, Accept-Encoding, Connection, Content-Length, Content-Type, Host) and
     X-Schemathesis-TestCaseId.
  B  JSON bodies ``json.loads`` to the case body, urlencoded bodies split back to the case body's pairs, text bodies
     byte-decode back; Content-Type == case.media_type (multipart: modulo boundary); no body and no Content-Type when the
     case has no body.

Exemptions (counted as ``trivial:<reason>``, never reported) - inherent ambiguity of the declared encoding:
  * an array item / object key / object value that contains the style's own delimiter (',' for simple/form/csv, '.' for
    label, ';' for matrix, ' ' for spaceDelimited/ssv, '|' for pipeDelimited/pipes, TAB for tsv, '=' for exploded
    objects, '[' ']' for deepObject keys, and optional whitespace around header list items);
  * the empty array, the empty object, and arrays made only of empty strings (indistinguishable from the empty string and
    from an absent parameter); an empty path value (no such segment);
  * nested arrays/objects in any non-JSON style; a value whose shape differs from the declared type (coverage phase,
    negative mode): the style tables say nothing about them;
  * values a header cannot carry (not latin-1, control characters, leading/trailing whitespace) and values a cookie cannot
    carry (whitespace, '"', ',', ';', '\\', control and non-ASCII characters: RFC 6265 cookie-octet);
  * cookie arrays/objects with explode=true, spaceDelimited/pipeDelimited on non-arrays, deepObject on non-objects or with
    explode=false: not defined by the 3.0.3 table - not enumerated;
  * null and nested values inside urlencoded bodies / formData parameters (a form has no spelling for them); text/plain
    bodies whose value is not text (coverage phase, negative mode); JSON-content parameters in cookies whose JSON text
    needs characters a cookie cannot carry; multipart bodies beyond their Content-Type (the property does not state a
    round-trip law for them);
  * a null path value under label/matrix (RFC 6570 expands an undefined variable to the empty string);
  * a raw ';' in the last path segment on the ASGI test client (it cuts ";params" off: third-party environment);
  * non-ASCII header bytes on the ASGI test client (it encodes UTF-8 where HTTP says latin-1: third-party environment).
  * cases whose ``call()`` raises before anything is sent (nothing on the wire to judge) - counted as ``not_sent``.

Review round 2 (enumerators in mc/c06_extra.py; same oracle, documents with more than one thing in them):
  * several parameters per location: two and three query / header / cookie / path / formData parameters in both writing
    orders, array + scalar, object + scalar, names differing in letter case only (query, cookie), names with brackets and
    dots, only-optional parameters, one name in all locations; path templates ``/{a}-{b}`` (two variables in one segment:
    judged while no value contains the literal between them) and ``/{a}/x/{a}`` (every occurrence carries the same text);
    an empty path value among several variables falls under the empty-path-value exemption (URL joining drops the segment);
  * declaration spellings of one array/object parameter: OpenAPI 3.1 document, path-item level, ``$ref`` parameter, ``$ref``
    schema, ``nullable: true``, 3.1 ``type: [T, "null"]``, ``allOf: [T]`` (the last two: KF-C06-R2/R3);
  * request-body media types: parameters (``; charset=utf-8``), letter case, ``+json``, ``text/json``; two and three declared
    media types in every writing order; wildcards; optional bodies (``required: false`` / not written; Swagger 2.0 too): the
    Content-Type and the body format follow ``case.media_type`` whichever was drawn, a case without body has neither;
  * base URLs with a port, with percent-escapes in the base path (KF-C06-R1), given per call (``call(base_url=...)`` wins over
    the configured one, ``servers`` and ``basePath``), OpenAPI 3.1 ``servers``;
  * the same case used twice: after ``as_transport_kwargs()`` and ``as_curl_command()`` the case is sent a second time and
    the second request has to equal the first (multipart: modulo the random boundary) - kind ``second_send_differs``;
  * coverage phase: a name the coverage case itself added (its "unknown parameter" scenario) is part of the generated case.
"""

from __future__ import annotations

import ast
import copy
import json
import re
from dataclasses import dataclass, field, replace
from typing import Any, Iterator
from urllib.parse import urlsplit

from mc import c06_extra as X
from mc import httpseam
from mc.choicetree import Alphabet, Stats, draw_strategy, explore
from mc.runner import Result
from oracles import styles as S
from props import common

ID = "C06"
LEVEL = "model_checking"
ENGINES = ["E2", "E1"]
RULE = (
    "work item = one one-parameter (or one-body) document: location x style x explode x type x spec, or body media type, or a "
    "base-URL configuration; per document every choice path of the real as_strategy() with <=d non-default PRNG answers is run "
    "once per rotation of the reserved-character alphabet (each character is the default once), every resulting Case is sent "
    "through the real transport and the logged request is decoded by an independent style decoder; coverage-phase cases and "
    "explicit examples of the same documents are sent too. distinct = distinct (document, base, phase, transport, logged "
    "request); non-trivial = at least one generated parameter/body was decoded and compared (ambiguous encodings are trivial). "
    "round 2: documents with 2-3 parameters per location in both writing orders / one name in all locations / two variables in "
    "one path segment / a variable used twice, declaration spellings (3.1, $ref, path level, nullable, type list, allOf), 1-3 "
    "declared body media types (parameters, letter case, wildcards, optional body), base URLs with port / escapes / per call; "
    "every case of these is sent twice and the two requests are compared"
)
CHARS = ["a", "0", " ", "%", "+", "&", "=", "/", "?", "#", ".", ",", ";", "é"]
BOUNDS = {
    "quick": {"d": 1, "string_size": 2, "array_size": 2, "rotations": len(CHARS), "transports": ["requests"],
              "app_transport_docs": "base-URL documents; round-2 documents (first writing order, first rotation; several-parameter documents: WSGI only)",
              "max_exec_per_tree": 400,
              "round2": {"parameters_per_location": 3, "writing_orders": 2, "rotations": "'a' and ','", "declared_media_types": 3,
                         "body_rotations": "'a', e-acute, '%'", "second_send": "first rotation, fuzzing and examples phases, requests transport",
                         "coverage_phase": "first writing order"}},
    "thorough": {"d": 2, "string_size": 2, "array_size": 2, "rotations": len(CHARS), "transports": ["requests", "wsgi", "asgi"],
                 "app_transport_docs": "all", "max_exec_per_tree": 6000,
                 "round2": {"parameters_per_location": 3, "writing_orders": 3, "rotations": "all", "declared_media_types": 3,
                            "body_rotations": "all", "second_send": "first rotation, all phases", "coverage_phase": "all"}},
}
BUDGET_S = {"quick": 140, "thorough": 3000}
CHUNK = 2
ASSUMPTIONS = [
    "values outside the alphabet `a 0 space % + & = / ? # . , ; e-acute` (sizes <= 2) and beyond d deviations are not explored",
    "interactions between parameters: the two- and three-parameter documents of mc/c06_extra.py (one array/object + scalars per location, one name in all locations); larger combinations are not explored",
    "media type parameters other than `charset=utf-8` (another charset, a boundary written into the schema) are not explored",
    "base URLs with a query string, userinfo, upper-case host or non-ASCII characters are not explored",
    "style documents take their base URL round-robin from the five base URLs; the full base-URL x servers/basePath product is enumerated on four small documents only",
    "the wire is observed at PreparedRequest level (in-process adapter), at the WSGI environ and at the ASGI scope; urllib3/http.client below that are environment",
    "decoders: oracles/styles.py (own code from OAS 3.0.3 / RFC 6570 / Swagger 2.0 tables); a wire form is accepted when the strict (split-then-decode) or the lenient (decode-then-split) reading recovers the value",
    "parameter *names* are plain ASCII (`p`, `P`, `X-P`, `x-a`, `a`, `b`, `ids[]`, `a.b`); other reserved characters in names are not explored",
]
TECHNIQUE = (
    "exhaustive small-scope enumeration of parameter/body/base-URL documents x exhaustive deviation-bounded choice-tree "
    "enumeration of the real strategy over a rotated reserved-character alphabet, every case sent through the real transports "
    "and decoded by independent style decoders (round-trip oracle)"
)
LEVEL_TEXT = (
    "For every style row the spec defines, every case the real strategy can produce within the stated alphabet/deviation bound is "
    "really sent and decoded back; the round-trip law is decided for all of them, not for one literal per style."
)
LEVEL_NOTE = (
    "Trusted: oracles/styles.py, the PrimitiveProvider seam, the requests adapter seam, werkzeug/starlette test clients. Not "
    "covered: longer strings, more than three parameters per location, other reserved characters in parameter names, real sockets."
)

HOST = "http://verif.local"
BASE_URLS = [HOST, HOST + "/", HOST + "/api", HOST + "/api/", HOST + "/api/v1/"]
STANDARD_HEADERS = {"user-agent", "accept", "accept-encoding", "connection", "content-length", "content-type", "host"}
CASE_ID = "x-schemathesis-testcaseid"
PNAME = {"path": "p", "query": "p", "header": "X-P", "cookie": "p", "formData": "p"}

STR = {"type": "string", "minLength": 1, "maxLength": 2}
TYPES: dict[str, dict] = {
    "string": STR,
    "string0": {"type": "string", "maxLength": 2},
    "integer": {"type": "integer"},
    "boolean": {"type": "boolean"},
    "array_string": {"type": "array", "items": STR, "minItems": 1, "maxItems": 2},
    "array_string0": {"type": "array", "items": STR, "maxItems": 2},
    "array_integer": {"type": "array", "items": {"type": "integer"}, "minItems": 1, "maxItems": 2},
    "array_boolean": {"type": "array", "items": {"type": "boolean"}, "minItems": 1, "maxItems": 2},
    "object": {"type": "object", "properties": {"a": STR, "b": {"type": "boolean"}}, "additionalProperties": False,
               "minProperties": 1},
    "object0": {"type": "object", "properties": {"a": STR, "b": {"type": "boolean"}}, "additionalProperties": False},
}
KIND = {k: ("array" if k.startswith("array") else "object" if k.startswith("object") else "primitive") for k in TYPES}
HAS_STRINGS = {"string", "string0", "array_string", "array_string0", "object", "object0"}


# ----------------------------------------------------------------------------------------------------------------- E2 items


def _param_rows() -> Iterator[dict]:
    """Every (spec, location, style, explode, type) row the specifications define."""
    for location in ("path", "query", "header", "cookie"):
        for style in (None, *S.ALLOWED_STYLES[location]):
            for explode in (None, True, False):
                for tname in TYPES:
                    kind = KIND[tname]
                    if location == "path" and tname in ("string0", "array_string0", "object0"):
                        continue
                    if style == "deepObject":
                        if kind != "object" or explode is False:
                            continue
                    elif not S.defined(location, style, explode, kind):
                        continue
                    if style in ("spaceDelimited", "pipeDelimited") and explode is True:
                        continue  # the 3.0.3 table lists these with explode=false only
                    yield {"kind": "param", "spec": "3.0", "loc": location, "style": style, "explode": explode, "type": tname}
    for location in ("path", "query", "header", "cookie"):
        for tname in ("string", "array_string", "object", "array_boolean"):
            yield {"kind": "param", "spec": "3.0", "loc": location, "style": None, "explode": None, "type": tname, "json": True}
    for location in ("path", "query", "header", "formData"):
        for tname in ("string", "string0", "integer", "boolean"):
            if location == "path" and tname == "string0":
                continue
            yield {"kind": "param", "spec": "2.0", "loc": location, "cf": None, "type": tname}
        for tname in ("array_string", "array_string0", "array_integer", "array_boolean"):
            if location == "path" and tname == "array_string0":
                continue
            for cf in (None, "csv", "ssv", "tsv", "pipes", "multi"):
                if cf == "multi" and location not in ("query", "formData"):
                    continue
                yield {"kind": "param", "spec": "2.0", "loc": location, "cf": cf, "type": tname}


BODY_SCHEMAS: dict[str, list[tuple[str, dict]]] = {
    "application/json": [
        ("string", {"type": "string", "maxLength": 2}), ("integer", {"type": "integer"}), ("boolean", {"type": "boolean"}),
        ("null", {"type": "string", "nullable": True, "maxLength": 1}), ("array_string", TYPES["array_string0"]),
        ("object", TYPES["object0"]),
        ("nested", {"type": "object", "properties": {"n": {"type": "array", "items": {"type": "boolean"}, "maxItems": 2}},
                    "required": ["n"], "additionalProperties": False}),
    ],
    "application/x-www-form-urlencoded": [
        ("object", {"type": "object", "properties": {"a": {"type": "string", "maxLength": 2}, "b": {"type": "integer"}},
                    "required": ["a"], "additionalProperties": False}),
        ("object_bool", {"type": "object", "properties": {"b": {"type": "boolean"}}, "required": ["b"], "additionalProperties": False}),
        ("object_array", {"type": "object", "properties": {"a": TYPES["array_string"]}, "required": ["a"], "additionalProperties": False}),
    ],
    "text/plain": [("string", {"type": "string", "maxLength": 2}), ("integer", {"type": "integer"})],
    "multipart/form-data": [
        ("object", {"type": "object", "properties": {"a": {"type": "string", "maxLength": 2}, "b": {"type": "integer"}},
                    "required": ["a"], "additionalProperties": False}),
    ],
}


def _base_rows() -> Iterator[dict]:
    docs = [("path", "/t/{p}"), ("path", "/t/{p}/"), ("path", "/{p}"), ("query", "/t"), ("none", "/t"), ("none", "/")]
    for loc, template in docs:
        for base in BASE_URLS:
            for servers in (None, "/other"):
                yield {"kind": "base", "spec": "3.0", "loc": loc, "template": template, "mode": "configured", "base": base,
                       "servers": servers}
            yield {"kind": "base", "spec": "2.0", "loc": loc, "template": template, "mode": "configured", "base": base,
                   "servers": "/other"}
        for server in ("/", "/api", "/api/", "/api/v1/", HOST + "/api", HOST + "/api/v1/"):
            yield {"kind": "base", "spec": "3.0", "loc": loc, "template": template, "mode": "servers", "base": None, "servers": server}
        # server URL templates with variables (the defaults apply), at the start, in the host part and in the path
        for server_object in (
            {"url": "{scheme}://verif.local/api", "variables": {"scheme": {"default": "http", "enum": ["http", "https"]}}},
            {"url": "{server}/api/v1/", "variables": {"server": {"default": HOST}}},
            {"url": "{server}", "variables": {"server": {"default": HOST + "/api"}}},
            {"url": "/{base}/v1", "variables": {"base": {"default": "api"}}},
            {"url": HOST + "/{base}", "variables": {"base": {"default": "api"}}},
            {"url": "http://{host}/api/{version}/", "variables": {"host": {"default": "verif.local"}, "version": {"default": "v1"}}},
        ):
            yield {"kind": "base", "spec": "3.0", "loc": loc, "template": template, "mode": "servers", "base": None, "servers": server_object}
        for base_path in (None, "/", "/api", "/api/", "/api/v1/"):
            yield {"kind": "base", "spec": "2.0", "loc": loc, "template": template, "mode": "basePath", "base": None,
                   "servers": base_path}


def items(tier: str, seed: int) -> list[dict]:
    out: list[dict] = []
    transports = BOUNDS[tier]["transports"]
    n = 0
    for row in _param_rows():
        row["base"] = BASE_URLS[n % len(BASE_URLS)]
        row["transports"] = transports
        row["rotations"] = list(range(len(CHARS))) if row["type"] in HAS_STRINGS and not row["type"].endswith("0") else [0]
        n += 1
        out.append(row)
    for spec in ("3.0", "2.0"):
        for mt, schemas in BODY_SCHEMAS.items():
            for tname, schema in schemas:
                if spec == "2.0" and mt in ("application/x-www-form-urlencoded", "multipart/form-data") and tname != "object":
                    continue
                has_str = "string" in json.dumps(schema)
                out.append({"kind": "body", "spec": spec, "media_type": mt, "type": tname, "schema": schema,
                            "base": BASE_URLS[n % len(BASE_URLS)], "transports": transports,
                            "rotations": list(range(len(CHARS))) if has_str else [0]})
                n += 1
    for row in _base_rows():
        row["transports"] = ["requests", "wsgi", "asgi"]
        row["rotations"] = [0, CHARS.index(".")] if row["loc"] == "path" else [0]
        out.append(row)
    for spec in ("3.0", "2.0"):
        for n_ex, ex_path in enumerate(EXAMPLE_STRINGS):
            if ex_path == "":
                continue  # no such path segment
            out.append({"kind": "examples", "spec": spec, "base": BASE_URLS[(n + n_ex) % len(BASE_URLS)], "transports": transports,
                        "rotations": [0], "ex_path": ex_path, "ex_query": [EXAMPLE_STRINGS[n_ex], "0"],
                        "ex_cookie": ex_path, "repeat": True})
    out.append({"kind": "mixed", "spec": "3.0", "base": BASE_URLS[4], "transports": transports, "rotations": [0], "repeat": True})
    out += _round2_items(tier, n)
    return out


# rotations of the alphabet used by the several-parameter documents in the quick tier: 'a' and ',' (the delimiter of most
# styles) are the default character once; every character alone is the subject of the one-parameter documents
ROT_FEW = [CHARS.index(ch) for ch in ("a", ",")]


def _round2_items(tier: str, n: int) -> list[dict]:
    """Review round 2 (mc/c06_extra.py): several parameters per location, declaration spellings, body media types, base URLs.

    Every document is sent through the requests transport on ROT_FEW (thorough: all rotations) and, as a second work item,
    through the WSGI and ASGI transports on the first rotation; every case of these items is sent twice (``repeat``).
    """
    out: list[dict] = []
    every = list(range(len(CHARS)))
    few = ROT_FEW if tier == "quick" else every

    def emit(row: dict, rotations: list[int], app_transports: bool = True, coverage: bool = True, asgi: bool = True) -> None:
        nonlocal n
        base = BASE_URLS[n % len(BASE_URLS)]
        n += 1
        out.append({**row, "base": base, "transports": ["requests"], "rotations": rotations, "repeat": True, "coverage": coverage})
        if app_transports:
            out.append({**row, "base": base, "transports": ["wsgi", "asgi"] if asgi else ["wsgi"], "rotations": [0],
                        "repeat": tier != "quick", "coverage": False})

    quick = tier == "quick"
    for row in X.multi_param_rows():
        if quick and row["tag"].endswith(":rot"):
            continue  # the third writing order of three parameters: thorough tier
        first_order = not row["tag"].endswith((":rev", ":rot"))
        has_str = any(pd["type"] in HAS_STRINGS for pd in row["params"])
        # quick: the ASGI transport shares serialize_case with the requests transport (its own part, the base URL, is the
        # subject of the base-URL documents); WSGI has its own serialize_case, cookie and query handling
        emit(row, few if has_str else [0], app_transports=first_order or not quick, coverage=first_order or not quick, asgi=not quick)
    for row in X.spelling_rows():
        emit(row, [0] if quick else [0, CHARS.index(",")], app_transports=not quick, coverage=not quick)
    seen_content: set = set()
    for row in X.body_media_rows():
        first_order = tuple(sorted(mt for mt, _ in row["content"])) not in seen_content
        seen_content.add(tuple(sorted(mt for mt, _ in row["content"])))
        emit(row, [0, CHARS.index("é"), CHARS.index("%")] if quick else every, coverage=first_order or not quick)
    for row in X.base_extra_rows():
        # the per-call base URL of the WSGI transport is werkzeug's own `base_url` argument, and werkzeug reads the path it is
        # given as an IRI (it decodes percent-escapes itself): third-party environment, those rows go without WSGI
        no_wsgi = row["mode"] == "per_call" or "%" in (row["base"] or "")
        out.append({**row, "transports": ["requests", "asgi"] if no_wsgi else ["requests", "wsgi", "asgi"], "rotations": [0],
                    "repeat": True})
    return out


# ----------------------------------------------------------------------------------------------------------------- documents


@dataclass
class Param:
    name: str
    location: str  # path | query | header | cookie | formData
    kind: str  # declared: primitive | array | object
    style: str | None = None
    explode: bool | None = None
    cf: str | None = None  # Swagger 2.0 collectionFormat ("" = not 2.0)
    spec: str = "3.0"
    json_content: bool = False
    properties: list = field(default_factory=list)
    tname: str = ""
    spelling: str | None = None  # round 2: how the declaration is written (3.1 document, $ref, allOf ...)

    def facts(self) -> dict:
        out = {"location": self.location, "declared": self.kind, "type": self.tname}
        if self.spelling:
            out["spelling"] = self.spelling
        if self.spec == "2.0":
            out["collectionFormat"] = self.cf
        elif self.json_content:
            out["content"] = "application/json"
        else:
            out["style"] = self.style
            out["explode"] = self.explode
            out["explode_effective"] = S.effective(self.location, self.style, self.explode)[1]
        return out


@dataclass
class Expect:
    spec: str
    template: str
    method: str
    params: list
    body_media_type: str | None
    prefix: str  # scheme://host + base path, no trailing slash (requests transport)
    base_path: str  # base path only, no trailing slash (app transports)
    configured_headers: dict = field(default_factory=dict)
    configured_params: dict = field(default_factory=dict)
    configured_cookies: dict = field(default_factory=dict)
    facts: dict = field(default_factory=dict)
    call_kwargs: dict = field(default_factory=dict)  # round 2: arguments of this one call (``base_url=``)


def _doc(spec: str, template: str, method: str, parameters: list[dict], *, body: tuple[str, dict] | None = None,
         form: list[dict] | None = None, extra: dict | None = None) -> dict:
    op: dict[str, Any] = {"responses": {"200": {"description": "OK"}}}
    if spec == "2.0":
        params = list(parameters)
        if body is not None:
            mt, schema = body
            op["consumes"] = [mt]
            params.append({"name": "body", "in": "body", "required": True, "schema": schema})
        if form:
            params += form
        op["parameters"] = params
        doc: dict[str, Any] = {"swagger": "2.0", "info": {"title": "t", "version": "1"}, "paths": {template: {method: op}}}
    else:
        op["parameters"] = list(parameters)
        if body is not None:
            mt, schema = body
            op["requestBody"] = {"required": True, "content": {mt: {"schema": schema}}}
        doc = {"openapi": "3.1.0" if spec == "3.1" else "3.0.2", "info": {"title": "t", "version": "1"},
               "paths": {template: {method: op}}}
    if extra:
        doc.update(extra)
    return doc


def _param_def(spec: str, location: str, tname: str, *, style: str | None = None, explode: bool | None = None,
               cf: str | None = None, json_content: bool = False, name: str | None = None, required: bool = True,
               example: Any = None, has_example: bool = False) -> tuple[dict, Param]:
    schema = copy.deepcopy(TYPES[tname])
    name = name or PNAME[location]
    if spec == "2.0":
        d: dict[str, Any] = {"name": name, "in": location, "required": required, **schema}
        d.pop("additionalProperties", None)
        if cf is not None:
            d["collectionFormat"] = cf
        if has_example:
            d["x-example"] = example
    else:
        d = {"name": name, "in": location, "required": required}
        if json_content:
            d["content"] = {"application/json": {"schema": schema}}
        else:
            d["schema"] = schema
            if style is not None:
                d["style"] = style
            if explode is not None:
                d["explode"] = explode
        if has_example:
            d["example"] = example
    p = Param(name=name, location=location, kind=KIND[tname], style=style, explode=explode, cf=cf, spec=spec,
              json_content=json_content, properties=sorted(schema.get("properties", {})), tname=tname)
    return d, p


def _split_base(base: str) -> tuple[str, str]:
    parts = urlsplit(base)
    path = parts.path.rstrip("/")
    return f"{parts.scheme}://{parts.netloc}{path}", path


def build(item: dict) -> tuple[dict, Expect, dict]:
    """-> (document, expectation, schema.configure kwargs)"""
    spec = item["spec"]
    kind = item["kind"]
    if kind == "param":
        loc = item["loc"]
        d, p = _param_def(spec, loc, item["type"], style=item.get("style"), explode=item.get("explode"), cf=item.get("cf"),
                          json_content=item.get("json", False))
        template = "/t/{p}" if loc == "path" else "/t"
        if loc == "formData":
            doc = _doc(spec, template, "post", [], form=[d])
            doc["paths"][template]["post"]["consumes"] = ["application/x-www-form-urlencoded"]
            method = "post"
        else:
            doc = _doc(spec, template, "get", [d])
            method = "get"
        prefix, base_path = _split_base(item["base"])
        return doc, Expect(spec, template, method, [p], None, prefix, base_path, facts=p.facts()), {"base_url": item["base"]}
    if kind == "body":
        doc = _doc(spec, "/t", "post", [], body=(item["media_type"], copy.deepcopy(item["schema"])))
        if spec == "2.0" and item["media_type"] in ("application/x-www-form-urlencoded", "multipart/form-data"):
            form = []
            for name, sub in item["schema"]["properties"].items():
                form.append({"name": name, "in": "formData", "required": name in item["schema"].get("required", []), **sub})
            doc = _doc(spec, "/t", "post", [], form=form)
            doc["paths"]["/t"]["post"]["consumes"] = [item["media_type"]]
        prefix, base_path = _split_base(item["base"])
        facts = {"location": "body", "media_type": item["media_type"], "type": item["type"]}
        return doc, Expect(spec, "/t", "post", [], item["media_type"], prefix, base_path, facts=facts), {"base_url": item["base"]}
    if kind == "base":
        loc = item["loc"]
        template = item["template"]
        params, ps = [], []
        if loc in ("path", "query"):
            d, p = _param_def(spec, loc, "string")
            params, ps = [d], [p]
        extra: dict[str, Any] = {}
        if spec != "2.0" and isinstance(item["servers"], dict):
            # the first server applies; a second one is listed and must not be used
            extra["servers"] = [copy.deepcopy(item["servers"]), {"url": "/unused"}]
        elif spec != "2.0" and item["servers"] is not None:
            extra["servers"] = [{"url": item["servers"]}]
        if spec == "2.0" and item["servers"] is not None:
            extra["basePath"] = item["servers"]
        doc = _doc(spec, template, "get", params, extra=extra)
        call_kwargs: dict[str, Any] = {}
        if item["mode"] == "configured":
            prefix, base_path = _split_base(item["base"])
            cfg: dict[str, Any] = {"base_url": item["base"]}
        elif item["mode"] == "per_call":
            # round 2: the base URL of this one call; a configured one (and `servers` / `basePath`) must not be used
            prefix, base_path = _split_base(item["base"])
            cfg = {"base_url": item["configured"]} if item.get("configured") else {"location": HOST + "/openapi.json"}
            call_kwargs = {"base_url": item["base"]}
        else:
            declared = item["servers"] or "/"
            if isinstance(declared, dict):
                declared = declared["url"].format(**{name: var["default"] for name, var in declared["variables"].items()})
            prefix, base_path = _split_base(declared if declared.startswith("http") else HOST + declared)
            cfg = {"location": HOST + "/openapi.json"}
        facts = {"location": loc, "base_mode": item["mode"], "template": template}
        if item.get("base") and re.search(r"%(?!20)[0-9A-Fa-f]{2}", item["base"]):
            facts["base_has_escaped_reserved_character"] = True
        return doc, Expect(spec, template, "get", ps, None, prefix, base_path, facts=facts,
                           configured_headers={"Authorization": "Bearer verif", "X-Cfg": "1"},
                           configured_params={"cfg": "1"}, configured_cookies={"ck": "1"}, call_kwargs=call_kwargs), cfg
    if kind in ("examples", "mixed"):
        return _multi_doc(item)
    if kind == "multi":
        return _several_doc(item)
    if kind == "body2":
        return _body2_doc(item)
    raise ValueError(kind)


# ------------------------------------------------------------------------------------------------ round-2 documents

BODY2_SCHEMAS: dict[str, dict] = {
    "object": TYPES["object0"],
    "string": {"type": "string", "maxLength": 2},
    "array_string": TYPES["array_string0"],
    "form_object": {"type": "object", "properties": {"a": {"type": "string", "maxLength": 2}, "b": {"type": "integer"}},
                    "required": ["a"], "additionalProperties": False},
}


def _several_doc(item: dict) -> tuple[dict, Expect, dict]:
    """Several parameters (mc/c06_extra.multi_param_rows / spelling_rows), written in the order of ``item['params']``."""
    spec = item["spec"]
    template, method = item["template"], item["method"]
    version = "3.0.2"
    op_level: list[dict] = []
    path_level: list[dict] = []
    components: dict[str, dict] = {"parameters": {}, "schemas": {}}
    ps: list[Param] = []
    form: list[dict] = []
    for n, pd in enumerate(item["params"]):
        spelling = pd.get("spelling")
        d, p = _param_def(spec, pd["loc"], pd["type"], style=pd.get("style"), explode=pd.get("explode"), cf=pd.get("cf"),
                          name=pd["name"], required=pd.get("required", True))
        p.spelling = spelling
        ps.append(p)
        if spec != "2.0":
            if spelling in ("v31", "type_list"):
                version = "3.1.0"
            if spelling == "nullable":
                d["schema"]["nullable"] = True
            elif spelling == "type_list":
                d["schema"]["type"] = [d["schema"]["type"], "null"]
            elif spelling == "allOf":
                d["schema"] = {"allOf": [d["schema"]]}
            elif spelling == "ref_schema":
                components["schemas"][f"S{n}"] = d["schema"]
                d["schema"] = {"$ref": f"#/components/schemas/S{n}"}
        if spelling == "ref_param":
            components["parameters"][f"P{n}"] = d
            d = {"$ref": ("#/parameters/" if spec == "2.0" else "#/components/parameters/") + f"P{n}"}
        if pd["loc"] == "formData":
            form.append(d)
        elif spelling == "path_level":
            path_level.append(d)
        else:
            op_level.append(d)
    doc = _doc(spec, template, method, op_level, form=form or None)
    if form:
        doc["paths"][template][method]["consumes"] = ["application/x-www-form-urlencoded"]
    if path_level:
        doc["paths"][template]["parameters"] = path_level
    if spec == "2.0":
        if components["parameters"]:
            doc["parameters"] = components["parameters"]
    else:
        doc["openapi"] = version
        used = {k: v for k, v in components.items() if v}
        if used:
            doc["components"] = used
    prefix, base_path = _split_base(item["base"])
    facts = {"location": "several", "shape": item["tag"].rsplit(":", 1)[0] if item["tag"].endswith((":fwd", ":rev", ":rot")) else item["tag"]}
    return doc, Expect(spec, template, method, ps, None, prefix, base_path, facts=facts), {"base_url": item["base"]}


def _body2_doc(item: dict) -> tuple[dict, Expect, dict]:
    """Request bodies (mc/c06_extra.body_media_rows): media types in writing order, optional bodies."""
    spec = item["spec"]
    content = [(mt, copy.deepcopy(BODY2_SCHEMAS[tname])) for mt, tname in item["content"]]
    required = item["required"]
    op: dict[str, Any] = {"responses": {"200": {"description": "OK"}}}
    if spec == "2.0":
        op["consumes"] = [mt for mt, _ in content]
        if all(mt.split(";")[0].strip().lower() in (X.FORM_MT, X.MULTIPART_MT) for mt, _ in content):
            schema = content[0][1]
            op["parameters"] = []
            for name, sub in schema["properties"].items():
                d = {"name": name, "in": "formData", **sub}
                if required is not None:
                    d["required"] = bool(required) and name in schema.get("required", [])
                op["parameters"].append(d)
        else:
            d = {"name": "body", "in": "body", "schema": content[0][1]}
            if required is not None:
                d["required"] = required
            op["parameters"] = [d]
        doc: dict[str, Any] = {"swagger": "2.0", "info": {"title": "t", "version": "1"}, "paths": {"/t": {"post": op}}}
    else:
        body: dict[str, Any] = {"content": {mt: {"schema": schema} for mt, schema in content}}
        if required is not None:
            body["required"] = required
        op["requestBody"] = body
        doc = {"openapi": "3.0.2", "info": {"title": "t", "version": "1"}, "paths": {"/t": {"post": op}}}
    prefix, base_path = _split_base(item["base"])
    facts = {"location": "body", "type": "+".join(tname for _, tname in item["content"]), "body_doc": item["tag"].split(":")[0],
             "body_required": required}
    return doc, Expect(spec, "/t", "post", [], None, prefix, base_path, facts=facts), {"base_url": item["base"]}


# explicit example values: one per reserved character, the dot segments, the empty string
EXAMPLE_STRINGS = ["a", "a b", "%", "+", "a&b=c", "a/b", "a?b", "a#b", ".", "..", "a,b", ";", "é", "%41", ""]


def _multi_doc(item: dict) -> tuple[dict, Expect, dict]:
    """One small document with a parameter in every location and a JSON body (coverage / examples / mixed fuzzing)."""
    spec = item["spec"]
    with_examples = item["kind"] == "examples"
    defs, ps = [], []

    def add(location: str, tname: str, name: str, **kw: Any) -> None:
        if with_examples:
            kw["has_example"] = True
        d, p = _param_def(spec, location, tname, name=name, **kw)
        defs.append(d)
        ps.append(p)

    add("path", "string", "p", example=item.get("ex_path", "a b"))
    if spec == "3.0":
        add("query", "array_string", "q", style="form", explode=False, example=item.get("ex_query", ["a b", "0"]))
        add("query", "object", "o", style="deepObject", explode=True, example={"a": "x y", "b": True})
        add("header", "integer", "X-H", example=7)
        add("cookie", "string", "c", example=item.get("ex_cookie", "a"))
    else:
        add("query", "array_string", "q", cf="pipes", example=item.get("ex_query", ["a b", "0"]))
        add("query", "boolean", "o", example=True)
        add("header", "array_integer", "X-H", cf="csv", example=[7, 8])
    body_schema = {"type": "object", "properties": {"a": {"type": "integer"}, "s": {"type": "string", "maxLength": 2}},
                   "required": ["a"], "additionalProperties": False}
    if with_examples:
        body_schema["example"] = {"a": 1, "s": "é %"}
    doc = _doc(spec, "/t/{p}", "post", defs, body=("application/json", body_schema))
    prefix, base_path = _split_base(item["base"])
    facts = {"location": "multi"}
    return doc, Expect(spec, "/t/{p}", "post", ps, "application/json", prefix, base_path, facts=facts), {"base_url": item["base"]}


# ----------------------------------------------------------------------------------------------------------------- seams


class Capture:
    """Wraps ``operation.get_parameter_serializer``: records a deep copy of what the serializer is applied to."""

    def __init__(self, operation: Any) -> None:
        self.values: dict[str, Any] = {}
        self.calls = 0
        self.lookups = 0
        original = operation.get_parameter_serializer

        def get_parameter_serializer(location: str) -> Any:
            inner = original(location)
            self.lookups += 1

            def recording(value: Any) -> Any:
                self.values[location] = copy.deepcopy(value)
                self.calls += 1
                return inner(value) if inner is not None else value

            return recording

        operation.get_parameter_serializer = get_parameter_serializer

    def reset(self) -> None:
        self.values = {}


@dataclass
class Wire:
    transport: str
    method: str
    origin: str  # scheme://host[:port]
    raw_path: str
    raw_query: str
    fragment: str
    headers: list  # [(name, value)]
    body: bytes

    def header(self, name: str) -> str | None:
        vals = [v for k, v in self.headers if k.lower() == name.lower()]
        return vals[0] if vals else None

    def as_json(self) -> dict:
        return {"transport": self.transport, "method": self.method, "target": self.origin + self.raw_path + ("?" + self.raw_query if self.raw_query else ""),
                "headers": {k: v for k, v in self.headers if k.lower() != CASE_ID},
                "body": self.body.decode("utf-8", "backslashreplace")}

    def key(self) -> list:
        return [self.transport, self.method, self.origin, self.raw_path, self.raw_query,
                sorted((k.lower(), v) for k, v in self.headers if k.lower() != CASE_ID), self.body.decode("latin-1")]


class WsgiRecorder:
    def __init__(self) -> None:
        self.records: list[Wire] = []

    def __call__(self, environ: dict, start_response: Any) -> list:
        body = environ["wsgi.input"].read()
        headers = [(k[5:].replace("_", "-").title(), v) for k, v in environ.items() if k.startswith("HTTP_")]
        if environ.get("CONTENT_TYPE"):
            headers.append(("Content-Type", environ["CONTENT_TYPE"]))
        if environ.get("CONTENT_LENGTH"):
            headers.append(("Content-Length", environ["CONTENT_LENGTH"]))
        raw_uri = environ.get("REQUEST_URI") or environ.get("RAW_URI") or ""
        raw_path, _, _ = raw_uri.partition("?")
        # WSGI strings are bytes decoded as latin-1: spell the non-ASCII bytes of the request target as %XX again
        raw_path = "".join(ch if ord(ch) < 0x80 else "%{:02X}".format(ord(ch)) for ch in raw_path)
        self.records.append(Wire("wsgi", environ["REQUEST_METHOD"], "http://" + environ.get("HTTP_HOST", ""), raw_path,
                                 environ.get("QUERY_STRING", ""), "", headers, body))
        start_response("200 OK", [("Content-Type", "application/json")])
        return [b"{}"]


class AsgiRecorder:
    def __init__(self) -> None:
        self.records: list[Wire] = []

    async def __call__(self, scope: dict, receive: Any, send: Any) -> None:
        if scope["type"] == "lifespan":
            while True:
                message = await receive()
                if message["type"] == "lifespan.startup":
                    await send({"type": "lifespan.startup.complete"})
                elif message["type"] == "lifespan.shutdown":
                    await send({"type": "lifespan.shutdown.complete"})
                    return
        body = b""
        while True:
            message = await receive()
            body += message.get("body", b"")
            if not message.get("more_body"):
                break
        headers = []
        for k, v in scope["headers"]:
            try:
                value = v.decode("ascii")
            except UnicodeDecodeError:
                value = None  # the test client's own choice of charset: not judged
            headers.append((k.decode("latin-1"), value))
        host = next((v for k, v in headers if k == "host"), "")
        self.records.append(Wire("asgi", scope["method"], f"{scope['scheme']}://{host}", scope["raw_path"].decode("latin-1"),
                                 scope["query_string"].decode("latin-1"), "", headers, body))
        await send({"type": "http.response.start", "status": 200, "headers": [(b"content-type", b"application/json")]})
        await send({"type": "http.response.body", "body": b"{}"})


def _wire_from_exchange(ex: httpseam.Exchange) -> Wire:
    parts = urlsplit(ex.url)
    return Wire("requests", ex.method, f"{parts.scheme}://{parts.netloc}", parts.path, parts.query, parts.fragment,
                list(ex.headers.items()), ex.body or b"")


def send(case: Any, transport: str, recorder: Any, headers: dict | None, params: dict | None = None,
         cookies: dict | None = None, extra: dict | None = None) -> tuple[Wire | None, str | None]:
    kwargs: dict[str, Any] = dict(extra or {})
    if headers:
        kwargs["headers"] = dict(headers)
    if params:
        kwargs["params"] = dict(params)
    if cookies:
        kwargs["cookies"] = dict(cookies)
    try:
        if transport == "requests":
            with httpseam.installed(httpseam.ok_handler) as log:
                case.call(**kwargs)
            if len(log.exchanges) != 1:
                return None, f"{len(log.exchanges)} requests logged"
            return _wire_from_exchange(log.exchanges[0]), None
        before = len(recorder.records)
        case.call(**kwargs)
        if len(recorder.records) != before + 1:
            return None, f"{len(recorder.records) - before} requests recorded"
        return recorder.records[-1], None
    except Exception as exc:  # noqa: BLE001 - nothing was sent: nothing to judge
        return None, f"{type(exc).__name__}: {str(exc)[:160]}"


# ----------------------------------------------------------------------------------------------------------------- oracle


def _template_regex(template: str) -> tuple[re.Pattern, list[str]]:
    names = re.findall(r"\{([^}]+)\}", template)
    pattern = ""
    pos = 0
    for m in re.finditer(r"\{([^}]+)\}", template):
        pattern += re.escape(template[pos:m.start()]) + "([^/]*)"
        pos = m.end()
    pattern += re.escape(template[pos:])
    return re.compile("^" + pattern + "$"), names


_EMPTY_REASONS = {"empty_path_segment", "shape_differs_from_declared_type", "empty_array_vs_empty_string_vs_absent",
                  "empty_object_vs_empty_string_vs_absent", "array_of_empty_strings_vs_empty_string", "nested_value_in_flat_style"}


def _some_path_value_is_empty(expect: Expect, path_values: dict) -> bool:
    """Does a path value fall under an exemption that leaves its segment empty or undefined (see the module docstring)?"""
    for p in expect.params:
        if p.location != "path" or p.name not in path_values:
            continue
        value = path_values[p.name]
        reason = S.ambiguity(value, "path", "collection" if p.spec == "2.0" else p.style, p.explode, p.kind,
                             p.cf if p.spec == "2.0" else None, p.json_content)
        if reason in _EMPTY_REASONS or (value is None and p.style in ("label", "matrix")):
            return True
    return False


def _shared_segment_literal(template: str) -> str | None:
    """The literal text between two variables of one path segment (`/{a}-{b}` -> '-'), None when no segment has two."""
    for segment in template.split("/"):
        m = re.search(r"\}([^{}]*)\{", segment)
        if m:
            return m.group(1)
    return None


def _leaf_py(expected: Any, got: Any) -> bool:
    """String coercion as C01 reads it: besides the JSON spelling, Python's str() of a boolean/None ('True', 'False', 'None')."""
    return S.leaf_matches(expected, got) or ((isinstance(expected, bool) or expected is None) and got == str(expected))


def _matches_py(expected: Any, reading: Any) -> bool:
    if reading is S.ABSENT or reading is None:
        return False
    if isinstance(expected, (list, tuple)):
        return isinstance(reading, list) and len(reading) == len(expected) and all(_leaf_py(e, r) for e, r in zip(expected, reading))
    if isinstance(expected, dict):
        return (isinstance(reading, dict) and set(reading) == {str(k) for k in expected}
                and all(_leaf_py(v, reading[str(k)]) for k, v in expected.items()))
    return _leaf_py(expected, reading)


def recovered(expected: Any, readings: list) -> str | None:
    """'exact' (JSON spelling), 'python' (only with True/False/None read as booleans/null) or None."""
    if S.any_matches(expected, readings):
        return "exact"
    if any(_matches_py(expected, r) for r in readings):
        return "python"
    return None


def _space_as_plus(value: Any) -> Any:
    if isinstance(value, str):
        return value.replace(" ", "+")
    if isinstance(value, (list, tuple)):
        return [_space_as_plus(v) for v in value]
    if isinstance(value, dict):
        return {k: _space_as_plus(v) for k, v in value.items()}
    return value


def _loosely_equal(a: Any, b: Any) -> bool:
    """Same structure; leaves equal up to JSON or Python spelling (used only to *name* a cause, never to accept)."""
    if isinstance(a, (list, tuple)) and isinstance(b, (list, tuple)):
        return len(a) == len(b) and all(_loosely_equal(x, y) for x, y in zip(a, b))
    if isinstance(a, dict) and isinstance(b, dict):
        return set(map(str, a)) == set(map(str, b)) and all(_loosely_equal(v, b.get(k, b.get(str(k)))) for k, v in a.items())
    if isinstance(a, (list, tuple, dict)) or isinstance(b, (list, tuple, dict)):
        return False
    return S.canonical(a) == S.canonical(b) or str(a) == str(b) or S.canonical(a) == str(b) or str(a) == S.canonical(b)


def _json_spelled(value: Any) -> Any:
    if isinstance(value, bool) or value is None:
        return S.canonical(value)
    if isinstance(value, (list, tuple)):
        return [_json_spelled(v) for v in value]
    if isinstance(value, dict):
        return {k: _json_spelled(v) for k, v in value.items()}
    return value


def is_python_repr(text: str | None, expected: Any, truncated: bool = False) -> bool:
    """Is ``text`` Python's ``str()`` of the list/dict ``expected`` (e.g. "['a']", "{'a': 'x'}")?

    ``truncated``: the text may have lost everything from the first '#' or '?' on (a client drops the fragment).
    """
    if text is None or not isinstance(expected, (list, tuple, dict)):
        return False
    text = text.strip()
    opening, closing = ("{", "}") if isinstance(expected, dict) else ("[", "]")
    if truncated and len(text) >= 2 and text.startswith(opening) and not text.endswith(closing):
        return any(str(v).startswith(text) for v in (expected, _json_spelled(expected)))
    if not (text.startswith(opening) and text.endswith(closing)):
        return False
    try:
        value = ast.literal_eval(text)
    except (ValueError, SyntaxError, MemoryError, RecursionError):
        return True  # bracketed text that no style produces; the brackets themselves are the fact
    return _loosely_equal(expected, value) or isinstance(value, type(expected) if not isinstance(expected, tuple) else list)


def raw_text(p: Param, wire: Wire, raw_segment: str | None) -> str | None:
    """The decoded text that stands for parameter ``p`` on the wire (diagnosis only)."""
    if p.location == "path":
        return S._safe(S.pct_decode, raw_segment) if raw_segment is not None else None
    if p.location == "header":
        return wire.header(p.name)
    if p.location == "cookie":
        cookie = wire.header("Cookie")
        mine = [v for k, v in S.parse_cookie_header(cookie or "") if k == p.name]
        return mine[0] if len(mine) == 1 else None
    pairs = S.split_query(wire.raw_query if p.location == "query" else wire.body.decode("latin-1"))
    mine = [v for k, v in pairs if S._safe(S.form_decode, k) == p.name]
    return S._safe(S.form_decode, mine[0]) if len(mine) == 1 else None


def diagnose(p: Param, expected: Any, readings: list, wire: Wire, raw_segment: str | None) -> str:
    """Names the way in which the wire form differs - facts for the violation signature."""
    real = [r for r in readings if r is not S.ABSENT]
    text = raw_text(p, wire, raw_segment)
    if not p.json_content and is_python_repr(text, expected):
        return "python_repr_of_container"
    if readings and not real:
        return "absent_on_wire"
    if p.json_content:
        if p.location == "path" and raw_segment is not None and "+" in raw_segment:
            alt = S._safe(S.pct_decode, raw_segment.replace("+", "%20"))
            if alt is not None and any(S.json_equal(expected, r) for r in S.decode_json_content(alt)):
                return "space_sent_as_plus"
        return "json_document_differs"
    if p.location == "path" and raw_segment is not None:
        # which of {'+' read as space, ";name=" put back} make the value come back? fewest first
        best: list[str] | None = None
        for plus in (False, True):
            if plus and "+" not in raw_segment:
                continue
            segment = raw_segment.replace("+", "%20") if plus else raw_segment
            for matrix in (False, True):
                if matrix and not (p.style == "matrix" and p.kind != "primitive"):
                    continue
                try:
                    if matrix:
                        decoded = S._safe(S.pct_decode, segment)
                        if decoded is None or not decoded.startswith(";"):
                            continue
                        alt = S._matrix(";" + p.name + "=" + decoded[1:], p.name, p.kind, S.effective("path", p.style, p.explode)[1],
                                        lambda x: x, lambda x: x)
                    else:
                        alt = decode_param(p, wire, segment)
                except S.Undefined:
                    continue
                alt = [r for r in alt if r is not None and r is not S.ABSENT]
                flags = (["space_sent_as_plus"] if plus else []) + (["matrix_without_parameter_name"] if matrix else [])
                if flags and recovered(expected, alt) and (best is None or len(flags) < len(best)):
                    best = flags
        if best:
            return "+".join(best)
        if raw_segment == "" and p.kind == "primitive" and not isinstance(expected, str) and not expected:
            return "falsy_value_sent_as_empty"
        if isinstance(expected, str):
            if expected in (".", ".."):
                return "dot_segment_resolved"
            once = S._safe(S.pct_decode, expected)
            if once is not None and once != expected and once in real:
                return "value_treated_as_already_percent_encoded"
    if not real:
        return "not_decodable_in_declared_style"
    return "different_value"


def decode_param(p: Param, wire: Wire, raw_segment: str | None) -> list:
    if p.location == "path":
        if raw_segment is None:
            return []
        if p.json_content:
            text = S._safe(S.pct_decode, raw_segment)
            return S.decode_json_content(text) if text is not None else []
        if p.spec == "2.0":
            return S.decode_collection("path", raw_segment, p.name, p.cf, p.kind)
        return S.decode_path(raw_segment, p.name, p.style, p.explode, p.kind)
    if p.location == "query":
        pairs = S.split_query(wire.raw_query)
        if p.json_content:
            mine = [v for k, v in pairs if S._safe(S.form_decode, k) == p.name]
            if not mine:
                return [S.ABSENT]
            text = S._safe(S.form_decode, mine[0])
            return S.decode_json_content(text) if len(mine) == 1 and text is not None else []
        if p.spec == "2.0":
            return S.decode_collection("query", pairs, p.name, p.cf, p.kind)
        return S.decode_query(pairs, p.name, p.style, p.explode, p.kind, p.properties)
    if p.location == "header":
        value = wire.header(p.name)
        if p.json_content:
            return S.decode_json_content(value)
        if p.spec == "2.0":
            return S.decode_collection("header", value, p.name, p.cf, p.kind)
        return S.decode_header(value, p.explode, p.kind)
    if p.location == "cookie":
        cookie = wire.header("Cookie")
        pairs = S.parse_cookie_header(cookie) if cookie is not None else []
        if p.json_content:
            mine = [v for k, v in pairs if k == p.name]
            if not mine:
                return [S.ABSENT]
            out = S.decode_json_content(mine[0])
            text = S._safe(S.pct_decode, mine[0])
            if text is not None:
                out += S.decode_json_content(text)
            return out
        return S.decode_cookie(pairs, p.name, p.explode, p.kind)
    if p.location == "formData":
        pairs = S.split_query(wire.body.decode("latin-1"))
        return S.decode_collection("formData", pairs, p.name, p.cf, p.kind)
    raise ValueError(p.location)


def allowed_query_names(p: Param) -> set[str]:
    names = {p.name}
    if p.kind == "object" and not p.json_content:
        names |= set(p.properties)
    return names


def _flatten_form(body: Any) -> list | None:
    """case.body of an urlencoded request -> [(name, primitive)] or None when the form cannot express it."""
    pairs = []
    if isinstance(body, dict):
        entries = list(body.items())
    elif isinstance(body, (list, tuple)) and all(isinstance(e, (list, tuple)) and len(e) == 2 for e in body):
        entries = [tuple(e) for e in body]
    else:
        return None
    for k, v in entries:
        if not isinstance(k, str):
            return None
        vs = v if isinstance(v, (list, tuple)) else [v]
        for x in vs:
            if x is None or isinstance(x, (dict, list, tuple)):
                return None
            pairs.append((k, x))
    return pairs


def judge(res: Result, item: dict, expect: Expect, case: Any, captured: dict, wire: Wire, phase: str,
          detail_base: dict) -> None:
    """Compares one logged request with the case that produced it."""
    from schemathesis.core import NOT_SET

    base_sig = {"phase": phase, "transport": wire.transport, "spec": expect.spec}
    detail = {**detail_base, "wire": wire.as_json(), "captured": captured, "case": common.summarize_case(case)}
    compared = 0

    found: list[tuple[dict, dict]] = []

    def violation(sig: dict, extra: dict | None = None) -> None:
        found.append(({**base_sig, **sig}, {**detail, **(extra or {})}))

    # ---- U: URL
    if wire.transport == "requests":
        prefix = expect.prefix
        target = wire.origin + wire.raw_path
    else:
        prefix = expect.base_path
        target = wire.raw_path
    if wire.method != case.method.upper():
        violation({"kind": "method_differs"})
    regex, names = _template_regex(expect.template)
    raw_segments: dict[str, str] = {}
    handled: set[str] = set()  # parameters already reported / exempted: their consequences are not reported again
    exempt_cookie = False
    path_values = captured.get("path") if isinstance(captured.get("path"), dict) else {}
    if not target.startswith(prefix + "/") and target != prefix:
        violation({"kind": "url_base_mismatch", **expect.facts}, {"expected_prefix": prefix})
    else:
        rest = target[len(prefix):]
        # a list/dict that went into the template as Python's str(): '?', '#', '/' inside it then cut the URL apart,
        # which is one fact, not four
        for p in expect.params:
            if p.location != "path" or not isinstance(path_values.get(p.name), (list, dict)) or p.json_content:
                continue
            full = rest + ("?" + wire.raw_query if wire.raw_query else "") + ("#" + wire.fragment if wire.fragment else "")
            before, _, after = expect.template.partition("{" + p.name + "}")
            text = S._safe(S.pct_decode, full)
            if text is not None and text.startswith(before) and (not after or text.endswith(after)):
                text = text[len(before): len(text) - len(after) if after else None]
                cut = wire.transport != "requests" and any(ch in x for x in common.all_strings(path_values[p.name]) for ch in "#?")
                if is_python_repr(text, path_values[p.name], truncated=cut) and S.ambiguity(path_values[p.name], "path", p.style, p.explode, p.kind) in (
                        None, "item_contains_style_delimiter"):
                    compared += 1
                    res.count("compared:path")
                    violation({"kind": "parameter_not_recovered", "cause": "python_repr_of_container", **p.facts()},
                              {"expected": path_values[p.name], "text": text})
                    handled.add(p.name)
        m = regex.match(rest)
        if handled:
            pass
        elif m is None and len(names) > 1 and _some_path_value_is_empty(expect, path_values):
            # round 2: an empty value has no segment of its own ("/t//0" is "/t/0" after URL joining): the documented exemption
            # for an empty path value, met in a template with further variables
            res.count("trivial:empty_path_value_among_several_variables")
            handled |= set(names)
        elif m is None:
            facts = dict(expect.facts)
            # which structural fact is broken?
            want = expect.template.count("/")
            got = rest.count("/")
            facts["segments"] = "fewer" if got < want else "more" if got > want else "same_count_other_literal"
            violation({"kind": "url_path_structure_differs", **facts}, {"expected_template": prefix + expect.template})
        else:
            raw_segments = dict(zip(names, m.groups()))
            if len(set(names)) < len(names):
                # round 2: a variable used twice stands for one value: every occurrence carries the same text
                res.count("compared:path_variable_used_twice")
                for name in sorted(set(names)):
                    if len({g for k, g in zip(names, m.groups()) if k == name}) > 1:
                        violation({"kind": "path_variable_occurrences_differ", **expect.facts}, {"expected_template": prefix + expect.template})
                        handled.add(name)
            literal = _shared_segment_literal(expect.template)
            if literal is not None:
                # round 2: `/{a}-{b}`: the split is unique only while no value contains the literal between the variables
                if any(literal in str(x) for v in path_values.values() for x in common_leaves(v)):
                    res.count("trivial:value_contains_template_literal")
                    handled |= set(names)
                else:
                    res.count("compared:two_variables_in_one_segment")
    if wire.fragment and not handled:
        violation({"kind": "url_has_fragment", **expect.facts})
    for seg in wire.raw_path.split("/"):
        if seg in (".", ".."):
            violation({"kind": "raw_dot_segment", "segment": seg, **expect.facts})
            break

    # ---- Q: parameters
    by_location: dict[str, list[Param]] = {}
    for p in expect.params:
        by_location.setdefault(p.location, []).append(p)
    extra_query_names: set[str] = set()
    compared_by_location: dict[str, int] = {}
    # several cookies share one header: a value that a cookie cannot carry (`;`, `,`, white space, non-ASCII ...) makes the
    # whole header ambiguous, also for the cookies next to it (whatever the order in which they are judged)
    cookie_container = captured.get("cookie")
    cookie_header_ambiguous = isinstance(cookie_container, dict) and any(
        ch in S._COOKIE_FORBIDDEN or ord(ch) > 0x7E for v in cookie_container.values() for text in common.all_strings(v) for ch in text)
    for p in expect.params:
        if p.name in handled and p.location == "path":
            continue
        container = captured.get(p.location)
        if p.location == "formData":
            container = case.body if isinstance(case.body, dict) else None
        if not isinstance(container, dict) or p.name not in container:
            if p.location == "path" and phase == "fuzzing":
                violation({"kind": "path_parameter_not_captured", **p.facts()})
            continue  # absent parameters are covered by the "nothing else" checks below
        expected = container[p.name]
        if p.location == "query" and isinstance(expected, dict):
            extra_query_names |= {str(k) for k in expected}
        reason = S.ambiguity(expected, p.location, "collection" if p.spec == "2.0" else p.style, p.explode, p.kind,
                             p.cf if p.spec == "2.0" else None, p.json_content)
        if reason is None and p.location == "cookie" and cookie_header_ambiguous and len(by_location.get("cookie", [])) > 1:
            reason = "value_a_cookie_cannot_carry"  # held by a sibling cookie of the same header
        if reason is None and p.json_content and p.location == "cookie" and any(
                ch in S._COOKIE_FORBIDDEN or ord(ch) > 0x7E for ch in json.dumps(expected)):
            reason = "value_a_cookie_cannot_carry"
        if reason is None and expected is None and p.location == "path" and p.style in ("label", "matrix"):
            reason = "null_is_an_undefined_variable_in_rfc6570"  # {.p} / {;p} of an undefined variable expand to nothing
        if reason is None and wire.transport == "asgi" and p.location == "path" and ";" not in wire.raw_path and \
                "%3b" not in wire.raw_path.lower() and any(";" in x for x in common.all_strings(expected)):
            reason = "asgi_test_client_drops_path_params"  # it splits ";params" off the last segment (urlparse): environment
        if reason is None and p.location == "formData" and any(s is None for s in common_leaves(expected)):
            reason = "null_in_urlencoded_form"
        if reason is None and wire.transport == "asgi" and p.location == "header" and wire.header(p.name) is None and \
                any(k.lower() == p.name.lower() for k, _ in wire.headers):
            reason = "non_ascii_header_on_asgi_client"
        if reason is None and wire.transport == "asgi" and p.location == "cookie" and wire.header("Cookie") is None and \
                any(k.lower() == "cookie" for k, _ in wire.headers):
            reason = "non_ascii_header_on_asgi_client"  # round 2: another cookie of the same header holds the non-ASCII bytes
        if reason == "empty_array_vs_empty_string_vs_absent" and p.location == "query" and not p.json_content and (
                p.cf == "multi" if p.spec == "2.0" else S.effective("query", p.style, p.explode) == ("form", True)):
            # one pair per item: no item, no pair.  `p=` is the one-item array [""], which the empty array is not
            mine = [v for k, v in S.split_query(wire.raw_query) if S._safe(S.form_decode, k) == p.name]
            res.count("compared:empty_exploded_query_array")
            if mine:
                violation({"kind": "empty_exploded_array_sent_as_items", **p.facts()}, {"expected": expected, "raw_query": wire.raw_query})
        if reason is not None:
            res.count("trivial:" + reason)
            if p.location == "cookie":
                exempt_cookie = True
            continue
        raw_segment = raw_segments.get(p.name) if p.location == "path" else None
        if p.location == "path" and raw_segment is None:
            continue  # already reported as a structure violation
        if isinstance(expected, dict) and p.kind == "object":
            # additional properties of an exploded object are ordinary names on the wire: the decoder has to be told them
            p = replace(p, properties=sorted(set(p.properties) | {str(k) for k in expected}))
        try:
            readings = decode_param(p, wire, raw_segment)
        except S.Undefined:
            res.count("trivial:undefined_combination")
            continue
        compared += 1
        res.count(f"compared:{p.location}")
        compared_by_location[p.location] = compared_by_location.get(p.location, 0) + 1
        if compared_by_location[p.location] == 2:
            res.count("round2:two_parameters_of_one_location_compared")
        if p.json_content:
            ok = any(S.json_equal(expected, r) for r in readings if r is not S.ABSENT)
        else:
            how = recovered(expected, readings)
            ok = how is not None
            if how == "python":
                res.count("trivial:python_spelling")  # 'True'/'False'/'None' are string coercions too (as in C01)
        if not ok:
            facts = p.facts()
            if phase == "coverage" and set(container) - {q.name for q in by_location.get(p.location, [])} - (
                    set(expected) if isinstance(expected, dict) else set()):
                facts["container_has_undeclared_names"] = True  # the template handed over was already modified
            violation({"kind": "parameter_not_recovered", "cause": diagnose(p, expected, readings, wire, raw_segment), **facts},
                      {"expected": expected, "readings": [repr(r) if r is S.ABSENT else r for r in readings]})
    # nothing else in the query string
    allowed_q: set[str] = set()
    for p in by_location.get("query", []):
        allowed_q |= allowed_query_names(p)
    allowed_q |= extra_query_names | set(expect.configured_params)
    generated_cookie_names: set[str] = set()
    if phase == "coverage":
        # round 2: a coverage case may hold a name nobody declared (the "unknown parameter" scenario): it is part of the
        # generated case, hence not "something else"
        if isinstance(captured.get("query"), dict):
            allowed_q |= {str(k) for k in captured["query"]}
        if isinstance(captured.get("cookie"), dict):
            generated_cookie_names = {str(k) for k in captured["cookie"]}
    for k, v in expect.configured_params.items():
        if (k, v) not in [(S._safe(S.form_decode, a), S._safe(S.form_decode, b)) for a, b in S.split_query(wire.raw_query)]:
            res.count(f"configured_query_parameter_not_sent:{wire.transport}")  # C14's subject, not C06's: counted only
    for k, _ in S.split_query(wire.raw_query):
        name = S._safe(S.form_decode, k)
        if name is None:
            violation({"kind": "undecodable_query_name", **expect.facts})
            continue
        bare = name.split("[", 1)[0]
        if handled:
            break
        if name not in allowed_q and not (bare in allowed_q and name.endswith("]")):
            violation({"kind": "unexpected_query_parameter", **expect.facts}, {"name": name})
            break
    # nothing else among the headers
    generated = {k.lower() for k in (case.headers or {})}
    configured = {k.lower() for k in expect.configured_headers}
    for k, v in wire.headers:
        low = k.lower()
        if low in STANDARD_HEADERS or low == CASE_ID or low in generated or low in configured:
            continue
        if low == "cookie" and (case.cookies or expect.configured_cookies):
            continue
        violation({"kind": "unexpected_header", "name": low, **expect.facts})
    for k, v in expect.configured_headers.items():
        if wire.header(k) != v:
            res.count(f"configured_header_not_sent:{wire.transport}")
    if wire.header(CASE_ID) is None:
        res.count("no_case_id_header")
    cookie = wire.header("Cookie")
    for k, v in expect.configured_cookies.items():
        if (k, v) not in S.parse_cookie_header(cookie or ""):
            res.count(f"configured_cookie_not_sent:{wire.transport}")
    if cookie is not None and not exempt_cookie:
        allowed_c = {p.name for p in by_location.get("cookie", [])} | set(expect.configured_cookies) | generated_cookie_names
        for k, _ in S.parse_cookie_header(cookie):
            if k not in allowed_c:
                violation({"kind": "unexpected_cookie", **expect.facts}, {"name": k})
                break

    # ---- B: body
    content_type = wire.header("Content-Type")
    form_params = by_location.get("formData", [])
    if case.body is NOT_SET:
        if item["kind"] == "body2":
            res.count("round2:case_without_body_of_optional_body")
        if wire.body:
            violation({"kind": "body_sent_without_case_body", **expect.facts})
        if content_type is not None:
            violation({"kind": "content_type_without_body", **expect.facts})
    else:
        mt = case.media_type
        facts = {"media_type": mt, **{k: v for k, v in expect.facts.items() if k in ("type", "location")}}
        if mt is None:
            res.count("trivial:body_without_media_type")
        else:
            main = mt.split(";")[0].strip().lower()
            if item["kind"] == "body2":
                if len(item["content"]) > 1 and mt == item["content"][1][0]:
                    res.count("round2:second_declared_media_type_sent")
                if ";" in mt:
                    res.count("round2:media_type_with_parameter_sent")
            if main == "multipart/form-data":
                if content_type is None or not re.match(r"^multipart/form-data; ?boundary=.+$", content_type):
                    violation({"kind": "content_type_differs", **facts}, {"content_type": content_type})
                else:
                    res.count("compared:content_type")
                res.count("trivial:multipart_body_not_decoded")
            else:
                if content_type != mt:
                    violation({"kind": "content_type_differs", **facts}, {"content_type": content_type})
                else:
                    res.count("compared:content_type")
                if main in ("application/json", "text/json") or main.endswith("+json"):
                    compared += 1
                    res.count("compared:body_json")
                    try:
                        got = json.loads(wire.body.decode("utf-8"))
                    except ValueError:
                        violation({"kind": "body_not_roundtrip", "cause": "not_json", **facts})
                    else:
                        if not S.json_equal(case.body, got):
                            violation({"kind": "body_not_roundtrip", "cause": "different_document", **facts}, {"decoded": got})
                elif main == "application/x-www-form-urlencoded":
                    want = _flatten_form(case.body)
                    if want is None:
                        res.count("trivial:form_body_with_null_or_nested_value")
                    elif not form_params:
                        compared += 1
                        res.count("compared:body_form")
                        got_pairs = []
                        bad = False
                        for k, v in S.split_query(wire.body.decode("latin-1")):
                            dk, dv = S._safe(S.form_decode, k), S._safe(S.form_decode, v)
                            if dk is None or dv is None:
                                bad = True
                                break
                            got_pairs.append((dk, dv))
                        ok = not bad and len(got_pairs) == len(want)
                        if ok:
                            # same multiset of pairs up to string coercion; order among different names is free
                            remaining = list(got_pairs)
                            via_python = False
                            for k, v in want:
                                hit = next((i for i, (gk, gv) in enumerate(remaining) if gk == k and S.leaf_matches(v, gv)), None)
                                if hit is None:
                                    hit = next((i for i, (gk, gv) in enumerate(remaining) if gk == k and _leaf_py(v, gv)), None)
                                    via_python = via_python or hit is not None
                                if hit is None:
                                    ok = False
                                    break
                                remaining.pop(hit)
                            if ok and via_python:
                                res.count("trivial:python_spelling")
                        if not ok:
                            violation({"kind": "body_not_roundtrip", "cause": "different_pairs", **facts}, {"decoded": got_pairs})
                elif main == "text/plain" and not isinstance(case.body, (str, bytes)):
                    res.count("trivial:text_body_that_is_not_text")
                elif main == "text/plain":
                    compared += 1
                    res.count("compared:body_text")
                    try:
                        got_text = wire.body.decode("utf-8")
                    except UnicodeDecodeError:
                        violation({"kind": "body_not_roundtrip", "cause": "not_utf8", **facts})
                    else:
                        same = wire.body == case.body if isinstance(case.body, bytes) else got_text == case.body
                        if not same:
                            violation({"kind": "body_not_roundtrip", "cause": "different_text", **facts}, {"decoded": got_text})
                else:
                    res.count("trivial:media_type_outside_property")

    # a path value holding '/', '?' or '#' that was not escaped cuts the URL apart: the consequences (extra segment,
    # fragment, query parameters that nobody generated, value not recovered) are one fact, reported once
    url_kinds = {"url_path_structure_differs", "url_has_fragment", "unexpected_query_parameter", "undecodable_query_name"}
    for p in expect.params:
        value = path_values.get(p.name) if p.location == "path" else None
        if not isinstance(value, str) or p.json_content:
            continue
        chars = [name for ch, name in (("/", "slash"), ("?", "question_mark"), ("#", "hash")) if ch in value]
        hit = [v for v in found if v[0]["kind"] in url_kinds or (v[0]["kind"] == "parameter_not_recovered" and v[0].get("location") == "path"
                                                                  and v[0].get("cause") in ("different_value", "not_decodable_in_declared_style",
                                                                                            "absent_on_wire", "dot_segment_resolved"))]
        first = min((value.index(ch) for ch in "/?#" if ch in value), default=None)
        seen_text = S._safe(S.pct_decode, raw_segments[p.name]) if p.name in raw_segments else None
        evidence = any(v[0]["kind"] in url_kinds for v in hit) or (first is not None and seen_text == value[:first])
        if chars and hit and evidence:
            found = [v for v in found if v not in hit]
            found.append(({**base_sig, "kind": "parameter_not_recovered", "cause": "reserved_character_not_escaped",
                          "characters": "+".join(chars), **p.facts()}, {**hit[0][1], "expected": value}))
        elif value in (".", "..") and hit and not any(v[0]["kind"] == "raw_dot_segment" for v in found):
            found = [v for v in found if v not in hit]
            found.append(({**base_sig, "kind": "parameter_not_recovered", "cause": "dot_segment_resolved", **p.facts()},
                          {**hit[0][1], "expected": value}))
    for sig, det in found:
        res.violation(sig, det)

    res.traces += 1
    res.outcomes.add("judged")
    if compared:
        res.nontriv([item_key(item), phase, wire.key()])
    else:
        res.count("trivial_cases")


def common_leaves(value: Any) -> list:
    if isinstance(value, (list, tuple)):
        return [x for v in value for x in common_leaves(v)]
    if isinstance(value, dict):
        return [x for v in value.values() for x in common_leaves(v)]
    return [value]


def item_key(item: dict) -> list:
    return [item.get(k) for k in ("kind", "spec", "loc", "style", "explode", "cf", "type", "json", "media_type", "template", "mode",
                                  "base", "servers")] + ([item["tag"], item.get("configured")] if "tag" in item else [])


# ----------------------------------------------------------------------------------------------------------------- driver


def _load(doc: dict, cfg: dict, app: Any = None) -> Any:
    import schemathesis

    schema = schemathesis.openapi.from_dict(copy.deepcopy(doc))
    kwargs = dict(cfg)
    if app is not None:
        kwargs["app"] = app
        if "location" in kwargs:
            kwargs["location"] = "/openapi.json"
    return schema.configure(**kwargs)


def _transports_for(item: dict, tier: str) -> list[str]:
    return list(item["transports"])


def check_item(item: dict, tier: str) -> Result:
    from schemathesis.generation import GenerationConfig, GenerationMode

    res = Result()
    doc, expect, cfg = build(item)
    d = BOUNDS[tier]["d"]
    cap_n = BOUNDS[tier]["max_exec_per_tree"]
    for transport in _transports_for(item, tier):
        common.reset_schemathesis_caches()
        recorder = WsgiRecorder() if transport == "wsgi" else AsgiRecorder() if transport == "asgi" else None
        schema = _load(doc, cfg, recorder)
        operation = schema[expect.template][expect.method.upper()]
        capture = Capture(operation)
        config = GenerationConfig(modes=[GenerationMode.POSITIVE])
        headers = expect.configured_headers or None

        def run_case(case: Any, phase: str, info: dict) -> None:
            captured = copy.deepcopy(capture.values)
            wire, error = send(case, transport, recorder, headers, expect.configured_params, expect.configured_cookies,
                               expect.call_kwargs)
            res.evaluations += 1
            if item.get("repeat") and info.get("rotation", 0) == item["rotations"][0] and (
                    tier != "quick" or (phase != "coverage" and (transport == "requests" or item["kind"] != "base"))):
                send_again(res, item, expect, case, wire, transport, recorder, headers, phase, info)
            if wire is None:
                res.count("not_sent")
                res.count("not_sent:" + (error or "").split(":")[0])
                res.outcomes.add("not_sent")
                if len(res.samples) < 2:
                    res.samples.append({"not_sent": error, "case": common.summarize_case(case), **info})
                return
            judge(res, item, expect, case, captured, wire, phase, info)
            if len(res.samples) < 2 and captured:
                res.samples.append({"item": item_key(item), "phase": phase, "captured": captured, "wire": wire.as_json()})

        # -- fuzzing phase: the real strategy under E1, once per rotation of the alphabet
        strategies = [("fuzzing", operation.as_strategy(generation_mode=GenerationMode.POSITIVE, generation_config=config))]
        if item["kind"] == "examples":
            strategies = [("examples", s) for s in operation.get_strategies_from_examples(generation_config=config)]
            if not strategies:
                res.oracle_errors.append({"error": "no example strategy", "item": item})
        for phase, strategy in strategies:
            for rot in item["rotations"]:
                chars = CHARS[rot:] + CHARS[:rot]
                alphabet = Alphabet(chars=chars, max_extra_len=2)
                stats = Stats()
                it = explore(draw_strategy(strategy), alphabet, d if phase == "fuzzing" else 0, max_executions=cap_n, stats=stats)
                while True:
                    capture.reset()
                    try:
                        ex = next(it)
                    except StopIteration:
                        break
                    res.outcomes.add("draw_" + ex.status)
                    if ex.status != "valid":
                        res.count("draw_" + ex.status)
                        if ex.status == "error":
                            res.count("draw_error:" + type(ex.error).__name__)
                        continue
                    run_case(ex.value, phase, {"choices": ex.choices, "rotation": rot, "item": item_key(item)})
                res.states += stats.nodes
                res.transitions += stats.edges
                if stats.capped:
                    res.exhaustive = False
                    res.count("trees_capped")
                res.count("trees")
        # -- coverage phase (Template._serialize): its pre-serialisation value is the template's kwargs
        if item["kind"] in ("param", "body", "mixed", "multi", "body2") and transport == "requests" and item.get("coverage", True):
            run_coverage(res, item, expect, operation, capture, run_case)
        if capture.lookups == 0 and any(p.location != "formData" for p in expect.params):
            res.oracle_errors.append({"error": "get_parameter_serializer wrapper was never consulted", "item": item})
    return res


def _comparable(wire: Wire) -> list:
    """What two sends of one case have to share: everything but the random multipart boundary."""
    content_type = wire.header("Content-Type") or ""
    multipart = content_type.lower().startswith("multipart/")
    headers = sorted((k.lower(), v) for k, v in wire.headers if k.lower() not in (CASE_ID, "content-length" if multipart else ""))
    if multipart:
        headers = [(k, v.split(";")[0] if k == "content-type" else v) for k, v in headers]
    return [wire.method, wire.origin, wire.raw_path, wire.raw_query, wire.fragment, headers,
            None if multipart else wire.body.decode("latin-1")]


def send_again(res: Result, item: dict, expect: Expect, case: Any, first: Wire | None, transport: str, recorder: Any,
               headers: dict | None, phase: str, info: dict) -> None:
    """Round 2 (the same object used twice): the case is asked for its request in the other ways and sent a second time.

    Serialising a case must not change it: the second request is the first one again.
    """
    for other_access in (lambda: case.as_transport_kwargs(), lambda: case.as_curl_command()):
        try:
            other_access()
        except Exception:  # noqa: BLE001 - C09's subject; here only its effect on the next send counts
            res.count("other_access_raised")
    second, error = send(case, transport, recorder, headers, expect.configured_params, expect.configured_cookies, expect.call_kwargs)
    res.evaluations += 1
    if first is None and second is None:
        return
    res.count("compared:second_send")
    sig = {"phase": phase, "transport": transport, "spec": expect.spec, "kind": "second_send_differs", **expect.facts}
    if first is None or second is None:
        res.violation({**sig, "cause": "sent_once_only"}, {**info, "error": error, "case": common.summarize_case(case)})
        return
    a, b = _comparable(first), _comparable(second)
    if a != b:
        parts = ["method", "origin", "path", "query", "fragment", "headers", "body"]
        res.violation({**sig, "cause": "+".join(name for name, x, y in zip(parts, a, b) if x != y)},
                      {**info, "first": first.as_json(), "second": second.as_json(), "case": common.summarize_case(case)})


def run_coverage(res: Result, item: dict, expect: Expect, operation: Any, capture: Capture, run_case: Any) -> None:
    from schemathesis.generation import GenerationMode
    from schemathesis.generation.hypothesis import builder

    recorded: list[dict] = []
    original = builder.Template._serialize

    def recording(self: Any, kwargs: dict) -> dict:
        recorded.append(copy.deepcopy(kwargs))
        return original(self, kwargs)

    builder.Template._serialize = recording  # type: ignore[method-assign]
    try:
        gen = builder._iter_coverage_cases(operation, [GenerationMode.POSITIVE, GenerationMode.NEGATIVE])
        n = 0
        while True:
            capture.reset()
            recorded.clear()
            try:
                case = next(gen)
            except StopIteration:
                break
            except Exception as exc:  # noqa: BLE001 - the generator itself died: no further case exists to be sent (not C06's subject)
                res.count("coverage_generator_died:" + type(exc).__name__)
                res.outcomes.add("coverage_generator_died")
                if len(res.samples) < 3:
                    res.samples.append({"coverage_generator_died": repr(exc)[:200], "item": item_key(item), "after_cases": n})
                break
            n += 1
            if len(recorded) != 1:
                res.oracle_errors.append({"error": f"{len(recorded)} Template._serialize calls for one coverage case", "item": item})
                break
            pre = recorded[0]
            # translate container names to locations; this is the value before Template._serialize touched it
            capture.values = {loc: pre[cont] for loc, cont in common.CONTAINER.items() if isinstance(pre.get(cont), dict)}
            if case.method.upper() != expect.method.upper():
                res.count("coverage_unspecified_method_cases")
            description = getattr(case.meta.phase.data, "description", "")
            run_case(case, "coverage", {"description": description, "item": item_key(item)})
        res.count("coverage_cases", n)
    finally:
        builder.Template._serialize = original  # type: ignore[method-assign]


def vacuity(total: Result, tier: str) -> list[str]:
    out = []
    c = total.counters
    if total.traces == 0:
        out.append("no request was judged")
    for loc in ("path", "query", "header", "cookie"):
        if not c.get(f"compared:{loc}"):
            out.append(f"no {loc} parameter was decoded and compared")
    for key in ("compared:body_json", "compared:body_form", "compared:body_text", "compared:content_type", "coverage_cases"):
        if not c.get(key):
            out.append(f"counter {key} is zero")
    for key in ("compared:second_send", "compared:path_variable_used_twice", "compared:two_variables_in_one_segment",
                "round2:case_without_body_of_optional_body", "round2:second_declared_media_type_sent",
                "round2:media_type_with_parameter_sent", "round2:two_parameters_of_one_location_compared"):
        if not c.get(key):
            out.append(f"counter {key} is zero (review round 2 dimension not exercised)")
    if not any(k.startswith("trivial:") for k in c):
        out.append("no ambiguous encoding was met (the exemptions were never exercised)")
    if c.get("not_sent", 0) * 5 > total.evaluations:
        out.append(f"{c.get('not_sent')} of {total.evaluations} cases were not sent")
    if len(total.outcomes) < 2:
        out.append("a single outcome class")
    return out
