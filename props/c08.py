"""C08 - every documented operation is offered with its effective parameters, or reported.

E2 enumerates small OpenAPI 3.0 (and, families W, Swagger 2.0) documents (path items x methods x path-/operation-level parameters x references x
request bodies x security x malformed entries x JSON/YAML x one/two files x loaders); E5 enumerates, for each document,
every sequence of accesses up to a depth on a FRESH schema per sequence (the lookups share three caches and one
reference-resolution scope stack).  The oracle is the reference merge of ``oracles/merge.py`` computed from the raw dict.
"""

from __future__ import annotations

import copy
import glob
import itertools
import json
import os
import shutil
import tempfile
from typing import Any

from mc import c08_extra as extra
from mc import c08docs as docs
from mc.runner import Result, digest
from oracles import merge
from props import common

ID = "C08"
LEVEL = "model_checking"
ENGINES = ["E2", "E5"]
RULE = (
    "work item = one OpenAPI document of the grammar (family P: path-level subset of {q,id,h} x <=2 operation-level overrides/"
    "relocations x reference depth 0-2 x 1-2 methods; S: body kinds x security kinds; R: 2 path items x placement inline/"
    "same-file $ref/sibling-file $ref x reference depth x pointer collision; M: one malformed entry per position; Y: one "
    "YAML-sensitive token per position; L: loaders x serialisations; review round 2 - X: the override documents rewritten "
    "(`required: false` left out / fixed fields and extensions next to methods and parameter keywords / `parameters` after the "
    "methods / reversed lists / operationId on one operation only / one path-level name in two locations); S2: security schemes "
    "behind $ref x requirement shapes; C: both orders of the two path items x all placements, three files, inline path items whose "
    "parameters live in the other file with nested local references, path item $ref chain of two; W: Swagger 2.0 body/formData "
    "at path and operation level x consumes global/operation/empty x securityDefinitions; E: paths needing ~0/~1 escapes and the "
    "percent-encoded reference spelling) x a loader; for each, EVERY access history up to the "
    "depth over {iterate all, schema[path][METHOD], get_operation_by_id, get_operation_by_reference} per documented operation "
    "is replayed on a fresh schema and the result of its last access is compared with the reference merge; distinct = distinct "
    "(document, loader, history); non-trivial = the last access concerns a documented operation and was judged"
)
BOUNDS = {
    "quick": {"depth_P": 2, "depth_S": 2, "depth_R": 3, "depth_M": 2, "depth_Y": 1, "depth_L": 1, "own_codes": 8, "max_own": 2,
              "ref_depth": 2, "path_items": 2, "methods_per_item": 2,
              "depth_X": 2, "depth_C": 2, "depth_W": 2, "depth_E": 2, "files": 3, "path_item_ref_chain": 2},
    "thorough": {"depth_P": 3, "depth_S": 3, "depth_R": 4, "depth_M": 3, "depth_Y": 2, "depth_L": 2, "own_codes": 10, "max_own": 2,
                 "ref_depth": 2, "path_items": 2, "methods_per_item": 2,
                 "depth_X": 3, "depth_C": 3, "depth_W": 3, "depth_E": 3, "files": 3, "path_item_ref_chain": 2},
}
BUDGET_S = {"quick": 150, "thorough": 3000}
CHUNK = 4
TECHNIQUE = (
    "small-scope enumeration of OpenAPI documents (own grammar, own YAML emitter) x explicit-state breadth-first enumeration of "
    "access histories on fresh real schema objects, judged by an independent reference merge with its own JSON-pointer walker"
)
LEVEL_TEXT = (
    "Within the stated grammar every document, and for each document every access history up to the stated depth, is executed "
    "on the real loaders, resolver and caches; nothing is sampled. The verdict for each access is computed from the raw "
    "document by independent code."
)
LEVEL_NOTE = (
    "Trusted: oracles/merge.py (OAS 3.0 merge rules, RFC 6901 walker), mc/c08docs.py (grammar, YAML emitter, self-checked with "
    "PyYAML's resolver-free BaseLoader), mc/c08_extra.py (document rewrites; Swagger 2.0 grammar and its reference merge written "
    "from the OpenAPI 2.0 text). Not covered: `content`-style parameters, remote (http) references, Swagger 2.0 multi-file "
    "layouts, filtered (include/exclude) schemas, histories deeper than the bound, concurrent access (C13b)."
)
ASSUMPTIONS = [
    "OpenAPI 3.0 and Swagger 2.0 documents; parameter schemas are flat keyword sets (type/enum/example) so that JSON-Schema conversion is the identity",
    "Swagger 2.0: where neither the operation nor the document gives a non-empty `consumes`, the payload is expected under whatever "
    "media types the implementation chose (at least one); the joined formData payload is compared by field names, field schemas and "
    "the set of required fields (the container has no `required` flag of its own in the 2.0 text)",
    "requirement objects are read as the first version did (every scheme named in any requirement is active); alternatives "
    "(`[{a: []}, {b: []}]`) are not enumerated because the property does not say which of them is offered",
    "the effective non-body definition of an operation is read through the real parameters_to_json_schema(operation, container) "
    "(the function data generation uses); body alternatives are read from operation.body",
    "security parameters are compared by (name, location, required) only - their value schema is the implementation's choice",
    "recursive schemas are compared up to 3 reference expansions per branch; deeper structure is not claimed",
    "lookups of malformed operations, by-reference lookups of operations whose path item is behind $ref (no JSON pointer "
    "reaches them without following a reference) and Python object identity of looked-up operations are not judged",
    "a well-formed operation reported as Err carrying its path is accepted (the property is a disjunction) and counted",
    "bare `12:30:00`-style scalars are YAML 1.1 base-60 integers; the property names dates only, so they are counted, not judged",
    "distinct_nontrivial hashes at most 3000 judged cases per document (memory); further judged cases are counted in judged_cases_not_hashed",
]

CONTAINERS = (("path", "path_parameters"), ("query", "query"), ("header", "headers"), ("cookie", "cookies"))
TMP_PREFIX = "verif-c08-"

KEY_TOKENS = ["200", "404", "on", "off", "yes", "no", "true", "false", "y", "n", "null", "~", "1.5", "0x10", "010", "1_000", "1e3",
              "2020-01-01", "2020-01-01T10:00:00Z", "12:30:00"]
SCALAR_TOKENS = ["2020-01-01", "2020-01-01T10:00:00Z", "2020-01-01 10:00:00", "2001-12-14t21:59:43.10-05:00", "12:30:00"]


# ---------------------------------------------------------------------------------------------------------------
# E2: items


def _own_lists(codes: list[str], max_own: int, shared: list[str]) -> list[list[str]]:
    out: list[list[str]] = [[]]
    for n in range(1, max_own + 1):
        for combo in itertools.combinations(codes, n):
            defs = [docs.pdef(c) for c in combo]
            if len({(d["name"], d["in"]) for d in defs}) != len(defs):
                continue
            if any(c.startswith("id!") for c in combo) and "id" not in shared:
                continue
            out.append(list(combo))
    return out


def _family_p(tier: str) -> list[dict]:
    b = BOUNDS[tier]
    codes = docs.OWN_CODES_QUICK if tier == "quick" else docs.OWN_CODES_THOROUGH
    ref_forms = [(0, 0), (1, 0), (2, 0), (0, 1), (0, 2), (1, 1)]
    if tier == "thorough":
        ref_forms += [(2, 2), (1, 2), (2, 1)]
    out = []
    for n in range(0, 4):
        for shared in itertools.combinations(["q", "id", "h"], n):
            shared = list(shared)
            path = "/a/{id}" if "id" in shared else "/a"
            for own in _own_lists(codes, b["max_own"], shared):
                for sref, oref in ref_forms:
                    if (sref and not shared) or (oref and not own):
                        continue
                    for methods in (["get"], ["get", "post"]):
                        if methods == ["get", "post"] and not shared:
                            continue  # the sibling method shows that an override does not leak: needs path-level parameters
                        if methods == ["get", "post"] and tier == "quick" and (sref, oref) not in ((0, 0), (1, 1), (2, 0), (0, 2)):
                            continue
                        ops = [{"method": "get", "own": own, "own_ref": oref}] + [{"method": m} for m in methods[1:]]
                        spec = {"items": [{"name": "A", "path": path, "shared": shared, "shared_ref": sref, "ops": ops}]}
                        out.append({"family": "P", "spec": spec, "load": "dict", "depth": b["depth_P"]})
    return out


def _family_s(tier: str) -> list[dict]:
    b = BOUNDS[tier]
    out = []
    for body in ("none", "one", "two", "rec", "two_rec", "ref"):
        for security in ("none", "hdr_basic", "collide_bearer", "local_only"):
            for shared in ([], ["h"]):
                for own in ([], ["q!sr"]):
                    for op_sec in (None, "optout", "own"):
                        if security == "none" and op_sec is not None:
                            continue
                        ops = [{"method": "post", "own": own, "body": body, "security": op_sec}, {"method": "get"}]
                        spec = {"security": security, "items": [{"name": "A", "path": "/a", "shared": shared, "ops": ops}]}
                        out.append({"family": "S", "spec": spec, "load": "dict", "depth": b["depth_S"]})
    return out


def _r_specs(tier: str) -> list[dict]:
    out = []
    placements = [("inline", "inline"), ("same", "inline"), ("same", "same"), ("sibling", "inline"), ("sibling", "sibling")]
    if tier == "thorough":
        placements += [("inline", "same"), ("inline", "sibling"), ("same", "sibling"), ("sibling", "same")]
    for a_methods in (["get"], ["get", "post"]):
        for b_methods in ([], ["get"], ["get", "put"]):
            for ref_depth in ((0, 2) if tier == "quick" else (0, 1, 2)):
                for a_place, b_place in placements:
                    if not b_methods and b_place != "inline":
                        continue
                    if tier == "quick" and len(a_methods) == 2 and len(b_methods) == 2 and ref_depth == 0:
                        continue  # the 13-action documents (2 379 histories each) are kept for reference depth 2 only
                    two_files = "sibling" in (a_place, b_place if b_methods else "inline")
                    variants = [{"collide": True, "refs_to": "local"}]
                    if two_files:
                        variants.append({"collide": False, "refs_to": "local"})
                        if ref_depth == 2 or tier == "thorough":
                            variants.append({"collide": True, "refs_to": "root"})
                    for variant in variants:
                        a_ops = [{"method": "get", "own": ["id@q"], "own_ref": ref_depth}]
                        if "post" in a_methods:
                            a_ops.append({"method": "post", "body": "rec"})
                        items = [{"name": "A", "path": "/a", "place": a_place, "shared": ["q"], "shared_ref": ref_depth,
                                  "refs_to": variant["refs_to"], "ops": a_ops}]
                        if b_methods:
                            b_ops = [{"method": "get"}]
                            if "put" in b_methods:
                                b_ops.append({"method": "put", "own": ["q@h"], "own_ref": ref_depth, "body": "two"})
                            items.append({"name": "B", "path": "/b/{id}", "place": b_place, "shared": ["id"], "shared_ref": ref_depth,
                                          "refs_to": variant["refs_to"], "ops": b_ops})
                        out.append({"security": "hdr_basic", "collide": variant["collide"], "items": items, "_two_files": two_files})
    return out


def _family_r(tier: str) -> list[dict]:
    b = BOUNDS[tier]
    out = []
    for spec in _r_specs(tier):
        two = spec.pop("_two_files")
        out.append({"family": "R", "spec": spec, "load": "path" if two else "dict", "depth": b["depth_R"]})
    return out


def _family_l(tier: str) -> list[dict]:
    """Loaders x serialisations over the R documents with the full shape (both methods on both items)."""
    b = BOUNDS[tier]
    out = []
    for spec in _r_specs(tier):
        two = spec.pop("_two_files")
        if len(spec["items"]) < 2 or len(spec["items"][0]["ops"]) < 2 or len(spec["items"][1]["ops"]) < 2:
            continue
        if two:
            out.append({"family": "L", "spec": {**spec, "ext": "yaml"}, "load": "path", "depth": b["depth_L"]})
        else:
            for load, ext in (("file_json", "json"), ("file_yaml", "yaml"), ("path", "json"), ("path", "yaml")):
                out.append({"family": "L", "spec": {**spec, "ext": ext}, "load": load, "depth": b["depth_L"]})
    return out


def _family_m(tier: str) -> list[dict]:
    b = BOUNDS[tier]

    def base() -> dict:
        return {"security": "hdr_basic", "items": [
            {"name": "A", "path": "/a", "shared": ["q"], "ops": [{"method": "get", "own": ["h@q"]}, {"method": "post", "body": "one"}]},
            {"name": "B", "path": "/b", "shared": ["h"], "ops": [{"method": "get"}]}]}

    out = []
    for kind in ("no_in", "schema_int", "schema_str", "dangling"):
        for where in ("A.shared", "A.get", "B.get"):
            spec = base()
            if where == "A.shared":
                spec["items"][0]["bad_shared"] = kind
            elif where == "A.get":
                spec["items"][0]["ops"][0]["bad_own"] = kind
            else:
                spec["items"][1]["ops"][0]["bad_own"] = kind
            out.append({"family": "M", "spec": spec, "load": "dict", "depth": b["depth_M"], "bad": [kind, where]})
    for place, load in (("bad_ref_same", "dict"), ("bad_ref_file", "path")):
        for which in (0, 1):
            spec = base()
            spec["items"][which]["place"] = place
            out.append({"family": "M", "spec": spec, "load": load, "depth": b["depth_M"], "bad": [place, "AB"[which]]})
    spec = base()
    spec["items"][0]["ops"][1]["body"] = "bad_schema_ref"
    out.append({"family": "M", "spec": spec, "load": "dict", "depth": b["depth_M"], "bad": ["bad_schema_ref", "A.post"]})
    return out


def _family_y(tier: str) -> list[dict]:
    b = BOUNDS[tier]
    out = []
    token_sets: list[dict] = [{"keys": [k]} for k in KEY_TOKENS]
    token_sets += [{"open_scalars": [s]} if docs.is_time_like(s) else {"scalars": [s]} for s in SCALAR_TOKENS]
    token_sets += [{"version": "2020-01-01"}, {"keys": [k for k in KEY_TOKENS], "scalars": [s for s in SCALAR_TOKENS if s != "12:30:00"]}]
    for tokens in token_sets:
        for place, load in (("inline", "file_yaml"), ("inline", "path"), ("sibling", "path")):
            spec = {"ext": "yaml", "tokens": tokens, "items": [
                {"name": "A", "path": "/a", "place": place, "shared": ["q"], "ops": [{"method": "post"}, {"method": "get"}]}]}
            out.append({"family": "Y", "spec": spec, "load": load, "depth": b["depth_Y"]})
    return out


# -- review round 2: shapes written by mc/c08_extra.py ------------------------------------------------------------


def _family_x(tier: str) -> list[dict]:
    """Override documents of family P in other WRITINGS of the same meaning: `required: false` left out, fixed fields and
    extensions next to methods / parameter keywords, `parameters` after the methods, reversed lists, ids on one operation
    only; and path-level parameters with one name in two locations."""
    b = BOUNDS[tier]
    codes = docs.OWN_CODES_QUICK if tier == "quick" else docs.OWN_CODES_THOROUGH
    out = []
    for shared in (["q", "h"], ["q", "id", "h"], ["q", "q@h"]):
        path = "/a/{id}" if "id" in shared else "/a"
        # quick: two operation-level parameters only next to all three path-level ones
        max_own = b["max_own"] if (tier == "thorough" or len(shared) == 3) else 1
        for own in _own_lists(codes, max_own, shared):
            if not own:
                continue
            if shared == ["q", "q@h"]:
                rewrites: list = [None, "omit_required", "reversed"]
            elif shared == ["q", "h"] and tier == "quick":
                rewrites = ["omit_required", "noise", "reversed"]
            else:
                rewrites = ["omit_required", "noise", "params_last", "reversed", "partial_ids"]
            for rewrite in rewrites:
                for sref, oref in ((0, 0), (1, 1), (2, 2)):
                    if (sref, oref) == (1, 1) and rewrite not in (None, "omit_required") and tier == "quick":
                        continue
                    if (sref, oref) == (2, 2) and tier == "quick":
                        continue
                    ops = [{"method": "get", "own": own, "own_ref": oref}, {"method": "post"}]
                    spec = {"items": [{"name": "A", "path": path, "shared": shared, "shared_ref": sref, "ops": ops}],
                            "extra": [[rewrite]] if rewrite else []}
                    out.append({"family": "X", "spec": spec, "load": "dict", "depth": b["depth_X"]})
    return out


def _family_s2(tier: str) -> list[dict]:
    """Security schemes behind `$ref`; requirement shapes: the empty requirement object, a cookie apiKey asked for by one
    operation, an explicit empty global list with an operation-level requirement."""
    b = BOUNDS[tier]
    out = []
    for security in ("hdr_basic", "collide_bearer", "local_only"):
        for own in ([], ["q!sr"]):
            shapes: list[tuple[Any, list]] = [(op_sec, [["sec_ref"]]) for op_sec in (None, "optout", "own")]
            for with_ref in ([], [["sec_ref"]]):
                shapes.append((None, [["op_security", "/a", "post", [{}]]] + with_ref))
                if security != "local_only":
                    shapes.append((None, [["op_security", "/a", "post", [{"u": []}]]] + with_ref))
                shapes.append((None, [["root_security", []], ["op_security", "/a", "post", [{"k": []}]]] + with_ref))
            for op_sec, steps in shapes:
                ops = [{"method": "post", "own": own, "body": "none", "security": op_sec}, {"method": "get"}]
                spec = {"security": security, "items": [{"name": "A", "path": "/a", "shared": ["h"], "ops": ops}], "extra": steps}
                out.append({"family": "S2", "spec": spec, "load": "dict", "depth": b["depth_S"]})
    return out


def _c_spec(a_place: str, b_place: str, ref_depth: int, collide: bool = True, order: str = "AB", b_put: bool = False) -> dict:
    a_ops = [{"method": "get", "own": ["id@q"], "own_ref": ref_depth}, {"method": "post", "body": "rec"}]
    b_ops: list[dict] = [{"method": "get"}]
    if b_put:
        b_ops.append({"method": "put", "own": ["q@h"], "own_ref": ref_depth, "body": "two"})
    a = {"name": "A", "path": "/a", "place": a_place, "shared": ["q"], "shared_ref": ref_depth, "refs_to": "local", "ops": a_ops}
    bb = {"name": "B", "path": "/b/{id}", "place": b_place, "shared": ["id"], "shared_ref": ref_depth, "refs_to": "local", "ops": b_ops}
    return {"security": "hdr_basic", "collide": collide, "items": [a, bb] if order == "AB" else [bb, a]}


def _family_c(tier: str) -> list[dict]:
    """Layouts: the inline path item FIRST and the `$ref`'d one after it / both orders of the two path items; three files;
    inline path items whose parameters and bodies live in the other file (nested references local to that file); security
    schemes behind `$ref` in multi-file layouts; a path item `$ref` chain of two."""
    b = BOUNDS[tier]
    all_places = [(x, y) for x in ("inline", "same", "sibling") for y in ("inline", "same", "sibling")]
    out: list[dict] = []

    def add(spec: dict, steps: list, depth: int | None = None) -> None:
        built_files = len(extra.build({**spec, "extra": steps})[1])
        out.append({"family": "C", "spec": {**spec, "extra": steps}, "load": "path" if built_files > 1 else "dict",
                    "depth": depth or b["depth_C"]})

    # (a) order of the path items
    for a_place, b_place in all_places:
        for order in ("AB", "BA"):
            if order == "AB" and (a_place, b_place) not in (("inline", "same"), ("inline", "sibling"), ("same", "sibling"), ("sibling", "same")):
                continue  # the other natural-order placements are family R's
            for collide in ((True, False) if "sibling" in (a_place, b_place) else (True,)):
                add(_c_spec(a_place, b_place, 2, collide, order, b_put=(order == "BA" and a_place != b_place)), [])
    # (b) three files; with `subdir` the two non-root files live in sub/ and the root's directory holds a decoy of the third
    for a_place, b_place in (("sibling", "inline"), ("sibling", "sibling"), ("inline", "sibling")):
        for collide in (True, False):
            for ref_depth, nest, subdir in ((1, True, False), (2, False, False), (1, False, True), (2, True, True)):
                add(_c_spec(a_place, b_place, ref_depth, collide), [["externalise", "sibling", nest, subdir]])
    # (c) inline / same-file path items, everything they refer to in the other file
    for a_place, b_place in (("inline", "inline"), ("same", "inline"), ("same", "same"), ("inline", "sibling")):
        for ref_depth, nest in ((1, False), (1, True), (2, True)):
            add(_c_spec(a_place, b_place, ref_depth, b_put=b_place != "sibling"), [["externalise", "root", nest]])
    # (d) security schemes behind `$ref`
    for a_place, b_place in (("inline", "inline"), ("same", "same"), ("sibling", "inline"), ("sibling", "sibling"), ("inline", "sibling")):
        for ref_depth in (0, 2):
            add(_c_spec(a_place, b_place, ref_depth), [["sec_ref"]])
    # (e) path item `$ref` chains
    for (a_place, b_place), mode in ((("same", "inline"), "root"), (("sibling", "inline"), "root"), (("sibling", "inline"), "far"),
                                     (("sibling", "sibling"), "far")):
        add(_c_spec(a_place, b_place, 0), [["chain", mode]])
    return out


def _family_w(tier: str) -> list[dict]:
    """Swagger 2.0: `in: body` / `in: formData` parameters at path and operation level, `consumes` inheritance,
    `securityDefinitions`."""
    b = BOUNDS[tier]
    shapes = [
        (["B"], [[], ["B!"], ["q"], ["payload@q"]]),
        (["q", "B"], [[], ["B!"], ["q!"], ["q!", "B!"]]),
        (["Bd"], [[], ["B!"]]),
        (["f", "g"], [[], ["f!"], ["f@q"]]),
        (["q", "f"], [["f!"], ["q!", "f!"]]),
        ([], [["B"], ["f", "g"]]),
        (["q", "id", "h"], [["h!"], ["q!"]]),
    ]
    out = []

    def add(shared: list, own: list, consumes: Any, op_consumes: Any, ref: int, security: str = "none", op_sec: Any = None,
            place: str = "inline", steps: list | None = None, load: str = "dict", ext: str = "json") -> None:
        path = "/a/{id}" if "id" in shared else "/a"
        ops = [{"method": "post", "own": own, "own_ref": ref, "consumes": op_consumes, "security": op_sec}, {"method": "put"}]
        spec = {"swagger": True, "ext": ext, "consumes": consumes, "security": security, "extra": steps or [],
                "items": [{"name": "A", "path": path, "place": place, "shared": shared, "shared_ref": ref, "ops": ops}]}
        out.append({"family": "W", "spec": spec, "load": load, "depth": b["depth_W"]})

    for shared, owns in shapes:
        for own in owns:
            for consumes in (None, ["application/json"], ["application/json", "application/xml"]):
                for op_consumes in (None, ["text/plain"], []):
                    if op_consumes == [] and consumes is None:
                        continue
                    for ref in (0, 1):
                        if ref == 1 and (op_consumes is not None and tier == "quick"):
                            continue
                        add(shared, own, consumes, op_consumes, ref)
            if tier == "quick" and own != owns[min(1, len(owns) - 1)]:
                continue
            # one more writing / layout / loader each (quick: for one operation-level list per path-level list)
            add(shared, own, ["application/json"], None, 0, place="same")
            for rewrite in ("noise", "reversed", "params_last"):
                add(shared, own, ["application/json", "application/xml"], None, 1, steps=[[rewrite]])
            add(shared, own, ["application/json"], None, 1, load="file_yaml", ext="yaml")
            add(shared, own, ["application/json"], None, 1, load="path", ext="json")
    for own in ([], ["B!"], ["q!"], ["q!", "B!"]):
        for security in ("basic_key", "collide"):
            for op_sec in (None, "optout", "own"):
                if op_sec == "own" and security == "collide":
                    continue
                add(["q", "B"], own, ["application/json"], None, 0, security=security, op_sec=op_sec)
    return out


def _family_e(tier: str) -> list[dict]:
    """Spellings of the JSON reference: paths that need `~0` / `~1` escapes, and the percent-encoded fragment form."""
    b = BOUNDS[tier]
    out = []
    for old, new in (("/a", "/a~b"), ("/a", "/a~1b"), ("/a", "/a~01b"), ("/a", "/a b"), ("/a/{id}", "/a/{id}"), ("/a/{id}", "/a~0/{id}")):
        shared = ["q", "id"] if "{id}" in old else ["q"]
        ops = [{"method": "get", "own": ["q!sr"]}, {"method": "post", "body": "one"}]
        spec = {"pct": True, "items": [{"name": "A", "path": old, "shared": shared, "ops": ops},
                                       {"name": "B", "path": "/a/b", "shared": ["h"], "ops": [{"method": "get"}]}],
                "extra": [["rename_path", old, new]]}
        out.append({"family": "E", "spec": spec, "load": "dict", "depth": b["depth_E"]})
    return out


def items(tier: str, seed: int) -> list[dict]:
    out = _family_m(tier) + _family_y(tier) + _family_s(tier) + _family_l(tier) + _family_p(tier) + _family_r(tier)
    out += _family_e(tier) + _family_s2(tier) + _family_c(tier) + _family_w(tier) + _family_x(tier)
    # heavy (deep-history) items are spread over the list so that the workers finish together
    heavy = [i for i in out if i["family"] == "R"]
    light = [i for i in out if i["family"] != "R"]
    step = max(1, len(light) // max(1, len(heavy)))
    merged: list[dict] = []
    hi = 0
    for n, item in enumerate(light):
        if n % step == 0 and hi < len(heavy):
            merged.append(heavy[hi])
            hi += 1
        merged.append(item)
    merged.extend(heavy[hi:])
    return merged


# ---------------------------------------------------------------------------------------------------------------
# real-code side: loading, accessing, observing


class Session:
    """One document written once (dict / text / files); ``fresh()`` gives a new real schema object through the real loader."""

    def __init__(self, item: dict):
        self.item = item
        self.root_name, self.files = extra.build(item["spec"])
        self.load = item["load"]
        self.ext = item["spec"].get("ext", "json")
        self.tmp: str | None = None
        self.texts: dict[str, str] = {}
        self.two_files = len(self.files) > 1
        for name, doc in self.files.items():
            self.texts[name] = docs.emit_yaml(doc) if self.ext == "yaml" else json.dumps(doc, indent=1)
        if self.load == "path":
            self.tmp = tempfile.mkdtemp(prefix=TMP_PREFIX)
            for name, text in self.texts.items():
                os.makedirs(os.path.dirname(os.path.join(self.tmp, name)), exist_ok=True)
                with open(os.path.join(self.tmp, name), "w", encoding="utf-8") as fd:
                    fd.write(text)

    def close(self) -> None:
        if self.tmp is not None:
            shutil.rmtree(self.tmp, ignore_errors=True)
            self.tmp = None

    def fresh(self) -> Any:
        import schemathesis

        if self.load == "dict":
            return schemathesis.openapi.from_dict(copy.deepcopy(self.files[self.root_name]))
        if self.load in ("file_json", "file_yaml"):
            return schemathesis.openapi.from_file(self.texts[self.root_name])
        return schemathesis.openapi.from_path(os.path.join(self.tmp, self.root_name))

    def strip(self, text: str) -> str:
        return text.replace(self.tmp, "<tmp>") if self.tmp else text


def perform(schema: Any, action: list) -> Any:
    kind = action[0]
    if kind == "iter":
        return list(schema.get_all_operations())
    if kind == "map":
        return schema[action[1]][action[2]]
    if kind == "id":
        return schema.get_operation_by_id(action[1])
    if kind == "ref":
        return schema.get_operation_by_reference(action[1])
    raise ValueError(action)


def canon(schema: Any, session: Session) -> tuple:
    """What later accesses can depend on: the three operation indices, the maps, the id->definition index, the scope stack."""
    cache = schema._operation_cache
    return (
        tuple(sorted((session.strip(s), p, m) for s, p, m in cache._traversal_key_to_operation)),
        tuple(sorted(cache._id_to_operation)),
        tuple(sorted(cache._reference_to_operation)),
        tuple(sorted(cache._maps)),
        tuple(sorted(cache._id_to_definition)),
        tuple(session.strip(s) for s in schema.resolver._scopes_stack),
        len(cache._operations),
    )


def observe(operation: Any) -> dict:
    """The effective definition as data generation reads it (may raise InvalidSchema for unusable parameter schemas)."""
    from schemathesis.specs.openapi.parameters import parameters_to_json_schema

    view: dict[str, Any] = {"path": operation.path, "method": operation.method, "params": {}, "containers": {}, "body": {}}
    for location, attr in CONTAINERS:
        container = getattr(operation, attr)
        view["containers"][location] = [[p.name, bool(p.is_required)] for p in container]
        schema = parameters_to_json_schema(operation, container)
        view["params"][location] = {
            name: {"required": name in schema["required"], "schema": sub} for name, sub in schema["properties"].items()
        }
    for alternative in operation.body:
        definition = alternative.definition
        if isinstance(definition, list):
            # Swagger 2.0 `formData` parameters joined into one payload: read through the real conversion, as above
            # (the container itself has no `required` flag in the 2.0 text - its fields have; the form object as a whole
            # counts as required exactly when one of its fields is)
            joined = alternative.as_json_schema(operation)
            body_schema: Any = {"properties": joined["properties"], "required": sorted(joined["required"])}
            body_required = bool(joined["required"])
        else:
            body_schema = definition.get("schema", {}) if isinstance(definition, dict) else definition
            body_required = bool(alternative.is_required)
        view["body"].setdefault(alternative.media_type, []).append({"required": body_required, "schema": body_schema})
    return view


# ---------------------------------------------------------------------------------------------------------------
# oracle wiring


def _param_matches(files: merge.Files, observed: dict, expected: dict) -> tuple[bool | None, bool]:
    """(schema verdict, required verdict)"""
    if expected.get("security"):
        return True, observed["required"] is True
    return merge.schema_matches(files, observed["schema"], expected["schema"], expected["file"]), observed["required"] == expected["required"]


def compare(files: merge.Files, view: dict, entry: dict, alt_entry: dict | None, alt_files: merge.Files | None = None) -> tuple[list[dict], int]:
    """Differences between an observed view and the reference entry; second value = undecided comparisons."""
    diffs: list[dict] = []
    undecided = 0
    if view["path"] != entry["path"] or str(view["method"]).lower() != entry["method"]:
        diffs.append({"component": "path_method", "what": "other_operation", "cause": "other",
                      "observed": [view["path"], view["method"]]})
        return diffs, undecided
    expected = merge.by_location(entry)
    alt = merge.by_location(alt_entry) if alt_entry is not None and alt_entry.get("status") == "ok" else None
    overridden = {(p["name"], p["in"]): p for p in entry.get("overridden", [])}
    for location, _ in CONTAINERS:
        seen = view["params"][location]
        for name, exp in expected[location].items():
            if name not in seen:
                diffs.append({"component": location, "what": "missing", "name": name, "cause": "other", "security": bool(exp.get("security"))})
                continue
            schema_ok, required_ok = _param_matches(files, seen[name], exp)
            if schema_ok is None:
                undecided += 1
            if schema_ok is False or not required_ok:
                what = "+".join(w for w, bad in (("schema", schema_ok is False), ("required", not required_ok)) if bad)
                cause = "other"
                shadow = overridden.get((name, location))
                if shadow is not None:
                    s2, r2 = _param_matches(files, seen[name], shadow)
                    if s2 is not False and r2:
                        cause = "path_level_definition_used"
                if cause == "other" and alt is not None and name in alt[location]:
                    s3, r3 = _param_matches(alt_files or files, seen[name], alt[location][name])
                    if s3 is not False and r3:
                        cause = "sibling_refs_resolved_against_root"
                diffs.append({"component": location, "what": what, "name": name, "cause": cause, "observed": seen[name],
                              "expected": {"required": exp["required"], "schema": exp["schema"]}})
        for name in seen:
            if name not in expected[location]:
                diffs.append({"component": location, "what": "extra", "name": name, "cause": "other", "observed": seen[name]})
    body = view["body"]
    if set(body) != set(entry["body"]) or any(len(v) != 1 for v in body.values()):
        cause = "other"
        if alt_entry is not None and alt_entry.get("status") == "ok" and set(body) == set(alt_entry["body"]):
            cause = "sibling_refs_resolved_against_root"
        diffs.append({"component": "body", "what": "media_types", "cause": cause, "observed": sorted(body), "expected": sorted(entry["body"])})
    else:
        for media_type, exp in entry["body"].items():
            seen_body = body[media_type][0]
            schema_ok = merge.schema_matches(files, seen_body["schema"], exp["schema"], exp["file"])
            required_ok = seen_body["required"] == exp["required"]
            if schema_ok is None:
                undecided += 1
            if schema_ok is False or not required_ok:
                what = "+".join(w for w, bad in (("schema", schema_ok is False), ("required", not required_ok)) if bad)
                cause = "other"
                if alt_entry is not None and alt_entry.get("status") == "ok" and media_type in alt_entry["body"]:
                    a = alt_entry["body"][media_type]
                    if merge.schema_matches(alt_files or files, seen_body["schema"], a["schema"], a["file"]) is not False and seen_body["required"] == a["required"]:
                        cause = "sibling_refs_resolved_against_root"
                diffs.append({"component": "body", "what": what, "name": media_type, "cause": cause,
                              "observed": _short(seen_body), "expected": {"required": exp["required"], "schema": exp["schema"]}})
    return diffs, undecided


def _short(value: Any) -> Any:
    try:
        text = json.dumps(value, default=repr, sort_keys=True)
    except TypeError:  # observed data with non-string keys (that is what is being reported)
        return repr(value)[:400]
    return value if len(text) < 400 else text[:400] + "..."


class Judge:
    def __init__(self, res: Result, session: Session, item: dict):
        self.res = res
        self.session = session
        self.item = item
        self.files = extra.DirFiles(session.root_name, session.files)  # = merge.Files for names without directories
        self.swagger = bool(item["spec"].get("swagger"))
        self.entries = extra.reference20(self.files) if self.swagger else merge.reference(self.files)
        self.chain = extra.chain_lengths(session.root_name, session.files)
        self.extras = [step[0] + ("_" + str(step[1]) if step[0] in ("externalise", "chain") and len(step) > 1 else "")
                       for step in item["spec"].get("extra", [])]
        self.alt: dict[tuple, dict] = {}
        self.alt_files: merge.Files | None = None
        if session.two_files:
            self.alt_files = merge.RootScoped(session.root_name, session.files)
            for e in merge.reference(self.alt_files):
                self.alt[(e["path"], e["method"])] = e
        self.by_key = {(e["path"], e["method"]): e for e in self.entries}
        self.by_id = {e["operation_id"]: e for e in self.entries if e.get("operation_id")}
        self.sig_seen: dict[str, int] = {}
        self.nontriv_budget = 3000  # digests kept per document (memory); the rest is counted in `judged_cases_not_hashed`

    def nontriv(self, history: list) -> None:
        if self.nontriv_budget > 0:
            self.nontriv_budget -= 1
            self.res.nontriv([self.item["spec"], self.item["load"], history])
        else:
            self.res.count("judged_cases_not_hashed")

    # -- reporting -------------------------------------------------------------------------------------------
    def alarm(self, signature: dict, detail: dict) -> None:
        key = digest(signature)
        n = self.sig_seen.get(key, 0)
        self.sig_seen[key] = n + 1
        self.res.count("alarms")
        if n < 2:
            self.res.violation(signature, {"document": self.session.files, "load": self.session.load, **detail})

    def facts(self, entry: dict | None, action: list, history: list) -> dict:
        out = {
            "lookup": action[0] != "iter",
            "prior": "none" if len(history) == 1 else "some",
            "layout": {1: "single_file", 2: "two_files", 3: "three_files"}.get(len(self.session.files), "subdirectory"),
            **self.entry_facts(entry),
        }
        # review round 2: facts that exist only for the new shapes (the signatures of the first grammar are unchanged)
        if self.swagger:
            out["spec"] = "swagger_2.0"
        if action[0] == "ref" and len(action) > 4:
            out["ref_form"] = action[4]
        return out

    def entry_facts(self, entry: dict | None) -> dict:
        out: dict[str, Any] = {"path_item_ref": entry.get("path_item_ref") if entry else None}
        if entry is not None and self.chain.get(entry["path"], 0) > 1:
            out["path_item_chain"] = self.chain[entry["path"]]
        return out

    def cause_of_raise(self, entry: dict, action: list, exc: BaseException) -> str:
        """Input-shape facts that separate the known ways a lookup of a well-formed operation can raise."""
        alt = self.alt.get((entry["path"], entry["method"]))
        if alt is not None and alt.get("status") == "malformed" and str(alt.get("reason", "")).startswith("dangling_ref") \
                and entry.get("uses_refs_local_to_sibling"):
            return "sibling_refs_resolved_against_root"
        if action[0] == "id" and _error_name(exc) == "RefResolutionError" and \
                any(e["whole_path"] and e["path"] != entry["path"] for e in self.entries):
            return "another_path_item_unreadable"
        return "other"

    # -- lookups ---------------------------------------------------------------------------------------------
    def expected_for(self, action: list) -> dict | None:
        if action[0] == "map":
            return self.by_key.get((action[1], action[2].lower()))
        if action[0] == "id":
            return self.by_id.get(action[1])
        if action[0] == "ref":
            return self.by_key.get(tuple(action[2:4]))
        return None

    def lookup(self, action: list, history: list, outcome: tuple) -> None:
        res = self.res
        entry = self.expected_for(action)
        assert entry is not None, action
        facts = self.facts(entry, action, history)
        status, value = outcome
        if entry["status"] != "ok":
            res.count(f"open_lookup_of_malformed_operation_{'raised' if status == 'raise' else 'returned'}")
            res.outcomes.add("lookup_of_malformed")
            return
        res.traces += 1
        self.nontriv(history)
        if status == "raise":
            res.outcomes.add("lookup_raised")
            self.alarm({"kind": "lookup_raises", **facts, "access": action[0], "error": _error_name(value),
                        "cause": self.cause_of_raise(entry, action, value)},
                       {"history": history, "error": self.session.strip(repr(value))[:400], "expected": _entry_summary(entry)})
            return
        try:
            view = observe(value)
        except Exception as exc:  # noqa: BLE001
            res.outcomes.add("view_raised")
            self.alarm({"kind": "wellformed_operation_unusable", **facts, "error": _error_name(exc)},
                       {"history": history, "error": self.session.strip(repr(exc))[:400], "expected": _entry_summary(entry)})
            return
        entry = extra.bind_open_media_types(entry, list(view["body"]))
        diffs, undecided = compare(self.files, view, entry, self.alt.get((entry["path"], entry["method"])), self.alt_files)
        res.count("schema_comparisons_cut_at_recursion_budget", undecided)
        res.count(f"lookups_judged_{action[0]}")
        if action[0] == "ref" and len(action) > 4:
            res.count(f"lookups_judged_ref_{action[4]}")
        if not diffs:
            for name in self.extras:
                res.count(f"cov_lookup_equal_{name}")
            if self.swagger:
                res.count("cov_lookup_equal_swagger")
        if not diffs:
            res.outcomes.add("lookup_equal")
        for d in diffs:
            res.outcomes.add("lookup_differs")
            self.alarm({"kind": "definition_differs", **facts, "component": _component_class(d["component"]), "cause": d["cause"]},
                       {"history": history, "access": action[0], "difference": d, "containers": view["containers"], "expected": _entry_summary(entry)})
        if len(res.samples) < 2 and not diffs:
            res.samples.append({"load": self.item["load"], "history": history, "observed": _short(view)})

    # -- iteration -------------------------------------------------------------------------------------------
    def iteration(self, action: list, history: list, outcome: tuple) -> None:
        from schemathesis.core.errors import InvalidSchema
        from schemathesis.core.result import Err, Ok

        res = self.res
        facts = self.facts(None, action, history)
        status, value = outcome
        res.traces += 1
        self.nontriv(history)
        if status == "raise":
            res.outcomes.add("iteration_raised")
            self.alarm({"kind": "iteration_raises", **facts, "error": _error_name(value)},
                       {"history": history, "error": self.session.strip(repr(value))[:400]})
            return
        oks: dict[tuple, list] = {}
        errs: list[tuple] = []
        for r in value:
            if isinstance(r, Ok):
                op = r.ok()
                oks.setdefault((op.path, str(op.method).lower()), []).append(op)
            elif isinstance(r, Err):
                err = r.err()
                errs.append((getattr(err, "path", None), getattr(err, "method", None)))
                if getattr(err, "path", None) is None:
                    self.alarm({"kind": "error_without_path", **facts}, {"history": history, "error": str(err)[:300]})
            else:
                raise AssertionError(f"get_all_operations yielded {type(r)}")
        documented_paths = {e["path"] for e in self.entries}
        for key in oks:
            if key not in self.by_key and not any(e["whole_path"] and e["path"] == key[0] for e in self.entries):
                self.alarm({"kind": "undocumented_operation_offered", **facts}, {"history": history, "operation": list(key)})
        for path, _ in errs:
            if path is not None and path not in documented_paths:
                self.alarm({"kind": "error_names_unknown_path", **facts}, {"history": history, "path": path})
        for entry in self.entries:
            f = {**facts, **self.entry_facts(entry)}
            key = (entry["path"], entry["method"])
            err_here = any(p == entry["path"] and (m is None or entry["method"] is None or str(m).lower() == entry["method"]) for p, m in errs)
            if "path_item_chain" in f:
                res.count("operations_behind_path_item_chain_judged")
            if entry["whole_path"]:
                if err_here:
                    res.count("unreadable_path_item_reported")
                    res.outcomes.add("iteration_err")
                elif any(k[0] == entry["path"] for k in oks):
                    res.count("open_unreadable_path_item_offered")
                else:
                    self.alarm({"kind": "operation_silently_dropped", **f, "expected_status": "malformed"},
                               {"history": history, "path": entry["path"], "reason": entry["reason"]})
                continue
            ops = oks.get(key, [])
            if len(ops) > 1:
                self.alarm({"kind": "operation_offered_twice", **f}, {"history": history, "operation": list(key)})
            if entry["status"] == "ok":
                if not ops:
                    if err_here:
                        res.count("wellformed_reported_as_error")
                        res.outcomes.add("iteration_err")
                    else:
                        res.outcomes.add("iteration_dropped")
                        self.alarm({"kind": "operation_silently_dropped", **f, "expected_status": "ok"},
                                   {"history": history, "operation": list(key), "errors": errs})
                    continue
                try:
                    view = observe(ops[0])
                except Exception as exc:  # noqa: BLE001
                    res.outcomes.add("view_raised")
                    self.alarm({"kind": "wellformed_operation_unusable", **f, "error": _error_name(exc)},
                               {"history": history, "error": self.session.strip(repr(exc))[:400], "expected": _entry_summary(entry)})
                    continue
                entry = extra.bind_open_media_types(entry, list(view["body"]))
                diffs, undecided = compare(self.files, view, entry, self.alt.get(key), self.alt_files)
                res.count("schema_comparisons_cut_at_recursion_budget", undecided)
                res.count("iterated_operations_judged")
                if entry.get("overridden"):
                    res.count("cov_override_judged")
                if not diffs:
                    res.outcomes.add("iteration_equal")
                    self._coverage(entry, view)
                for d in diffs:
                    res.outcomes.add("iteration_differs")
                    self.alarm({"kind": "definition_differs", **f, "component": _component_class(d["component"]), "cause": d["cause"]},
                               {"history": history, "access": action[0], "difference": d, "containers": view["containers"], "expected": _entry_summary(entry)})
            else:
                # malformed operation: reported (Err with its path, or an offered operation whose use raises a schema error
                # naming the path), never dropped
                if err_here:
                    res.count("malformed_operation_reported_err")
                    res.outcomes.add("iteration_err")
                elif ops:
                    try:
                        observe(ops[0])
                        res.count("open_malformed_operation_offered")
                    except InvalidSchema as exc:
                        if exc.path == entry["path"]:
                            res.count("malformed_operation_reported_on_use")
                            res.outcomes.add("iteration_err_on_use")
                        else:
                            self.alarm({"kind": "error_without_path", **f, "on_use": True}, {"history": history, "error": str(exc)[:300]})
                    except Exception as exc:  # noqa: BLE001
                        self.alarm({"kind": "malformed_operation_fails_without_schema_error", **f, "error": _error_name(exc)},
                                   {"history": history, "error": repr(exc)[:300], "reason": entry["reason"]})
                else:
                    res.outcomes.add("iteration_dropped")
                    self.alarm({"kind": "operation_silently_dropped", **f, "expected_status": "malformed"},
                               {"history": history, "operation": list(key), "reason": entry["reason"], "errors": errs})

    def _coverage(self, entry: dict, view: dict) -> None:
        res = self.res
        if entry.get("overridden"):
            res.count("cov_override_equal")
        if any(p.get("security") for p in entry["params"]):
            res.count("cov_security_parameter_present")
        if len(entry["body"]) > 1:
            res.count("cov_two_media_types")
        if entry.get("path_item_ref") == "sibling_file":
            res.count("cov_sibling_file_operation_equal")
        if entry.get("path_item_ref") == "same_file":
            res.count("cov_same_file_ref_operation_equal")
        for name in self.extras:
            res.count(f"cov_equal_{name}")
        if entry.get("overridden") and "omit_required" in self.extras:
            res.count("cov_override_equal_with_required_left_out")
        if len(self.session.files) == 3:
            res.count("cov_three_files_operation_equal")
        if any("/" in name for name in self.session.files) and entry.get("path_item_ref") == "sibling_file":
            res.count("cov_subdirectory_operation_equal")
        if self.swagger:
            res.count("cov_swagger_operation_equal")
            if entry.get("payload_overridden"):
                res.count("cov_swagger_payload_override_equal")
            if entry.get("payload_kind"):
                res.count(f"cov_swagger_{entry['payload_kind']}_equal")
            if entry.get("body_open"):
                res.count("cov_swagger_media_type_left_to_implementation")
            if len(entry["body"]) > 1:
                res.count("cov_swagger_two_consumes_equal")


def _component_class(component: str) -> str:
    return component if component in ("body", "path_method") else "parameter"


def _error_name(exc: BaseException) -> str:
    try:
        from jsonschema import RefResolutionError
    except Exception:  # noqa: BLE001
        RefResolutionError = ()  # type: ignore
    if RefResolutionError and isinstance(exc, RefResolutionError):
        return "RefResolutionError"
    return type(exc).__name__


def _entry_summary(entry: dict) -> dict:
    if entry["status"] != "ok":
        return {"path": entry["path"], "method": entry["method"], "status": entry["status"], "reason": entry.get("reason")}
    return {"path": entry["path"], "method": entry["method"],
            "params": [{k: p[k] for k in ("name", "in", "required", "schema", "level") if k in p} for p in entry["params"]],
            "body": {m: {"required": b["required"], "schema": b["schema"]} for m, b in entry["body"].items()},
            "overridden_path_level": [{k: p[k] for k in ("name", "in", "required", "schema")} for p in entry.get("overridden", [])]}


# ---------------------------------------------------------------------------------------------------------------
# serialisation checks


def check_serialisation(res: Result, session: Session, judge: Judge) -> None:
    """The raw dict a loader hands to the schema equals the document as written, for JSON and for YAML."""
    import yaml

    from schemathesis.openapi import loaders
    from schemathesis.specs.openapi import references

    item = session.item
    root = session.files[session.root_name]
    _BASE_LOADER = getattr(yaml, "CBaseLoader", yaml.BaseLoader)  # resolver-free: every scalar stays the written string

    def judge_raw(observed: Any, expected: dict, how: str, file_role: str) -> None:
        res.evaluations += 1
        res.count(f"raw_compared_{how}")
        if docs.bare_time_scalars(expected):
            diff = merge.first_difference(observed, expected)
            res.count("open_bare_time_scalar_documents")
            if diff is not None and diff.get("observed_type") == "int":
                res.count("open_bare_time_scalar_read_as_base60_int")
            return
        diff = merge.first_difference(observed, expected)
        if diff is None:
            res.outcomes.add("raw_equal")
            return
        res.outcomes.add("raw_differs")
        token = diff.get("key") if diff["what"] in ("key_type", "missing_key", "extra_key") else diff.get("expected")
        judge.alarm({"kind": "raw_document_differs", "serialisation": how, "file": file_role, "what": diff["what"],
                     "became": diff.get("key_type") or diff.get("observed_type"), "token_class": _token_class(str(token).strip("'\""))},
                    {"difference": diff, "text": session.texts[session.root_name][:1500]})

    # the emitter itself: a resolver-free reader must see exactly the written strings
    if session.ext == "yaml":
        for name, text in session.texts.items():
            plain = yaml.load(text, Loader=_BASE_LOADER)
            if plain != docs.stringified(session.files[name]):
                res.oracle_errors.append({"error": "own YAML emitter wrote something else than intended", "file": name, "text": text[:800]})
                return
    # the loader under test
    schema = session.fresh()
    judge_raw(schema.raw_schema, root, f"{session.load}_{session.ext}", "root")
    if session.two_files and session.tmp is not None:
        from pathlib import Path

        sib_name = next(n for n in session.files if n != session.root_name)
        uri = Path(os.path.join(session.tmp, sib_name)).absolute().as_uri()
        judge_raw(references.load_file_uri(uri), session.files[sib_name], f"resolver_{session.ext}", "sibling")
    if item["load"] == "dict" and not session.two_files:
        # same document through both text serialisations
        json_text = json.dumps(root)
        yaml_text = docs.emit_yaml(root)
        if yaml.load(yaml_text, Loader=_BASE_LOADER) != docs.stringified(root):
            res.oracle_errors.append({"error": "own YAML emitter wrote something else than intended", "text": yaml_text[:800]})
            return
        a = loaders.from_file(json_text).raw_schema
        b = loaders.from_file(yaml_text).raw_schema
        judge_raw(a, root, "file_json_json", "root")
        judge_raw(b, root, "file_yaml_yaml", "root")
        res.count("json_yaml_pairs_compared")


def _token_class(token: str) -> str:
    t = token.lower()
    if t.isdigit() and len(t) == 3:
        return "status_code"
    if t in ("on", "off", "yes", "no", "y", "n", "true", "false"):
        return "boolean_like"
    if t in ("null", "~"):
        return "null_like"
    if docs.is_date_like(token):
        return "date_like"
    if docs.is_time_like(token):
        return "time_like"
    try:
        float(t.replace("_", ""))
        return "number_like"
    except ValueError:
        pass
    if t.startswith("0x"):
        return "number_like"
    return "other"


# ---------------------------------------------------------------------------------------------------------------
# E5: breadth-first enumeration of access histories


def actions_of(judge: Judge) -> list[list]:
    out: list[list] = [["iter"]]
    for e in judge.entries:
        if e["method"] is None:
            continue
        out.append(["map", e["path"], e["method"].upper()])
        if e.get("operation_id"):
            out.append(["id", e["operation_id"]])
        if e.get("path_item_ref") is None:
            pointer = extra.pointer_of(e["path"])
            out.append(["ref", f"#/paths/{pointer}/{e['method']}", e["path"], e["method"]])
            encoded = extra.percent_encoded(pointer)
            if judge.item["spec"].get("pct") and encoded != pointer:
                # the same JSON pointer in its URI fragment representation (RFC 6901 section 6)
                out.append(["ref", f"#/paths/{encoded}/{e['method']}", e["path"], e["method"], "percent_encoded"])
    return out


def check_item(item: dict, tier: str) -> Result:
    from schemathesis.specs.openapi import references

    res = Result()
    common.reset_schemathesis_caches()
    references.load_file.cache_clear()
    references.load_file_uri.cache_clear()
    session = Session(item)
    try:
        judge = Judge(res, session, item)
        res.count(f"documents_{item['family']}")
        res.count("documents_two_files" if session.two_files else "documents_single_file")
        res.count(f"documents_loaded_by_{item['load']}_{session.ext}")
        check_serialisation(res, session, judge)
        actions = actions_of(judge)
        states: set = set()
        depth = item["depth"]
        # breadth first: all histories of length 1, then 2, ...; a state is the history, replayed on a fresh schema
        for n in range(1, depth + 1):
            for history in itertools.product(actions, repeat=n):
                history = list(history)
                schema = session.fresh()
                outcome: tuple = ("none", None)
                for action in history:
                    try:
                        outcome = ("ok", perform(schema, action))
                    except Exception as exc:  # noqa: BLE001 - the exception is the observation
                        outcome = ("raise", exc)
                    res.transitions += 1
                res.evaluations += 1
                states.add(canon(schema, session))
                last = history[-1]
                if last[0] == "iter":
                    judge.iteration(last, history, outcome)
                else:
                    judge.lookup(last, history, outcome)
            res.count(f"histories_of_length_{n}", len(actions) ** n)
        res.states += len(states)
    finally:
        session.close()
    return res


def finalize(total: Result, tier: str) -> None:
    # counters are summed by the runner: restore the maximum semantics of max_depth
    total.counters["max_depth"] = BOUNDS[tier]["depth_R"]
    for leftover in glob.glob(os.path.join(tempfile.gettempdir(), TMP_PREFIX + "*")):
        shutil.rmtree(leftover, ignore_errors=True)


def vacuity(total: Result, tier: str) -> list[str]:
    c = total.counters
    out = []
    need = {
        "iterated_operations_judged": "no iterated operation was compared with the reference",
        "lookups_judged_map": "no schema[path][method] lookup was compared",
        "lookups_judged_id": "no get_operation_by_id lookup was compared",
        "lookups_judged_ref": "no get_operation_by_reference lookup was compared",
        "cov_override_judged": "no operation with an operation-level override was compared",
        "cov_security_parameter_present": "no operation with security parameters matched the reference",
        "cov_two_media_types": "no operation with two body media types matched the reference",
        "cov_sibling_file_operation_equal": "no operation from a sibling file matched the reference",
        "cov_same_file_ref_operation_equal": "no operation behind a same-file path item $ref matched the reference",
        "malformed_operation_reported_err": "no malformed operation was seen reported as Err",
        "unreadable_path_item_reported": "no unreadable path item was seen reported",
        "json_yaml_pairs_compared": "no JSON/YAML pair was compared",
        "raw_compared_path_yaml": "from_path never loaded YAML",
        "raw_compared_path_json": "from_path never loaded JSON",
        "raw_compared_file_yaml_yaml": "from_file never loaded YAML",
        "raw_compared_resolver_yaml": "the resolver never loaded a YAML sibling file",
        f"histories_of_length_{BOUNDS[tier]['depth_R']}": "no history of the maximum depth was run",
        # review round 2
        "cov_override_equal_with_required_left_out": "no override written without `required` matched the reference",
        "cov_equal_noise": "no document with fixed fields / extensions next to the methods matched the reference",
        "cov_equal_params_last": "no document with `parameters` written after the methods matched the reference",
        "cov_equal_reversed": "no document with reversed lists matched the reference",
        "cov_equal_partial_ids": "no document with an operation without operationId matched the reference",
        "cov_three_files_operation_equal": "no operation of a three-file layout matched the reference",
        "cov_subdirectory_operation_equal": "no operation of a path items file in a subdirectory matched the reference",
        "cov_equal_externalise_root": "no inline path item with parameters in the other file matched the reference",
        "cov_equal_sec_ref": "no operation with security schemes behind $ref matched the reference",
        "cov_lookup_equal_sec_ref": "no lookup with security schemes behind $ref matched the reference",
        "cov_equal_op_security": "no operation-level requirement shape matched the reference",
        "operations_behind_path_item_chain_judged": "no operation behind a path item $ref chain was judged",
        "lookups_judged_ref_percent_encoded": "no percent-encoded reference was looked up",
        "cov_equal_rename_path": "no path with `~` / space / braces matched the reference",
        "cov_swagger_payload_override_equal": "no Swagger 2.0 body/formData override matched the reference",
        "cov_swagger_body_equal": "no Swagger 2.0 body parameter matched the reference",
        "cov_swagger_form_equal": "no Swagger 2.0 formData payload matched the reference",
        "cov_swagger_two_consumes_equal": "no Swagger 2.0 payload with two media types matched the reference",
        "cov_swagger_media_type_left_to_implementation": "no Swagger 2.0 payload without an applicable consumes list was judged",
        "cov_lookup_equal_swagger": "no Swagger 2.0 lookup matched the reference",
    }
    for key, msg in need.items():
        if not c.get(key):
            out.append(msg)
    if len(total.outcomes) < 2:
        out.append("a single outcome class")
    if total.states <= total.counters.get("documents_single_file", 0) + total.counters.get("documents_two_files", 0):
        out.append("no document reached more than one cache state")
    return out
