"""C13 - a fixed seed reproduces the same sequence of requests.

(a) One worker: the traffic must be a function of (seed, schema, configuration) only.  Every other entropy source of the
    process is treated as an environment answer and *enumerated*: PYTHONHASHSEED, the state of the global `random` module /
    Hypothesis' global PRNG, warm vs cold process-global caches, first vs second run in a process, a wall-clock offset.
    Each vector is a fresh subprocess running the real engine through the in-process HTTP seam; the logged requests per
    phase (method, URL, headers minus the case id, body) and the reported failures must equal those of the reference vector.
(b) Workers only change the order: E3 explores all 2-worker schedules (<= p pre-emptions); per operation and unit phase the
    multiset of requests must equal the 1-worker multiset.
"""

from __future__ import annotations

import json
import os
import subprocess
import sys
import tempfile
from typing import Any

from mc import httpseam
from mc.runner import ROOT, Result
from props import engine_explore as ee

ID = "C13"
LEVEL = "model_checking"
ENGINES = ["E2", "E3"]
RULE = (
    "(a) work item = (schema, seed, phase set, generation modes); for each, every vector of a stated set of hidden-entropy vectors "
    "(hash seed x global PRNG state x cache warmth x repeat-in-process x clock offset; single-factor deviations from the reference "
    "plus all-factors in quick, full product in thorough) is executed in a fresh subprocess; (b) work item = (schema, phases) explored "
    "over all 2-worker schedules <= p pre-emptions; distinct = distinct (item, vector/schedule, traffic); non-trivial = the run sent requests"
)
BOUNDS = {
    "quick": {"seeds": [0, 1], "vectors": "reference + 5 single-factor + all-factors; order-sensitive documents: hash seeds 0..4", "preemptions": 1, "max_exec_per_item": 3000},
    "thorough": {"seeds": [0, 1, 2], "vectors": "full product 2^4 x repeat", "preemptions": 2, "max_exec_per_item": 20000},
}
BUDGET_S = {"quick": 140, "thorough": 3300}
CHUNK = 1
ASSUMPTIONS = [
    "seeds are data: a few are used; what is decided is independence from every other entropy source",
    "the API is deterministic (scripted) and stateless for part (b)",
]
TECHNIQUE = "exhaustive enumeration of hidden-entropy vectors (differential runs in fresh processes) and exhaustive 2-worker schedule exploration of the real engine; traffic equality as oracle"
LEVEL_TEXT = (
    "Reproducibility is universally quantified over everything that is not the seed. The check enumerates the hidden entropy "
    "sources a process has and all 2-worker schedules up to the bound, and compares complete request logs."
)
LEVEL_NOTE = "Trusted: in-process HTTP seam (request log); entropy sources not listed in RULE (e.g. id()-based ordering) are only exercised, not enumerated."

RICH = {
    "openapi": "3.0.2", "info": {"title": "t", "version": "1"},
    "paths": {
        "/items": {
            "get": {
                "parameters": [
                    {"name": "q", "in": "query", "schema": {"type": "string", "pattern": "^[a-c]{2,4}$"}},
                    {"name": "d", "in": "query", "schema": {"type": "string", "format": "date"}},
                    {"name": "X-Tag", "in": "header", "schema": {"type": "string", "enum": ["a", "b", "c"]}},
                ],
                "responses": {"200": {"description": "OK"}},
            },
            "post": {
                "operationId": "createItem",
                "requestBody": {"required": True, "content": {"application/json": {"schema": {
                    "type": "object",
                    "properties": {"name": {"type": "string", "maxLength": 5}, "size": {"type": "number", "minimum": 0, "maximum": 10},
                                   "kind": {"type": "string", "enum": ["x", "y"], "example": "x"}},
                    "required": ["name"], "additionalProperties": False}}}},
                "responses": {"201": {"description": "ok", "links": {"get": {"operationId": "getItem", "parameters": {"id": "$response.body#/id"}}}}},
            },
        },
        "/items/{id}": {"get": {
            "operationId": "getItem",
            "parameters": [{"name": "id", "in": "path", "required": True, "schema": {"type": "integer", "minimum": 1}}],
            "responses": {"200": {"description": "OK"}, "404": {"description": "NF"}},
        }},
        "/fail": {"get": {"parameters": [{"name": "n", "in": "query", "schema": {"type": "integer"}}], "responses": {"200": {"description": "OK"}}}},
    },
}

# documents whose definitions are naturally held in unordered collections by an implementation: several security schemes
# required together / as alternatives, several media types, several tags, parameters of one name in two locations, and (2.0)
# a parameter carrying both `example` and `x-example`
_OK = {"200": {"description": "OK"}}
MULTI3 = {
    "openapi": "3.0.2", "info": {"title": "t", "version": "1"},
    "paths": {
        "/orders": {
            "get": {
                "tags": ["b", "a", "c"],
                "security": [{"ApiKey": [], "TenantKey": []}, {"Token": [], "Signature": []}],
                "parameters": [{"name": "limit", "in": "query", "schema": {"type": "integer", "minimum": 1, "maximum": 3}, "example": 2},
                               {"name": "id", "in": "query", "schema": {"type": "integer"}, "examples": {"one": {"value": 1}, "two": {"value": 2}}},
                               {"name": "id", "in": "header", "schema": {"type": "string", "enum": ["h1", "h2"]}}],
                "responses": _OK,
            },
            "post": {
                "security": [{"Basic": [], "ApiKey": []}],
                "requestBody": {"required": True, "content": {
                    "application/json": {"schema": {"type": "object", "properties": {"n": {"type": "integer", "minimum": 0, "maximum": 2}}, "required": ["n"]}},
                    "application/x-www-form-urlencoded": {"schema": {"type": "object", "properties": {"n": {"type": "integer", "minimum": 0, "maximum": 2}}, "required": ["n"]}},
                    "text/plain": {"schema": {"type": "string", "enum": ["p", "q"]}}}},
                "responses": _OK,
            },
        },
    },
    "components": {"securitySchemes": {
        "ApiKey": {"type": "apiKey", "in": "header", "name": "X-Api-Key"}, "TenantKey": {"type": "apiKey", "in": "header", "name": "X-Tenant-Key"},
        "Token": {"type": "apiKey", "in": "query", "name": "token"}, "Signature": {"type": "apiKey", "in": "query", "name": "signature"},
        "Basic": {"type": "http", "scheme": "basic"}}},
}
MULTI2 = {
    "swagger": "2.0", "info": {"title": "t", "version": "1"}, "consumes": ["application/json", "application/x-www-form-urlencoded"],
    "securityDefinitions": {"ApiKey": {"type": "apiKey", "in": "header", "name": "X-Api-Key"}, "Token": {"type": "apiKey", "in": "query", "name": "token"},
                            "Basic": {"type": "basic"}},
    "paths": {
        "/orders": {
            "get": {
                "security": [{"ApiKey": [], "Token": [], "Basic": []}],
                "parameters": [{"name": "kind", "in": "query", "type": "string", "enum": ["k1", "k2", "k3"], "example": "k1", "x-example": "k2"},
                               {"name": "X-Mode", "in": "header", "type": "string", "enum": ["m1", "m2"], "x-example": "m2", "example": "m1"}],
                "responses": _OK,
            },
            "post": {
                "parameters": [{"name": "body", "in": "body", "required": True,
                                "schema": {"type": "object", "properties": {"n": {"type": "integer", "minimum": 0, "maximum": 2}}, "required": ["n"]}}],
                "responses": _OK,
            },
        },
    },
}
MULTI_DOCS = {"multi3": MULTI3, "multi2": MULTI2}
DOCS = {**ee.DOCS, "rich": RICH, **MULTI_DOCS}
WARMUP_DOC = "link"


def handler(ex: httpseam.Exchange) -> tuple:
    if ex.path == "/fail":
        return httpseam.json_response(500, {})
    if ex.method == "POST":
        return httpseam.json_response(201, {"id": 7})
    return httpseam.json_response(200, {})


VECTOR_FACTORS = ["hashseed", "rand", "warm", "time_offset"]


HASH_ONLY_SEEDS = [0, 1, 2, 3, 4]  # (a pair of names keeps its order under two given hash seeds with probability 1/2)


def vectors(tier: str, kind: str = "full") -> list[dict]:
    ref = {"hashseed": 0, "rand": 1, "warm": False, "time_offset": 0}
    if kind == "hash_only":
        return [{**ref, "hashseed": h} for h in HASH_ONLY_SEEDS]
    alt = {"hashseed": 1, "rand": 2, "warm": True, "time_offset": 86400.5}
    out = [dict(ref)]
    if tier == "quick":
        for f in VECTOR_FACTORS:
            out.append({**ref, f: alt[f]})
        out.append(dict(alt))
    else:
        for mask in range(1, 2 ** len(VECTOR_FACTORS)):
            out.append({f: (alt[f] if mask >> i & 1 else ref[f]) for i, f in enumerate(VECTOR_FACTORS)})
    return out


def items(tier: str, seed: int) -> list[dict]:
    b = BOUNDS[tier]
    out: list[dict] = []
    base_seed = seed
    phase_sets = [["examples"], ["coverage"], ["fuzzing"], ["stateful"], ["examples", "coverage", "fuzzing", "stateful"]]
    if tier == "thorough":
        phase_sets += [["examples", "coverage"], ["coverage", "fuzzing"], ["fuzzing", "stateful"]]
    for doc in ("rich", "unit3", "link"):
        for s in b["seeds"]:
            for phases in phase_sets:
                if doc != "rich" and tier == "quick" and phases not in (["coverage"], ["fuzzing"], phase_sets[4]):
                    continue
                modes_list = [["positive"]]
                if doc == "rich" and phases in (["coverage"], ["fuzzing"]):
                    modes_list.append(["positive", "negative"])
                for modes in modes_list:
                    out.append({"part": "a", "doc": doc, "seed": base_seed + s, "phases": phases, "modes": modes})
    # the order-sensitive documents: hash seed is the only factor varied (the other factors are covered by the documents above)
    for doc in MULTI_DOCS:
        for phases in (["examples"], ["coverage"], ["fuzzing"]):
            modes = ["positive", "negative"] if phases != ["examples"] else ["positive"]
            out.append({"part": "a", "doc": doc, "seed": base_seed, "phases": phases, "modes": modes, "vectors": "hash_only"})
    b_items = [("unit3", ["coverage"]), ("unit3", ["fuzzing"]), ("rich", ["coverage"]), ("unit2", ["examples", "fuzzing"])]
    if tier == "thorough":
        b_items += [("unit3", ["examples", "coverage", "fuzzing"]), ("rich", ["fuzzing"])]
    # `--generation-deterministic` without a seed: Hypothesis derives the PRNG seed from the per-operation test itself
    out.extend(ee.sharded({"part": "b", "doc": "unit3", "phases": ["fuzzing"], "workers": 2, "p": b["preemptions"], "e": 0, "max_examples": 2,
                           "behaviour": "ok", "fault": None, "max_failures": None, "ctrl_c": False, "seed": None}, 2))
    for doc, phases in b_items:
        out.extend(ee.sharded({"part": "b", "doc": doc, "phases": phases, "workers": 2, "p": b["preemptions"], "e": 0, "max_examples": 2,
                               "behaviour": "ok", "fault": None, "max_failures": None, "ctrl_c": False}, 8 if tier == "quick" else 16))
    return out


def run_child(spec: dict, hashseed: int) -> Any:
    with tempfile.NamedTemporaryFile("w", suffix=".json", delete=False) as fd:
        json.dump(spec, fd)
        path = fd.name
    try:
        pythonpath = os.pathsep.join(x for x in (os.environ.get("PYTHONPATH"), str(ROOT)) if x)
        env = dict(os.environ, PYTHONHASHSEED=str(hashseed), PYTHONPATH=pythonpath)
        proc = subprocess.run([sys.executable, "-m", "props.c13_child", path], cwd=str(ROOT), env=env, capture_output=True, text=True, timeout=600)
    finally:
        os.unlink(path)
    for line in proc.stdout.splitlines():
        if line.startswith("C13RESULT"):
            return json.loads(line[len("C13RESULT"):])
    raise RuntimeError(f"child failed: rc={proc.returncode} stderr={proc.stderr[-1500:]}")


def check_a(item: dict, tier: str) -> Result:
    res = Result()
    job = {"doc": item["doc"], "seed": item["seed"], "phases": item["phases"], "modes": item["modes"]}
    reference = None
    kind = item.get("vectors", "full")
    for vec in vectors(tier, kind):
        spec = {"jobs": [job], "rand": vec["rand"], "warm": vec["warm"], "time_offset": vec["time_offset"], "repeat": 2 if kind == "full" else 1}
        runs = run_child(spec, vec["hashseed"])[0]
        res.evaluations += len(runs)
        res.states += 1
        res.transitions += len(runs)
        for idx, run in enumerate(runs):
            res.traces += 1
            total = sum(len(v) for v in run["traffic"].values())
            if reference is None:
                reference = run
                if total:
                    res.nontriv([item, "reference", run["traffic"]])
                if len(res.samples) < 1:
                    res.samples.append({"item": item, "requests_per_phase": {k: len(v) for k, v in run["traffic"].items()},
                                        "first_requests": [r[:2] for v in run["traffic"].values() for r in v][:5]})
                continue
            changed = sorted(f for f in VECTOR_FACTORS if vec[f] != vectors(tier, kind)[0][f]) + (["second_run_in_process"] if idx else [])
            for phase in set(reference["traffic"]) | set(run["traffic"]):
                a, b = reference["traffic"].get(phase, []), run["traffic"].get(phase, [])
                if a != b:
                    first = next((i for i, (x, y) in enumerate(zip(a, b)) if x != y), min(len(a), len(b)))
                    res.violation(
                        {"part": "a", "kind": "traffic_differs_with_same_seed", "phase": phase, "doc": item["doc"],
                         "factors": changed if len(changed) == 1 else ["several"]},
                        {"item": item, "vector": vec, "run_index": idx, "first_difference_at": first,
                         "reference": a[first:first + 1], "observed": b[first:first + 1], "lengths": [len(a), len(b)]})
            if reference["failures"] != run["failures"]:
                res.violation({"part": "a", "kind": "failures_differ_with_same_seed", "doc": item["doc"],
                               "factors": changed if len(changed) == 1 else ["several"]},
                              {"item": item, "vector": vec, "reference": reference["failures"][:5], "observed": run["failures"][:5]})
            if total:
                res.nontriv([item, vec, idx, run["traffic"]])
            res.outcomes.add((total, len(run["failures"])))
    return res


def _per_operation(doc: str, exchanges: list) -> dict:
    out: dict[str, list] = {}
    for x in exchanges:
        path = x.path
        if path.startswith("/items/"):
            path = "/items/{id}"
        if path.startswith("/users/"):
            path = "/users/{id}"
        out.setdefault(f"{x.method} {path}", []).append(repr(x.key()))
    return {k: sorted(v) for k, v in out.items()}


def check_b(item: dict, tier: str) -> Result:
    from mc import engine

    res = Result()
    # the reference: one worker, same process, same configuration
    ref_item = {**item, "workers": 1, "p": 0}
    ref_item.pop("replay_choices", None)
    ref_item.pop("shard", None)
    ee.DOCS.setdefault("rich", RICH)
    ref_multiset = None
    for run, _, _ in ee.explore_item(ref_item, max_executions=1):
        ref_multiset = _per_operation(item["doc"], run.outcome.exchanges)
    cap = BOUNDS[tier]["max_exec_per_item"]
    last_stats = None
    for run, _, stats in ee.explore_item(item, max_executions=cap):
        last_stats = stats
        current_item = item if "replay_choices" in item else {**item, "replay_choices": run.choices}
        res.evaluations += 1
        r = run.outcome
        if r is None or run.aborted:
            res.count("aborted_executions")
            continue
        res.traces += 1
        observed = _per_operation(item["doc"], r.exchanges)
        if observed != ref_multiset:
            ops = sorted(op for op in set(observed) | set(ref_multiset or {}) if observed.get(op) != (ref_multiset or {}).get(op))
            res.violation({"part": "b", "kind": "request_multiset_depends_on_workers", "doc": item["doc"]},
                          {"item": item, "schedule": ee.schedule_brief(run), "operations": ops,
                           "one_worker": {op: (ref_multiset or {}).get(op) for op in ops}, "two_workers": {op: observed.get(op) for op in ops}},
                          current_item)
        if run.switches > 2:
            res.nontriv([item, run.choices])
        res.outcomes.add(tuple(sorted((k, len(v)) for k, v in observed.items())))
    if last_stats is not None:
        res.states += len(last_stats.states)
        res.transitions += last_stats.points
        if last_stats.capped:
            res.exhaustive = False
    return res


def check_item(item: dict, tier: str) -> Result:
    if item["part"] == "a":
        return check_a(item, tier)
    return check_b(item, tier)


def vacuity(total: Result, tier: str) -> list[str]:
    out = []
    if len(total.nontrivial) < 20:
        out.append("fewer than 20 distinct non-empty runs compared")
    return out
