"""C01 - positive-mode data conforms to the API schema.

E2 enumerates small one-operation documents; E1 enumerates every choice path (bounded deviations) of the real
``operation.as_strategy(generation_mode=POSITIVE)``; the independent evaluator judges every produced Case.

Review round 2: whole-operation work items (``kind: extra``, enumerated with their expectation in ``mc/c01_extra.py``) run the
same exploration through ``check_extra`` / ``judge_extra`` below: several inputs per operation, several media types and forms,
readOnly shapes, keyword combinations at their limits, the other declaration spellings and the other entry points.
"""

from __future__ import annotations

import copy
import json
from typing import Any
from urllib.parse import unquote

from mc import c01_extra
from mc import smallscope as ss
from mc.choicetree import Alphabet, Stats, draw_strategy, explore
from mc.runner import Result, digest
from oracles.jsonschema_mini import Evaluator, Unknown, verdict
from props import common

ID = "C01"
LEVEL = "model_checking"
RULE = (
    "work item = one-operation OpenAPI document (schema from a keyword grammar of <=K keywords x location x spec x required "
    "x generation config); for each, every choice path of the real positive strategy with <=d non-default PRNG answers over a "
    "bounded alphabet is executed; a case is non-trivial when it carries a generated value for the parameter under test; "
    "distinct = distinct (document, generated case) pairs; review round 2 adds whole-operation items (mc/c01_extra.py): several "
    "parameters per location, several media types / forms, readOnly shapes, keyword combinations at their limits, declaration "
    "spellings (content, references, neutral keywords, security), and the other entry points / configuration routes"
)
BOUNDS = {
    "quick": {"K": 2, "d": 1, "K_pattern_length": 3, "d_pattern_length": 2, "max_exec_per_tree": 400,
              "whole_operation_d": 2, "engine_max_examples": 12},
    "thorough": {"K": 3, "d": 2, "K_pattern_length": 3, "d_pattern_length": 3, "max_exec_per_tree": 4000,
                 "whole_operation_d": 3, "engine_max_examples": 12},
}
BUDGET_S = {"quick": 150, "thorough": 3000}
CHUNK = 8
ASSUMPTIONS = [
    "draws outside the stated candidate alphabets and beyond d deviations are not explored",
    "conformance is judged by /verif/oracles/jsonschema_mini.py (own code); cases it leaves undecided (e.g. 1.0 vs integer, unknown formats) are never reported",
    "non-body locations use primitives and default-style arrays only, so style decoding (C06) is not involved",
    "entry `engine` / `pytest`: one derandomised execution each of the engine's fuzzing phase and of the test that the pytest "
    "plugin's collector builds (schema.parametrize() mark -> get_all_operations -> create_test); pytest itself is not run; only "
    "cases of the generate phase are judged there",
    "a parameter declared with `content: application/json` is read as JSON text; a security parameter is demanded only when "
    "the operation's single requirement object names it",
]

GROUP_PATTERNS = ["^(?:ab)+$", "^(ab)*$", "^(?:[ab]0)+$", "^(?:ab|ac)+$", "(?:ab)+"]
CHARS_QUICK = ["a", "b", "0", "\x00", "é", "/"]
CHARS_THOROUGH = ["a", "b", "0", "1", "\x00", "é", "/", " ", "%", "€", "\ud800"]


def _schemas(tier: str, spec: str, location: str) -> list[tuple[str, dict, int]]:
    """(family, schema, deviation bound)"""
    b = BOUNDS[tier]
    K, d = b["K"], b["d"]
    if spec != "3.0" and tier == "quick":
        K = 1
    out: list[tuple[str, dict, int]] = []
    seen = set()

    def add(fam: str, s: dict, dev: int) -> None:
        key = digest(s)
        if key not in seen:
            seen.add(key)
            out.append((fam, s, dev))

    for s in ss.string_schemas(K - 1 if K > 1 else 1):
        add("string", s, d)
    # pattern x length sub-grammar, deeper
    for s in ss.string_schemas(b["K_pattern_length"], formats=False):
        if "pattern" in s and ("minLength" in s or "maxLength" in s):
            add("pattern_length", s, b["d_pattern_length"])
    # repeated multi-character groups: the quantifier counts groups, the length keywords count characters
    for s in ss.string_schemas(b["K_pattern_length"], formats=False, patterns=GROUP_PATTERNS):
        if spec != "3.0" or location not in ("query", "body"):
            break  # the converter code is shared by all specs and locations; two locations keep the quick tier small
        if "pattern" in s and ("minLength" in s or "maxLength" in s):
            add("pattern_length", s, b["d_pattern_length"])
    for s in ss.numeric_schemas(K if K > 1 else 1, spec):
        add("numeric", s, d)
    for s in ss.misc_schemas(spec):
        add("misc", s, d)
    for s in ss.array_schemas(1 if tier == "quick" else 2):
        add("array", s, d)
    if location == "body":
        for s in ss.object_schemas():
            add("object", s, d)
    if not (spec == "2.0" and location != "body"):
        for s in ss.combinator_schemas():
            if spec == "2.0" and ("anyOf" in s or "oneOf" in s or "not" in s):
                continue
            add("combinator", s, d)
    return out


def items(tier: str, seed: int) -> list[dict]:
    out = []
    for spec in ("3.0", "2.0", "3.1"):
        for location in ("query", "path", "header", "cookie", "body"):
            if spec == "2.0" and location == "cookie":
                continue
            for fam, schema, dev in _schemas(tier, spec, location):
                if spec == "2.0" and location != "body" and schema.get("type") in (None, "object"):
                    continue  # Swagger 2.0 non-body parameters must have a primitive/array type
                if location == "cookie" and fam == "array":
                    continue  # cookie arrays have no default-style string form that is not C06's subject
                reqs = [True] if location == "path" else ([True, False] if location in ("query", "body") else [True])
                for required in reqs:
                    refs = [0]
                    if fam in ("misc", "pattern_length") and location in ("query", "body") and required:
                        refs = [0, 1, 2] if tier == "thorough" or fam == "misc" else [0, 1]
                    for ref_depth in refs:
                        if ref_depth and spec == "2.0" and location != "body":
                            continue
                        has_str = _has_strings(schema)
                        cfgs = [{"allow_x00": True, "codec": "utf-8"}]
                        if has_str:
                            cfgs.append({"allow_x00": False, "codec": "ascii"})
                            if tier == "thorough":
                                cfgs += [{"allow_x00": False, "codec": "utf-8"}, {"allow_x00": True, "codec": "ascii"}]
                        out.append({"spec": spec, "loc": location, "required": required, "schema": schema, "ref": ref_depth,
                                    "cfgs": cfgs, "d": dev, "family": fam, "security": False})
    # parameters declared on the path item next to the operation's own one: everything that is not overridden by the same
    # (name, location) is an input of the operation (names differing in letter case are different parameters)
    integer = {"type": "integer", "minimum": 1}
    for spec in ("3.0", "2.0", "3.1"):
        for loc in ("query", "cookie", "header"):
            if spec == "2.0" and loc == "cookie":
                continue
            own_name = "X-P" if loc == "header" else "p"
            variants = [
                ("case_variant", [{"name": own_name.upper() if loc != "header" else "X-Q", "in": loc, "required": True, "schema": integer}]),
                ("unrelated", [{"name": "s", "in": loc, "required": True, "schema": integer}]),
                ("same_name_elsewhere", [{"name": own_name, "in": "query" if loc != "query" else "header", "required": True, "schema": integer}]),
                ("overridden", [{"name": own_name, "in": loc, "required": True, "schema": integer}]),
                ("two", [{"name": "s", "in": loc, "required": True, "schema": integer},
                         {"name": "S", "in": loc, "required": True, "schema": {"type": "boolean"}}]),
            ]
            for how, shared in variants:
                if loc == "header" and how == "two":
                    continue  # header names are case-insensitive: `s` and `S` would be one header
                for required in (True, False):
                    out.append({"spec": spec, "loc": loc, "required": required, "schema": {"type": "string", "enum": ["x", "y"]}, "ref": 0,
                                "cfgs": [{"allow_x00": True, "codec": "utf-8"}], "d": BOUNDS[tier]["d"], "family": "shared",
                                "security": False, "shared": shared, "shared_how": how})
    # security parameters on/off (apiKey in header and query)
    for spec in ("3.0", "2.0"):
        for sec_on in (True, False):
            out.append({"spec": spec, "loc": "query", "required": True, "schema": {"type": "integer", "minimum": 1}, "ref": 0,
                        "cfgs": [{"allow_x00": True, "codec": "utf-8", "with_security_parameters": sec_on}], "d": BOUNDS[tier]["d"],
                        "family": "security", "security": True})
    out += c01_extra.extra_items(tier)
    return out


def _has_strings(schema: Any) -> bool:
    if isinstance(schema, dict):
        t = schema.get("type")
        if t == "string" or (isinstance(t, list) and "string" in t) or t is None:
            return True
        return any(_has_strings(v) for v in schema.values())
    if isinstance(schema, list):
        return any(_has_strings(v) for v in schema)
    return False


def build(item: dict) -> tuple[dict, dict]:
    """Returns (document, expectation)."""
    spec, loc = item["spec"], item["loc"]
    schema = copy.deepcopy(item["schema"])
    variants = list(ss.ref_variants(schema, spec))
    used, components = variants[item["ref"]]
    params: list[dict] = []
    body = None
    path = "/t"
    if loc == "body":
        body = {"required": item["required"], "content": {"application/json": {"schema": used}}}
    else:
        name = "p" if loc != "header" else "X-P"
        params.append({"name": name, "in": loc, "required": item["required"], "schema": used})
        if loc == "path":
            path = "/t/{p}"
    security = None
    if item["security"]:
        security = {"K1": {"type": "apiKey", "in": "header", "name": "X-Key"}, "K2": {"type": "apiKey", "in": "query", "name": "key"}}
    doc = ss.make_document(spec, path=path, method="post" if loc == "body" else "get", parameters=params, body=body,
                           components=copy.deepcopy(components), security=security)
    effective = list(params)
    if item.get("shared"):
        shared = copy.deepcopy(item["shared"])
        own_keys = {(p["name"], p["in"]) for p in params}
        effective += [p for p in shared if (p["name"], p["in"]) not in own_keys]
        if spec == "2.0":
            shared = [{**{k: v for k, v in p.items() if k != "schema"}, **p["schema"]} for p in shared]
        doc["paths"][path]["parameters"] = shared
    params = effective
    expect = {"params": params, "body": body, "path": path, "method": "post" if loc == "body" else "get",
              "security": security, "schema": used}
    return doc, expect


def brute_force_satisfiable(doc: dict, schema: Any, location: str, spec: str) -> bool | None:
    undecided = False
    for cand in ss.candidate_values():
        if location != "body" and isinstance(cand, dict):
            continue
        if location == "path" and (cand is None or cand == "" or cand == []):
            continue  # an empty path segment cannot be sent
        v = verdict(doc, schema, cand, spec=spec) if location == "body" else common.param_verdict(doc, schema, cand, location, spec)
        if v is True:
            # headers, cookies, path and query carry strings: reject candidates the wire cannot carry
            return True
        if v is None:
            undecided = True
    return None if undecided else False


def check_item(item: dict, tier: str) -> Result:
    from schemathesis.core import NOT_SET
    from schemathesis.generation import GenerationConfig, GenerationMode

    if item.get("kind") == "extra":
        return check_extra(item, tier)
    res = Result()
    doc, expect = build(item)
    spec, loc = item["spec"], item["loc"]
    chars = CHARS_QUICK if tier == "quick" else CHARS_THOROUGH
    for cfg in item["cfgs"]:
        common.reset_schemathesis_caches()
        sig_base = {"family": item["family"], "location": loc}
        if loc in ("header", "cookie") and isinstance(item["schema"], dict) and "type" not in item["schema"]:
            # call-site fact: OpenAPIParameter.transform_keywords forces `type: string` on header/cookie schemas without a type
            sig_base["forced_string_type"] = True
        try:
            config = GenerationConfig(modes=[GenerationMode.POSITIVE], allow_x00=cfg["allow_x00"], codec=cfg["codec"],
                                      with_security_parameters=cfg.get("with_security_parameters", True))
            schema = common.load(doc).configure(generation=config)
            operation = schema[expect["path"]][expect["method"].upper()]
            strategy = operation.as_strategy(generation_mode=GenerationMode.POSITIVE, generation_config=config)
        except Exception as exc:  # noqa: BLE001
            _construction_failed(res, item, doc, expect, exc, sig_base)
            continue
        stats = Stats()
        alphabet = Alphabet(chars=chars)
        valid = 0
        errors: list[BaseException] = []
        for ex in explore(draw_strategy(strategy), alphabet, item["d"], max_executions=BOUNDS[tier]["max_exec_per_tree"], stats=stats):
            res.evaluations += 1
            if ex.status == "valid":
                valid += 1
                res.traces += 1
                judge(res, item, doc, expect, cfg, ex.value, ex.choices)
            elif ex.status == "error":
                errors.append(ex.error)
            res.outcomes.add(ex.status)
        res.states += stats.nodes
        res.transitions += stats.edges
        if not stats.exhausted:
            res.count("trees_not_exhausted")
        else:
            res.count("trees_exhausted")
        if stats.capped:
            res.exhaustive = False
            res.count("trees_capped")
        if valid == 0:
            sat = brute_force_satisfiable(doc, expect["schema"], loc, spec)
            if errors and sat:
                res.violation({**sig_base, "kind": "generation_error_on_satisfiable_schema", "error": type(errors[0]).__name__},
                              {"schema": item["schema"], "error": repr(errors[0])[:300], "cfg": cfg})
            elif stats.exhausted and sat:
                res.violation({**sig_base, "kind": "no_positive_case_on_satisfiable_schema", **common.pattern_facts(item["schema"])},
                              {"schema": item["schema"], "cfg": cfg, "executions": stats.executions})
            else:
                res.count("no_valid_case_undecided")
    return res


def _construction_failed(res: Result, item: dict, doc: dict, expect: dict, exc: BaseException, sig_base: dict) -> None:
    sat = brute_force_satisfiable(doc, expect["schema"], item["loc"], item["spec"])
    res.evaluations += 1
    res.outcomes.add("construction_error")
    if sat:
        res.violation({**sig_base, "kind": "strategy_construction_failed_on_satisfiable_schema", "error": type(exc).__name__},
                      {"schema": item["schema"], "error": repr(exc)[:300]})


def judge(res: Result, item: dict, doc: dict, expect: dict, cfg: dict, case: Any, choices: list[int]) -> None:
    from schemathesis.core import NOT_SET
    from schemathesis.generation import GenerationMode

    spec, loc = item["spec"], item["loc"]
    summary = common.summarize_case(case)
    base = {"family": item["family"], "location": loc}
    detail = {"schema": item["schema"], "case": summary, "choices": choices, "cfg": cfg, "spec": spec, "required": item["required"]}
    tested_value_present = False
    # declared parameters
    for p in expect["params"]:
        container = getattr(case, common.CONTAINER[p["in"]]) or {}
        name = p["name"]
        if name not in container:
            if p["required"] or p["in"] == "path":
                res.violation({**base, "kind": "required_parameter_missing"}, detail)
            continue
        tested_value_present = True
        value = container[name]
        v = common.param_verdict(doc, p["schema"], value, p["in"], spec)
        if v is False:
            kws = common.failing_keywords(doc, p["schema"], value, p["in"], spec)
            res.violation({**base, "kind": "positive_value_violates_schema", "keywords": kws, **common.pattern_facts(item["schema"])}, detail)
        elif v is None:
            res.count("undecided_values")
        # undeclared names in the location
    for location in common.LOCATIONS:
        container = getattr(case, common.CONTAINER[location]) or {}
        declared = {p["name"] for p in expect["params"] if p["in"] == location}
        sec = set()
        if expect["security"] and cfg.get("with_security_parameters", True):
            sec = {s["name"] for s in expect["security"].values() if s["in"] == location}
        extra = set(container) - declared - sec
        if extra:
            res.violation({**base, "kind": "undeclared_parameter_sent", "where": location}, detail | {"extra": sorted(extra)})
        if expect["security"]:
            for s in expect["security"].values():
                if s["in"] != location:
                    continue
                present = s["name"] in container
                if cfg.get("with_security_parameters", True) and not present:
                    res.violation({**base, "kind": "security_parameter_missing", "where": location}, detail)
                if not cfg.get("with_security_parameters", True) and present:
                    res.violation({**base, "kind": "security_parameter_sent_when_disabled", "where": location}, detail)
    # body
    if expect["body"] is not None:
        body_schema = expect["body"]["content"]["application/json"]["schema"]
        if case.body is NOT_SET:
            if expect["body"].get("required"):
                res.violation({**base, "kind": "required_body_missing"}, detail)
        else:
            tested_value_present = True
            v = verdict(doc, body_schema, case.body, spec=spec)
            if v is False:
                kws = common.failing_keywords(doc, body_schema, case.body, "body", spec)
                res.violation({**base, "kind": "positive_value_violates_schema", "keywords": kws, **common.pattern_facts(item["schema"])}, detail)
            elif v is None:
                res.count("undecided_values")
            if case.media_type != "application/json":
                res.violation({**base, "kind": "wrong_media_type"}, detail)
    elif case.body is not NOT_SET:
        res.violation({**base, "kind": "body_sent_without_definition"}, detail)
    # string restrictions
    strings = []
    for part in (case.path_parameters, case.query, case.headers, case.cookies, None if case.body is NOT_SET else case.body):
        if part is not None:
            strings.extend(common.all_strings(dict(part) if hasattr(part, "items") else part))
    for s in strings:
        if not cfg["allow_x00"] and "\x00" in s:  # the literal text "%00" is three ordinary characters, not a NUL
            res.violation({**base, "kind": "nul_character_with_allow_x00_false"}, detail)
            break
    if cfg["codec"]:
        for s in strings:
            try:
                s.encode(cfg["codec"])
            except UnicodeEncodeError:
                res.violation({**base, "kind": "string_not_encodable_in_codec", "codec": cfg["codec"]}, detail)
                break
    # labels
    for kind, info in case.meta.components.items():
        if info.mode != GenerationMode.POSITIVE:
            res.violation({**base, "kind": "component_not_labelled_positive"}, detail)
    if case.meta.generation.mode != GenerationMode.POSITIVE:
        res.violation({**base, "kind": "case_not_labelled_positive"}, detail)
    if tested_value_present:
        res.nontriv([item["schema"], item["spec"], loc, item["ref"], summary, cfg])
    if len(res.samples) < 3:
        res.samples.append({"schema": item["schema"], "spec": spec, "location": loc, "cfg": cfg, "choices": choices, "case": summary})

# -- review round 2: whole-operation items (enumerated in mc/c01_extra.py) --------------------------------------------------

EXTRA_FAMILIES = ("multi", "media", "objects", "values", "declaration", "security", "entry")
EXTRA_MAX_EXEC = {"quick": 3000, "thorough": 20000}


def _plain(value: Any) -> Any:
    """JSON-able copy of generated data (``type: file`` / ``format: binary`` values are wrapper objects around bytes)."""
    if isinstance(value, dict):
        return {str(k): _plain(v) for k, v in value.items()}
    if isinstance(value, (list, tuple)):
        return [_plain(v) for v in value]
    if isinstance(value, bytes):
        return {"$bytes": value.hex()}
    if isinstance(value, (str, int, float, bool)) or value is None:
        return value
    data = getattr(value, "data", None)
    if isinstance(data, bytes):
        return {"$binary": data.hex()}
    return repr(value)


def _media_key(media_type: Any) -> str:
    """type/subtype in lower case, parameters dropped (RFC 7231: both are case-insensitive; parameters do not select a schema)."""
    return str(media_type).split(";")[0].strip().lower()


def _find(container: Any, name: str, location: str) -> tuple[bool, Any]:
    for key in container:
        if key == name or (location == "header" and str(key).lower() == name.lower()):
            return True, container[key]
    return False, None


def _generation_config(cfg: dict) -> Any:
    from schemathesis.generation import GenerationConfig, GenerationMode

    return GenerationConfig(modes=[GenerationMode.POSITIVE], allow_x00=cfg["allow_x00"], codec=cfg["codec"],
                            with_security_parameters=cfg.get("with_security_parameters", True))


def _extra_strategy(item: dict, cfg: dict, schema: Any = None) -> tuple[Any, Any]:
    """(loaded schema, real positive strategy) through the item's entry point and configuration route."""
    from schemathesis.generation import GenerationMode

    config = _generation_config(cfg)
    how, entry = item["cfg_how"], item["entry"]
    if schema is None:
        schema = common.load(item["doc"])
        if how in ("both", "stored"):
            schema = schema.configure(generation=config)
    kwargs: dict[str, Any] = {"generation_mode": GenerationMode.POSITIVE}
    if how in ("both", "call"):
        kwargs["generation_config"] = config
    op0 = item["expect"]["ops"][0]
    path, method = op0["path"], op0["method"]
    if entry in ("lookup", "sequence"):
        return schema, schema[path][method.upper()].as_strategy(**kwargs)
    if entry in ("iter", "iter_cfg"):
        results = schema.get_all_operations(generation_config=config) if entry == "iter_cfg" else schema.get_all_operations()
        operations = [r.ok() for r in results]
        operation = next(o for o in operations if o.path == path and o.method.lower() == method)
        return schema, operation.as_strategy(**kwargs)
    if entry == "schema":
        return schema, schema.as_strategy(**kwargs)
    if entry == "pathmap":
        return schema, schema[path].as_strategy(**kwargs)
    if entry == "by_id":
        return schema, schema.get_operation_by_id(op0["operationId"]).as_strategy(**kwargs)
    if entry == "by_ref":
        pointer = "#/paths/" + path.replace("~", "~0").replace("/", "~1") + "/" + method
        return schema, schema.get_operation_by_reference(pointer).as_strategy(**kwargs)
    raise ValueError(entry)


def _extra_satisfiable(doc: dict, op: dict, spec: str) -> bool | None:
    """True only if EVERY declared input of the operation has a conforming value among the brute-force candidates."""
    verdicts: list[bool | None] = []
    for p in op["params"]:
        if p["content_json"]:
            verdicts.append(None if p["in"] == "path" else brute_force_satisfiable(doc, p["schema"], "body", spec))
        else:
            verdicts.append(brute_force_satisfiable(doc, p["schema"], p["in"], spec))
    for b in op["bodies"] or []:
        verdicts.append(brute_force_satisfiable(doc, b["schema"], "body", spec))
    for p in (op["form"] or {}).get("params", []):
        verdicts.append(brute_force_satisfiable(doc, p["schema"], "body", spec))
    return True if all(v is True for v in verdicts) else None


def _engine_cases(item: dict, cfg: dict, tier: str, res: Result) -> list:
    from mc import engine

    config = _generation_config(cfg)
    schema = engine.load_schema(item["doc"], generation=config)
    run = engine.run_engine(schema, engine.make_config(phases=["fuzzing"], max_examples=BOUNDS[tier]["engine_max_examples"], seed=1,
                                                       workers=1, generation=config))
    res.states += len(run.events)
    res.transitions += len(run.exchanges)
    if run.error is not None or run.of_type("NonFatalError"):
        res.count("engine_run_with_errors")
        return []
    return [node.value for e in run.of_type("ScenarioFinished") for node in e.recorder.cases.values()]


def _pytest_cases(item: dict, cfg: dict, tier: str, res: Result) -> list:
    """What the pytest plugin's collector does with ``@schema.parametrize()``, without a pytest session."""
    import hypothesis

    from schemathesis.generation.hypothesis.builder import HypothesisTestConfig, HypothesisTestMode, create_test
    from schemathesis.generation.meta import TestPhase
    from schemathesis.pytest.plugin import SchemaHandleMark

    schema = common.load(item["doc"]).configure(generation=_generation_config(cfg))
    seen: list = []

    @hypothesis.settings(max_examples=BOUNDS[tier]["engine_max_examples"], derandomize=True, database=None, deadline=None,
                         suppress_health_check=list(hypothesis.HealthCheck))
    def test_api(case: Any) -> None:
        seen.append(case)

    marked = schema.parametrize()(test_api)
    handle = SchemaHandleMark.get(marked)
    for result in handle.get_all_operations():
        test = create_test(operation=result.ok(), test_func=marked,
                           config=HypothesisTestConfig(modes=list(HypothesisTestMode), given_kwargs={}, generation=handle.generation_config))
        test()
        res.states += 1
    return [c for c in seen if c.meta is not None and c.meta.phase.name == TestPhase.GENERATE]


def check_extra(item: dict, tier: str) -> Result:
    res = Result()
    chars = CHARS_QUICK if tier == "quick" else CHARS_THOROUGH
    entry = item["entry"]
    sig_base = {"family": item["family"], "shape": item["shape"]}
    common.reset_schemathesis_caches()
    if entry in ("engine", "pytest"):
        for cfg in item["cfgs"]:
            common.reset_schemathesis_caches()
            cases = (_engine_cases if entry == "engine" else _pytest_cases)(item, cfg, tier, res)
            res.evaluations += 1
            res.outcomes.add(f"{entry}:{'cases' if cases else 'no_case'}")
            for case in cases:
                res.traces += 1
                res.count(f"entry_cases_{entry}")
                judge_extra(res, item, cfg, case, [])
        return res
    shared_schema = None
    for index, cfg in enumerate(item["cfgs"]):
        if entry != "sequence":
            common.reset_schemathesis_caches()
        try:
            # `sequence`: the SAME schema and operation objects are asked again, with the next configuration
            shared_schema, strategy = _extra_strategy(item, cfg, shared_schema if entry == "sequence" else None)
        except Exception as exc:  # noqa: BLE001
            res.evaluations += 1
            res.outcomes.add("construction_error")
            if item["liveness"] and len(item["expect"]["ops"]) == 1 and _extra_satisfiable(item["doc"], item["expect"]["ops"][0], item["spec"]):
                res.violation({**sig_base, "kind": "strategy_construction_failed_on_satisfiable_schema", "error": type(exc).__name__},
                              {"doc": item["doc"], "error": repr(exc)[:300], "cfg": cfg, "entry": entry})
            continue
        stats = Stats()
        valid = 0
        errors: list[BaseException] = []
        for ex in explore(draw_strategy(strategy), Alphabet(chars=chars), item["d"], max_executions=EXTRA_MAX_EXEC[tier], stats=stats):
            res.evaluations += 1
            if ex.status == "valid":
                valid += 1
                res.traces += 1
                if entry == "sequence" and index > 0:
                    res.count("sequence_later_config_cases")
                judge_extra(res, item, cfg, ex.value, ex.choices)
            elif ex.status == "error":
                errors.append(ex.error)
            res.outcomes.add(ex.status)
        res.states += stats.nodes
        res.transitions += stats.edges
        res.count("trees_exhausted" if stats.exhausted else "trees_not_exhausted")
        if stats.capped:
            res.exhaustive = False
            res.count("trees_capped")
        if valid == 0:
            sat = None
            if item["liveness"] and len(item["expect"]["ops"]) == 1:
                sat = _extra_satisfiable(item["doc"], item["expect"]["ops"][0], item["spec"])
            if errors and sat:
                res.violation({**sig_base, "kind": "generation_error_on_satisfiable_schema", "error": type(errors[0]).__name__},
                              {"doc": item["doc"], "error": repr(errors[0])[:300], "cfg": cfg, "entry": entry})
            elif stats.exhausted and sat:
                res.violation({**sig_base, "kind": "no_positive_case_on_satisfiable_schema"},
                              {"doc": item["doc"], "cfg": cfg, "executions": stats.executions, "entry": entry})
            else:
                res.count("no_valid_case_undecided")
    return res


def _readonly_facts(root: dict, schema: Any, value: Any, spec: str) -> dict:
    """Is a readOnly property present in the value, and how does the schema level that owns it spell its `type`?"""
    ev = Evaluator(root, spec=spec)
    owners: list[str] = []

    def walk(sch: Any, val: Any, depth: int) -> None:
        if depth > 12:
            return
        try:
            s = ev.resolve(sch)
        except Unknown:
            return
        if not isinstance(s, dict):
            return
        if isinstance(val, dict):
            props = s.get("properties", {}) if isinstance(s.get("properties", {}), dict) else {}
            for name, sub in props.items():
                if name not in val:
                    continue
                try:
                    rs = ev.resolve(sub)
                except Unknown:
                    continue
                if isinstance(rs, dict) and rs.get("readOnly") is True:
                    t = s.get("type")
                    owners.append("absent" if t is None else ("list" if isinstance(t, list) else str(t)))
                else:
                    walk(sub, val[name], depth + 1)
            ap = s.get("additionalProperties")
            if isinstance(ap, dict):
                for name in val:
                    if name not in props:
                        walk(ap, val[name], depth + 1)
        if isinstance(val, (list, tuple)) and isinstance(s.get("items"), dict):
            for x in val:
                walk(s["items"], x, depth + 1)
        for kw in ("allOf", "anyOf", "oneOf"):
            for sub in s.get(kw, []) if isinstance(s.get(kw), list) else []:
                walk(sub, val, depth + 1)

    walk(schema, value, 0)
    if not owners:
        return {}
    return {"readonly_property_sent": True, "readonly_owner_type": sorted(set(owners))}


def _named_values(node: Any, out: list) -> list:
    """Every enum member / const value written anywhere in the document."""
    if isinstance(node, dict):
        for key, val in node.items():
            if key == "enum" and isinstance(val, list):
                out.extend(val)
            elif key == "const":
                out.append(val)
            _named_values(val, out)
    elif isinstance(node, list):
        for val in node:
            _named_values(val, out)
    return out


def _extra_param_verdict(doc: dict, p: dict, value: Any, spec: str) -> bool | None:
    v = common.param_verdict(doc, p["schema"], value, p["in"], spec)
    if not p["content_json"] or v is True or not isinstance(value, str):
        return v
    # `content: application/json`: the wire string is JSON text
    texts = [value] + ([unquote(value)] if p["in"] == "path" else [])
    for text in texts:
        try:
            decoded = json.loads(text)
        except ValueError:
            continue
        v2 = verdict(doc, p["schema"], decoded, spec=spec)
        if v2 is True:
            return True
        if v2 is None:
            v = None
    return v


def judge_extra(res: Result, item: dict, cfg: dict, case: Any, choices: list[int]) -> None:
    from schemathesis.core import NOT_SET
    from schemathesis.generation import GenerationMode

    doc, spec, entry = item["doc"], item["spec"], item["entry"]
    summary = _plain(common.summarize_case(case))
    base = {"family": item["family"], "shape": item["shape"]}
    detail = {"doc": doc, "case": summary, "choices": choices, "cfg": cfg, "spec": spec, "entry": entry, "cfg_how": item["cfg_how"]}
    res.count(f"xcases_{item['family']}")
    res.count(f"entry_{entry}")
    op = next((o for o in item["expect"]["ops"]
               if o["path"] == case.operation.path and o["method"].lower() == str(case.operation.method).lower()), None)
    if op is None:
        res.violation({**base, "kind": "case_for_undeclared_operation"}, detail)
        return
    detail["operation"] = f"{op['method'].upper()} {op['path']}"
    sec_on = cfg.get("with_security_parameters", True)
    containers = {loc: (getattr(case, common.CONTAINER[loc]) or {}) for loc in common.LOCATIONS}
    carries_value = False
    # declared parameters
    for p in op["params"]:
        found, value = _find(containers[p["in"]], p["name"], p["in"])
        if not found:
            if p["required"]:
                res.violation({**base, "kind": "required_parameter_missing", "location": p["in"]}, detail | {"parameter": p["name"]})
            continue
        carries_value = True
        if p["content_json"]:
            res.count("content_json_values_judged")
        v = _extra_param_verdict(doc, p, value, spec)
        if v is False:
            kws = common.failing_keywords(doc, p["schema"], value, p["in"], spec)
            res.violation({**base, "kind": "positive_value_violates_schema", "location": p["in"], "keywords": kws,
                           **common.pattern_facts(p["schema"])}, detail | {"parameter": p["name"], "schema": p["schema"]})
        elif v is None:
            res.count("undecided_values")
    # names nobody declared; security parameters
    for location in common.LOCATIONS:
        def same(a: str, b: str) -> bool:
            return a == b or (location == "header" and a.lower() == b.lower())

        declared = [p["name"] for p in op["params"] if p["in"] == location]
        security = [s for s in op["security"] if s["in"] == location]
        allowed = declared + ([s["name"] for s in security] if sec_on else [])
        extra = sorted(str(k) for k in containers[location] if not any(same(str(k), n) for n in allowed))
        if extra:
            res.violation({**base, "kind": "undeclared_parameter_sent", "where": location}, detail | {"extra": extra})
        for s in security:
            if any(same(s["name"], n) for n in declared):
                res.count("security_name_declared_by_operation")
                continue  # the operation's own declaration of that name is what the value is judged by (above)
            present = _find(containers[location], s["name"], location)[0]
            if sec_on and not present:
                res.violation({**base, "kind": "security_parameter_missing", "where": location}, detail)
            if not sec_on and present:
                res.violation({**base, "kind": "security_parameter_sent_when_disabled", "where": location}, detail)
            if present:
                res.count("security_values_seen")
    # body
    body_set = case.body is not NOT_SET
    if op["form"]:
        form = op["form"]
        if not body_set:
            if any(p["required"] for p in form["params"]):
                res.violation({**base, "kind": "required_body_missing"}, detail)
        elif not isinstance(case.body, dict):
            res.violation({**base, "kind": "form_body_is_not_an_object"}, detail)
        else:
            carries_value = True
            res.count("form_bodies_judged")
            if _media_key(case.media_type) not in {_media_key(m) for m in form["media_types"]}:
                res.violation({**base, "kind": "wrong_media_type"}, detail)
            names = {p["name"] for p in form["params"]}
            extra = sorted(str(k) for k in case.body if k not in names)
            if extra:
                res.violation({**base, "kind": "undeclared_parameter_sent", "where": "formData"}, detail | {"extra": extra})
            for p in form["params"]:
                if p["name"] not in case.body:
                    if p["required"]:
                        res.violation({**base, "kind": "required_parameter_missing", "location": "formData"}, detail | {"parameter": p["name"]})
                    continue
                value = _plain(case.body[p["name"]]) if p["schema"].get("type") != "file" else case.body[p["name"]]
                v = verdict(doc, p["schema"], value, spec=spec)
                if v is False:
                    v = common.param_verdict(doc, p["schema"], value, "query", spec)  # form fields travel as text as well
                if v is False:
                    kws = common.failing_keywords(doc, p["schema"], value, "body", spec)
                    res.violation({**base, "kind": "positive_value_violates_schema", "location": "formData", "keywords": kws},
                                  detail | {"parameter": p["name"], "schema": p["schema"]})
                elif v is None:
                    res.count("undecided_values")
    elif op["bodies"] is not None:
        if not body_set:
            if op["body_required"]:
                res.violation({**base, "kind": "required_body_missing"}, detail)
            else:
                res.count("optional_body_left_out")
        else:
            carries_value = True
            res.count(f"body_media_{_media_key(case.media_type)}")
            matching = [b for b in op["bodies"] if _media_key(b["media_type"]) == _media_key(case.media_type)]
            if not matching:
                res.violation({**base, "kind": "wrong_media_type"}, detail)
            else:
                verdicts = [verdict(doc, b["schema"], case.body, spec=spec) for b in matching]
                if all(v is False for v in verdicts):
                    schema = matching[0]["schema"]
                    kws = common.failing_keywords(doc, schema, case.body, "body", spec)
                    res.violation({**base, "kind": "positive_value_violates_schema", "location": "body", "keywords": kws,
                                   **common.pattern_facts(schema), **_readonly_facts(doc, schema, case.body, spec)},
                                  detail | {"schema": schema})
                elif not any(v is True for v in verdicts):
                    res.count("undecided_values")
    elif body_set:
        res.violation({**base, "kind": "body_sent_without_definition"}, detail)
    # string restrictions
    strings: list[tuple[str, str]] = []
    for location in common.LOCATIONS:
        part = containers[location]
        for key in part:
            for s in common.all_strings([str(key), part[key]]):
                strings.append((location + ":" + str(key), s))
    if body_set:
        strings.extend(("body", s) for s in common.all_strings(case.body))
    named = [n for n in _named_values(doc, []) if isinstance(n, str)]

    def restriction_facts(where: str, s: str) -> dict:
        facts: dict[str, Any] = {}
        if s in named:
            facts["value_named_by_schema"] = True  # an enum member / const written in the document itself
        location, _, name = where.partition(":")
        if location == "body":
            declared_schemas = [b["schema"] for b in op["bodies"] or [] if _media_key(b["media_type"]) == _media_key(case.media_type)]
        else:
            declared_schemas = [p["schema"] for p in op["params"] if p["in"] == location and _find({name: 1}, p["name"], location)[0]]
        for sch in declared_schemas:
            try:
                resolved = Evaluator(doc, spec=spec).resolve(sch)
            except Unknown:
                continue
            if isinstance(resolved, dict) and "type" not in resolved:
                facts["schema_without_type"] = True  # the declaration admits values of any JSON type
        for sec in op["security"]:
            if sec["in"] == location and (sec["name"] == name or (location == "header" and sec["name"].lower() == name.lower())) \
                    and not any(p["in"] == location and p["name"].lower() == name.lower() for p in op["params"]):
                facts["security_kind"] = sec["kind"]
        return facts

    if not cfg["allow_x00"]:
        for where, s in strings:
            if "\x00" in s:
                res.violation({**base, "kind": "nul_character_with_allow_x00_false", **restriction_facts(where, s)}, detail | {"where": where})
                break
    if cfg["codec"]:
        for where, s in strings:
            try:
                s.encode(cfg["codec"])
            except UnicodeEncodeError:
                res.violation({**base, "kind": "string_not_encodable_in_codec", "codec": cfg["codec"], **restriction_facts(where, s)},
                              detail | {"where": where})
                break
    # labels
    for info in case.meta.components.values():
        if info.mode != GenerationMode.POSITIVE:
            res.violation({**base, "kind": "component_not_labelled_positive"}, detail)
    if case.meta.generation.mode != GenerationMode.POSITIVE:
        res.violation({**base, "kind": "case_not_labelled_positive"}, detail)
    if carries_value:
        res.nontriv([digest(doc), entry, item["cfg_how"], summary, cfg])
    if item["family"] == "objects":
        res.count("readonly_shapes_judged")


def vacuity(total: Result, tier: str) -> list[str]:
    out = []
    if total.traces == 0:
        out.append("no valid case was produced at all")
    if len(total.outcomes) < 2:
        out.append("a single execution outcome class")
    if total.counters.get("trees_exhausted", 0) == 0:
        out.append("no choice tree was exhausted (liveness undecided everywhere)")
    c = total.counters
    for family in EXTRA_FAMILIES:
        if not c.get(f"xcases_{family}"):
            out.append(f"whole-operation family `{family}` produced no judged case")
    for entry in ("lookup", "iter", "iter_cfg", "schema", "pathmap", "by_id", "by_ref", "sequence", "engine", "pytest"):
        if not c.get(f"entry_{entry}"):
            out.append(f"entry point `{entry}` produced no judged case")
    for key, what in (("sequence_later_config_cases", "no case was drawn from an operation that had been asked before"),
                      ("content_json_values_judged", "no `content` parameter value was judged"),
                      ("form_bodies_judged", "no formData body was judged"),
                      ("body_media_text/plain", "the second media type of a request body was never chosen"),
                      ("optional_body_left_out", "an optional body was never left out"),
                      ("security_name_declared_by_operation", "no security parameter met a declared parameter of the same name"),
                      ("security_values_seen", "no generated security parameter was seen"),
                      ("readonly_shapes_judged", "no readOnly shape was judged")):
        if not c.get(key):
            out.append(what)
    return out

ENGINES = ["E2", "E1"]
TECHNIQUE = "exhaustive choice-tree enumeration (deviation-bounded stateless DFS over every PRNG answer of the real strategy) over an exhaustively enumerated small-schema grammar, judged by an independent schema evaluator"
LEVEL_TEXT = (
    "Every positive case the real strategy can produce for each small document, over the stated draw alphabet and up to d "
    "non-default PRNG answers, is executed and judged; liveness (cases are produced for satisfiable inputs) is judged only on "
    "fully exhausted trees. This replaces luck with enumeration, which is what a universally quantified data property needs."
)
LEVEL_NOTE = (
    "Trusted: the independent evaluator oracles/jsonschema_mini.py and the Hypothesis PrimitiveProvider seam. Not covered: draws "
    "outside the candidate alphabets / beyond d deviations, schemas outside the keyword grammar."
)
