"""C01 - positive-mode data conforms to the API schema.

E2 enumerates small one-operation documents; E1 enumerates every choice path (bounded deviations) of the real
``operation.as_strategy(generation_mode=POSITIVE)``; the independent evaluator judges every produced Case.
"""

from __future__ import annotations

import copy
from typing import Any

from mc import smallscope as ss
from mc.choicetree import Alphabet, Stats, draw_strategy, explore
from mc.runner import Result, digest
from oracles.jsonschema_mini import verdict
from props import common

ID = "C01"
LEVEL = "model_checking"
RULE = (
    "work item = one-operation OpenAPI document (schema from a keyword grammar of <=K keywords x location x spec x required "
    "x generation config); for each, every choice path of the real positive strategy with <=d non-default PRNG answers over a "
    "bounded alphabet is executed; a case is non-trivial when it carries a generated value for the parameter under test; "
    "distinct = distinct (document, generated case) pairs"
)
BOUNDS = {
    "quick": {"K": 2, "d": 1, "K_pattern_length": 3, "d_pattern_length": 2, "max_exec_per_tree": 400},
    "thorough": {"K": 3, "d": 2, "K_pattern_length": 3, "d_pattern_length": 3, "max_exec_per_tree": 4000},
}
BUDGET_S = {"quick": 150, "thorough": 3000}
CHUNK = 8
ASSUMPTIONS = [
    "draws outside the stated candidate alphabets and beyond d deviations are not explored",
    "conformance is judged by /verif/oracles/jsonschema_mini.py (own code); cases it leaves undecided (e.g. 1.0 vs integer, unknown formats) are never reported",
    "non-body locations use primitives and default-style arrays only, so style decoding (C06) is not involved",
]

GROUP_PATTERNS = ["^(?:ab)+$", "^(ab)*$", "^(?:[ab]0)+$", "^(?:ab|ac)+$", "(?:ab)+"]
CHARS_QUICK = ["a", "b", "0", "\x00", "é", "/"]
CHARS_THOROUGH = ["a", "b", "0", "1", "\x00", "é", "/", " ", "%", "€", "\ud800"]


def _schemas(tier: str, spec: str, location: str) -> list[tuple[str, dict, int]]:
    """(family, schema, deviation bound)"""
    b = BOUNDS[tier]
    K, d = b["K"], b["d"]
    if spec != "3.0" and tier == "quick":
        K = 1
    out: list[tuple[str, dict, int]] = []
    seen = set()

    def add(fam: str, s: dict, dev: int) -> None:
        key = digest(s)
        if key not in seen:
            seen.add(key)
            out.append((fam, s, dev))

    for s in ss.string_schemas(K - 1 if K > 1 else 1):
        add("string", s, d)
    # pattern x length sub-grammar, deeper
    for s in ss.string_schemas(b["K_pattern_length"], formats=False):
        if "pattern" in s and ("minLength" in s or "maxLength" in s):
            add("pattern_length", s, b["d_pattern_length"])
    # repeated multi-character groups: the quantifier counts groups, the length keywords count characters
    for s in ss.string_schemas(b["K_pattern_length"], formats=False, patterns=GROUP_PATTERNS):
        if spec != "3.0" or location not in ("query", "body"):
            break  # the converter code is shared by all specs and locations; two locations keep the quick tier small
        if "pattern" in s and ("minLength" in s or "maxLength" in s):
            add("pattern_length", s, b["d_pattern_length"])
    for s in ss.numeric_schemas(K if K > 1 else 1, spec):
        add("numeric", s, d)
    for s in ss.misc_schemas(spec):
        add("misc", s, d)
    for s in ss.array_schemas(1 if tier == "quick" else 2):
        add("array", s, d)
    if location == "body":
        for s in ss.object_schemas():
            add("object", s, d)
    if not (spec == "2.0" and location != "body"):
        for s in ss.combinator_schemas():
            if spec == "2.0" and ("anyOf" in s or "oneOf" in s or "not" in s):
                continue
            add("combinator", s, d)
    return out


def items(tier: str, seed: int) -> list[dict]:
    out = []
    for spec in ("3.0", "2.0", "3.1"):
        for location in ("query", "path", "header", "cookie", "body"):
            if spec == "2.0" and location == "cookie":
                continue
            for fam, schema, dev in _schemas(tier, spec, location):
                if spec == "2.0" and location != "body" and schema.get("type") in (None, "object"):
                    continue  # Swagger 2.0 non-body parameters must have a primitive/array type
                if location == "cookie" and fam == "array":
                    continue  # cookie arrays have no default-style string form that is not C06's subject
                reqs = [True] if location == "path" else ([True, False] if location in ("query", "body") else [True])
                for required in reqs:
                    refs = [0]
                    if fam in ("misc", "pattern_length") and location in ("query", "body") and required:
                        refs = [0, 1, 2] if tier == "thorough" or fam == "misc" else [0, 1]
                    for ref_depth in refs:
                        if ref_depth and spec == "2.0" and location != "body":
                            continue
                        has_str = _has_strings(schema)
                        cfgs = [{"allow_x00": True, "codec": "utf-8"}]
                        if has_str:
                            cfgs.append({"allow_x00": False, "codec": "ascii"})
                            if tier == "thorough":
                                cfgs += [{"allow_x00": False, "codec": "utf-8"}, {"allow_x00": True, "codec": "ascii"}]
                        out.append({"spec": spec, "loc": location, "required": required, "schema": schema, "ref": ref_depth,
                                    "cfgs": cfgs, "d": dev, "family": fam, "security": False})
    # parameters declared on the path item next to the operation's own one: everything that is not overridden by the same
    # (name, location) is an input of the operation (names differing in letter case are different parameters)
    integer = {"type": "integer", "minimum": 1}
    for spec in ("3.0", "2.0", "3.1"):
        for loc in ("query", "cookie", "header"):
            if spec == "2.0" and loc == "cookie":
                continue
            own_name = "X-P" if loc == "header" else "p"
            variants = [
                ("case_variant", [{"name": own_name.upper() if loc != "header" else "X-Q", "in": loc, "required": True, "schema": integer}]),
                ("unrelated", [{"name": "s", "in": loc, "required": True, "schema": integer}]),
                ("same_name_elsewhere", [{"name": own_name, "in": "query" if loc != "query" else "header", "required": True, "schema": integer}]),
                ("overridden", [{"name": own_name, "in": loc, "required": True, "schema": integer}]),
                ("two", [{"name": "s", "in": loc, "required": True, "schema": integer},
                         {"name": "S", "in": loc, "required": True, "schema": {"type": "boolean"}}]),
            ]
            for how, shared in variants:
                if loc == "header" and how == "two":
                    continue  # header names are case-insensitive: `s` and `S` would be one header
                for required in (True, False):
                    out.append({"spec": spec, "loc": loc, "required": required, "schema": {"type": "string", "enum": ["x", "y"]}, "ref": 0,
                                "cfgs": [{"allow_x00": True, "codec": "utf-8"}], "d": BOUNDS[tier]["d"], "family": "shared",
                                "security": False, "shared": shared, "shared_how": how})
    # security parameters on/off (apiKey in header and query)
    for spec in ("3.0", "2.0"):
        for sec_on in (True, False):
            out.append({"spec": spec, "loc": "query", "required": True, "schema": {"type": "integer", "minimum": 1}, "ref": 0,
                        "cfgs": [{"allow_x00": True, "codec": "utf-8", "with_security_parameters": sec_on}], "d": BOUNDS[tier]["d"],
                        "family": "security", "security": True})
    return out


def _has_strings(schema: Any) -> bool:
    if isinstance(schema, dict):
        t = schema.get("type")
        if t == "string" or (isinstance(t, list) and "string" in t) or t is None:
            return True
        return any(_has_strings(v) for v in schema.values())
    if isinstance(schema, list):
        return any(_has_strings(v) for v in schema)
    return False


def build(item: dict) -> tuple[dict, dict]:
    """Returns (document, expectation)."""
    spec, loc = item["spec"], item["loc"]
    schema = copy.deepcopy(item["schema"])
    variants = list(ss.ref_variants(schema, spec))
    used, components = variants[item["ref"]]
    params: list[dict] = []
    body = None
    path = "/t"
    if loc == "body":
        body = {"required": item["required"], "content": {"application/json": {"schema": used}}}
    else:
        name = "p" if loc != "header" else "X-P"
        params.append({"name": name, "in": loc, "required": item["required"], "schema": used})
        if loc == "path":
            path = "/t/{p}"
    security = None
    if item["security"]:
        security = {"K1": {"type": "apiKey", "in": "header", "name": "X-Key"}, "K2": {"type": "apiKey", "in": "query", "name": "key"}}
    doc = ss.make_document(spec, path=path, method="post" if loc == "body" else "get", parameters=params, body=body,
                           components=copy.deepcopy(components), security=security)
    effective = list(params)
    if item.get("shared"):
        shared = copy.deepcopy(item["shared"])
        own_keys = {(p["name"], p["in"]) for p in params}
        effective += [p for p in shared if (p["name"], p["in"]) not in own_keys]
        if spec == "2.0":
            shared = [{**{k: v for k, v in p.items() if k != "schema"}, **p["schema"]} for p in shared]
        doc["paths"][path]["parameters"] = shared
    params = effective
    expect = {"params": params, "body": body, "path": path, "method": "post" if loc == "body" else "get",
              "security": security, "schema": used}
    return doc, expect


def brute_force_satisfiable(doc: dict, schema: Any, location: str, spec: str) -> bool | None:
    undecided = False
    for cand in ss.candidate_values():
        if location != "body" and isinstance(cand, dict):
            continue
        if location == "path" and (cand is None or cand == "" or cand == []):
            continue  # an empty path segment cannot be sent
        v = verdict(doc, schema, cand, spec=spec) if location == "body" else common.param_verdict(doc, schema, cand, location, spec)
        if v is True:
            # headers, cookies, path and query carry strings: reject candidates the wire cannot carry
            return True
        if v is None:
            undecided = True
    return None if undecided else False


def check_item(item: dict, tier: str) -> Result:
    from schemathesis.core import NOT_SET
    from schemathesis.generation import GenerationConfig, GenerationMode

    res = Result()
    doc, expect = build(item)
    spec, loc = item["spec"], item["loc"]
    chars = CHARS_QUICK if tier == "quick" else CHARS_THOROUGH
    for cfg in item["cfgs"]:
        common.reset_schemathesis_caches()
        sig_base = {"family": item["family"], "location": loc}
        if loc in ("header", "cookie") and isinstance(item["schema"], dict) and "type" not in item["schema"]:
            # call-site fact: OpenAPIParameter.transform_keywords forces `type: string` on header/cookie schemas without a type
            sig_base["forced_string_type"] = True
        try:
            config = GenerationConfig(modes=[GenerationMode.POSITIVE], allow_x00=cfg["allow_x00"], codec=cfg["codec"],
                                      with_security_parameters=cfg.get("with_security_parameters", True))
            schema = common.load(doc).configure(generation=config)
            operation = schema[expect["path"]][expect["method"].upper()]
            strategy = operation.as_strategy(generation_mode=GenerationMode.POSITIVE, generation_config=config)
        except Exception as exc:  # noqa: BLE001
            _construction_failed(res, item, doc, expect, exc, sig_base)
            continue
        stats = Stats()
        alphabet = Alphabet(chars=chars)
        valid = 0
        errors: list[BaseException] = []
        for ex in explore(draw_strategy(strategy), alphabet, item["d"], max_executions=BOUNDS[tier]["max_exec_per_tree"], stats=stats):
            res.evaluations += 1
            if ex.status == "valid":
                valid += 1
                res.traces += 1
                judge(res, item, doc, expect, cfg, ex.value, ex.choices)
            elif ex.status == "error":
                errors.append(ex.error)
            res.outcomes.add(ex.status)
        res.states += stats.nodes
        res.transitions += stats.edges
        if not stats.exhausted:
            res.count("trees_not_exhausted")
        else:
            res.count("trees_exhausted")
        if stats.capped:
            res.exhaustive = False
            res.count("trees_capped")
        if valid == 0:
            sat = brute_force_satisfiable(doc, expect["schema"], loc, spec)
            if errors and sat:
                res.violation({**sig_base, "kind": "generation_error_on_satisfiable_schema", "error": type(errors[0]).__name__},
                              {"schema": item["schema"], "error": repr(errors[0])[:300], "cfg": cfg})
            elif stats.exhausted and sat:
                res.violation({**sig_base, "kind": "no_positive_case_on_satisfiable_schema", **common.pattern_facts(item["schema"])},
                              {"schema": item["schema"], "cfg": cfg, "executions": stats.executions})
            else:
                res.count("no_valid_case_undecided")
    return res


def _construction_failed(res: Result, item: dict, doc: dict, expect: dict, exc: BaseException, sig_base: dict) -> None:
    sat = brute_force_satisfiable(doc, expect["schema"], item["loc"], item["spec"])
    res.evaluations += 1
    res.outcomes.add("construction_error")
    if sat:
        res.violation({**sig_base, "kind": "strategy_construction_failed_on_satisfiable_schema", "error": type(exc).__name__},
                      {"schema": item["schema"], "error": repr(exc)[:300]})


def judge(res: Result, item: dict, doc: dict, expect: dict, cfg: dict, case: Any, choices: list[int]) -> None:
    from schemathesis.core import NOT_SET
    from schemathesis.generation import GenerationMode

    spec, loc = item["spec"], item["loc"]
    summary = common.summarize_case(case)
    base = {"family": item["family"], "location": loc}
    detail = {"schema": item["schema"], "case": summary, "choices": choices, "cfg": cfg, "spec": spec, "required": item["required"]}
    tested_value_present = False
    # declared parameters
    for p in expect["params"]:
        container = getattr(case, common.CONTAINER[p["in"]]) or {}
        name = p["name"]
        if name not in container:
            if p["required"] or p["in"] == "path":
                res.violation({**base, "kind": "required_parameter_missing"}, detail)
            continue
        tested_value_present = True
        value = container[name]
        v = common.param_verdict(doc, p["schema"], value, p["in"], spec)
        if v is False:
            kws = common.failing_keywords(doc, p["schema"], value, p["in"], spec)
            res.violation({**base, "kind": "positive_value_violates_schema", "keywords": kws, **common.pattern_facts(item["schema"])}, detail)
        elif v is None:
            res.count("undecided_values")
        # undeclared names in the location
    for location in common.LOCATIONS:
        container = getattr(case, common.CONTAINER[location]) or {}
        declared = {p["name"] for p in expect["params"] if p["in"] == location}
        sec = set()
        if expect["security"] and cfg.get("with_security_parameters", True):
            sec = {s["name"] for s in expect["security"].values() if s["in"] == location}
        extra = set(container) - declared - sec
        if extra:
            res.violation({**base, "kind": "undeclared_parameter_sent", "where": location}, detail | {"extra": sorted(extra)})
        if expect["security"]:
            for s in expect["security"].values():
                if s["in"] != location:
                    continue
                present = s["name"] in container
                if cfg.get("with_security_parameters", True) and not present:
                    res.violation({**base, "kind": "security_parameter_missing", "where": location}, detail)
                if not cfg.get("with_security_parameters", True) and present:
                    res.violation({**base, "kind": "security_parameter_sent_when_disabled", "where": location}, detail)
    # body
    if expect["body"] is not None:
        body_schema = expect["body"]["content"]["application/json"]["schema"]
        if case.body is NOT_SET:
            if expect["body"].get("required"):
                res.violation({**base, "kind": "required_body_missing"}, detail)
        else:
            tested_value_present = True
            v = verdict(doc, body_schema, case.body, spec=spec)
            if v is False:
                kws = common.failing_keywords(doc, body_schema, case.body, "body", spec)
                res.violation({**base, "kind": "positive_value_violates_schema", "keywords": kws, **common.pattern_facts(item["schema"])}, detail)
            elif v is None:
                res.count("undecided_values")
            if case.media_type != "application/json":
                res.violation({**base, "kind": "wrong_media_type"}, detail)
    elif case.body is not NOT_SET:
        res.violation({**base, "kind": "body_sent_without_definition"}, detail)
    # string restrictions
    strings = []
    for part in (case.path_parameters, case.query, case.headers, case.cookies, None if case.body is NOT_SET else case.body):
        if part is not None:
            strings.extend(common.all_strings(dict(part) if hasattr(part, "items") else part))
    for s in strings:
        if not cfg["allow_x00"] and "\x00" in s:  # the literal text "%00" is three ordinary characters, not a NUL
            res.violation({**base, "kind": "nul_character_with_allow_x00_false"}, detail)
            break
    if cfg["codec"]:
        for s in strings:
            try:
                s.encode(cfg["codec"])
            except UnicodeEncodeError:
                res.violation({**base, "kind": "string_not_encodable_in_codec", "codec": cfg["codec"]}, detail)
                break
    # labels
    for kind, info in case.meta.components.items():
        if info.mode != GenerationMode.POSITIVE:
            res.violation({**base, "kind": "component_not_labelled_positive"}, detail)
    if case.meta.generation.mode != GenerationMode.POSITIVE:
        res.violation({**base, "kind": "case_not_labelled_positive"}, detail)
    if tested_value_present:
        res.nontriv([item["schema"], item["spec"], loc, item["ref"], summary, cfg])
    if len(res.samples) < 3:
        res.samples.append({"schema": item["schema"], "spec": spec, "location": loc, "cfg": cfg, "choices": choices, "case": summary})


def vacuity(total: Result, tier: str) -> list[str]:
    out = []
    if total.traces == 0:
        out.append("no valid case was produced at all")
    if len(total.outcomes) < 2:
        out.append("a single execution outcome class")
    if total.counters.get("trees_exhausted", 0) == 0:
        out.append("no choice tree was exhausted (liveness undecided everywhere)")
    return out

ENGINES = ["E2", "E1"]
TECHNIQUE = "exhaustive choice-tree enumeration (deviation-bounded stateless DFS over every PRNG answer of the real strategy) over an exhaustively enumerated small-schema grammar, judged by an independent schema evaluator"
LEVEL_TEXT = (
    "Every positive case the real strategy can produce for each small document, over the stated draw alphabet and up to d "
    "non-default PRNG answers, is executed and judged; liveness (cases are produced for satisfiable inputs) is judged only on "
    "fully exhausted trees. This replaces luck with enumeration, which is what a universally quantified data property needs."
)
LEVEL_NOTE = (
    "Trusted: the independent evaluator oracles/jsonschema_mini.py and the Hypothesis PrimitiveProvider seam. Not covered: draws "
    "outside the candidate alphabets / beyond d deviations, schemas outside the keyword grammar."
)
