"""C04 - response conformance checks agree with the API documentation.

The verdict of the four conformance checks is a pure function of (response definitions, response).  E2 enumerates the full
product of a small grammar of response definitions with a small alphabet of responses; every pair is run through the real
checks (each check function on its own, and all four through ``Case.validate_response``) and judged by the independent
verdict function ``oracles/responses.py`` (which evaluates schemas with ``oracles/jsonschema_mini.py``).

Review round 2 (``mc/c04_extra.py``): family X adds four dimensions with their own response alphabets (deeper schemas and bodies,
spellings of documented / received media types, header definitions and values, the response built by ``Response.from_requests``),
OpenAPI 3.1 runs in the quick tier in a slim form, and ``APIOperation.is_response_valid`` is observed next to the checks.
"""

from __future__ import annotations

import itertools
import json
from typing import Any

from mc import c04_extra as extra
from mc.runner import Result, digest
from oracles import responses as oracle
from oracles.jsonschema_mini import verdict
from props import common

ID = "C04"
LEVEL = "exploration"
ENGINES = ["E2"]
RULE = (
    "work item = one one-operation document: family S = (spec, set of response keys, which key carries response object Pa while all "
    "others carry the distinguishable Pb); family R = (spec, key set, response object = content variant x schema family x header "
    "variant x behind-$ref); every item of S and R is paired with the full product status x Content-Type x body x X-A header; family X "
    "(review round 2, mc/c04_extra.py) = (spec, dimension in schema/media/headers/entry, one document variant of that dimension) paired "
    "with that dimension's own alphabet of responses; a pair is "
    "non-trivial when the status is documented and at least one of the content-type/header/body aspects is decided by the oracle; "
    "distinct = distinct (document, response) pairs"
)
STATUSES = [200, 201, 204, 404, 500]
CONTENT_TYPES = [
    ["absent", None],
    ["json", "application/json"],
    ["json_params", "application/json; charset=utf-8"],
    ["problem_json", "application/problem+json"],
    ["xml", "application/xml"],
    ["plain", "text/plain"],
    ["malformed", "json"],
    ["json_uppercase", "Application/JSON"],
]
XA_VALUES = [["absent", None], ["valid", "1"], ["invalid", "x"]]
R_STATUSES_QUICK = [200, 204, 404]  # family R, quick: one selecting, one content-free, one non-selecting / default-selected status
S_KEYS_3 = ["201", "2XX", "4XX", "default"]
S_KEYS_2 = ["201", "default"]  # OpenAPI 2.0 has no status code ranges
# family X is the same in both tiers: specs 3.0, 2.0, 3.1; APIOperation.is_response_valid and Case.validate_response on every pair
_FAMILY_X = {
    "schema": {"documents": "key 200 | default x behind-$ref x schema in {required_int, nullable, ref, recursive_ref, " + ", ".join(extra.SCHEMA_FAMILIES) + "}",
               "responses": "status 200 x Content-Type {json, json;charset, problem+json, absent} x bodies of the family + {}, [], valid body in white space"},
    "media": {"documents": "key 200 x behind-$ref x schema {required_int, nullable} x content in " + json.dumps(extra.CONTENT_VARIANTS) + " (2.0: produces in "
               + json.dumps(sorted(extra.PRODUCES)) + " and the six of family R, with and without schema); the seven content variants of family R once",
               "responses": "status 200 x (the eight Content-Types of family R + " + json.dumps([c[1] for c in extra.MEDIA_CONTENT_TYPES]) + ") x six bodies"},
    "headers": {"documents": "key 200 | default x content {json, none} x behind-$ref x headers in " + json.dumps(extra.HEADER_VARIANTS_3) + " (2.0: " + json.dumps(extra.HEADER_VARIANTS_2) + ")",
               "responses": "status {200, 404} x json x body {valid_A, invalid_A} x the variant's header space (absent / valid / invalid / empty values, names in two letter cases, two headers in both orders)"},
    "entry": {"documents": "keys [200] | [2XX, default] (2.0: [200, default]) x schema {required_int, nullable} x required integer X-A",
               "responses": "built by Response.from_requests from a requests.Response, header names in lower case: status {200, 404} x Content-Type {absent, json, json;charset, upper case, text/plain, malformed} x six bodies x x-a {absent, 1, x}"},
}
BOUNDS = {
    "quick": {
        "specs": ["3.0", "2.0"], "statuses": {"family_S": STATUSES, "family_R": R_STATUSES_QUICK}, "content_types": [c[0] for c in CONTENT_TYPES], "x_a": [x[0] for x in XA_VALUES],
        "bodies": ["valid_A", "invalid_A", "valid_B_only", "null", "malformed_json", "empty", "write_only_present (writeOnly family)"],
        "family_S_keys": "every non-empty subset of {200 as '200' or as integer 200, 201, 2XX, 4XX, default} in both writing orders x every choice of the key carrying Pa",
        "family_R_keysets": [["200"], ["default"]], "family_R_keysets_2.0": [["200"]],
        "validate_response_all_four_checks": "every pair of family S; pairs of family R without an X-A header", "is_response_valid": "families S and R: pairs without an X-A header (it does not look at other headers than Content-Type)",
        "content": ["none", "json:A", "json:A+xml:B", "xml:B+json:A", "*/*:A", "problem+json:A", "json:A+problem+json:B"],
        "schemas_A": ["required_int", "nullable", "write_only", "read_only", "ref", "recursive_ref"],
        "headers": ["none", "required_int", "optional_string", "ref"], "response_behind_ref": [False, True],
        "swagger_produces": ["none", "json", "json+xml", "xml+json", "problem_json", "global_json"],
        "openapi_3.1_slim": "family S: the two 5-key sets in both orders x every Pa; family R: key 200 x content {json, json+problem} x 6 schema families x headers {none, ref} x behind-$ref",
        "family_X": _FAMILY_X,
    },
    "thorough": {
        "specs": ["3.0", "2.0", "3.1"], "statuses": STATUSES, "content_types": [c[0] for c in CONTENT_TYPES], "x_a": [x[0] for x in XA_VALUES],
        "bodies": ["valid_A", "invalid_A", "valid_B_only", "null", "malformed_json", "empty", "write_only_present (writeOnly family)"],
        "family_S_keys": "as quick",
        "family_R_keysets": [["200"], ["default"], ["2XX"], [200], ["200", "default"], ["default", "201"], ["4XX", "default"]],
        "family_R_keysets_2.0": [["200"], ["default"], [200], ["200", "default"], ["default", "201"]],
        "validate_response_all_four_checks": "every pair", "is_response_valid": "as quick",
        "content": ["none", "json:A", "json:A+xml:B", "xml:B+json:A", "*/*:A", "problem+json:A", "json:A+problem+json:B"],
        "schemas_A": ["required_int", "nullable", "write_only", "read_only", "ref", "recursive_ref", "ref_two_levels"],
        "headers": ["none", "required_int", "optional_string", "ref"], "response_behind_ref": [False, True],
        "swagger_produces": ["none", "json", "json+xml", "xml+json", "problem_json", "global_json"],
        "family_X": _FAMILY_X,
    },
}
BUDGET_S = {"quick": 140, "thorough": 2400}
CHUNK = 4
TECHNIQUE = (
    "exhaustive enumeration of the product (small grammar of response definitions) x (alphabet of responses) on the real check "
    "functions, compared per deviation aspect with an independent verdict function"
)
LEVEL_TEXT = (
    "The checks' verdict is a pure function of (documentation, response); no search is involved. Every pair of the stated product is "
    "executed on the real check functions and judged, in both directions (deviation passed / conforming response failed), so within "
    "the bounds the property is decided rather than sampled."
)
LEVEL_NOTE = (
    "Exploration, not model checking: there is no transition system; `states` counts the enumerated (document, response) points of the "
    "product, `transitions` stays 0. Trusted: oracles/responses.py and oracles/jsonschema_mini.py (the constructive labels of the body "
    "alphabet are cross-checked against the evaluator in every item). Not covered: definitions and responses outside the grammar "
    "(external references, other keywords, multi-valued headers, array-valued headers, encodings other than UTF-8, a lower-case status range "
    "key `2xx` - OpenAPI allows the upper-case X only, so nothing is documented by it). APIOperation.is_response_valid is judged through "
    "response_schema_conformance (itself judged by the oracle): it must return False exactly when that check reports failures, and never raise."
)
ASSUMPTIONS = [
    "an integer key 200 documents status 200 exactly like the string key '200' (YAML authors write it that way; schemathesis' own status check treats both alike)",
    "media types are compared case-insensitively and without parameters (RFC 7231); the most specific documented media type applies",
    "left open, never reported: Content-Type when no media type is documented or the status is undocumented; the body when the Content-Type is absent / malformed / not JSON / undocumented; everything about content for status 204; a writeOnly property present in a response body (SHOULD NOT); status ranges in OpenAPI 2.0 (not enumerated)",
    "an empty or malformed body under a documented JSON media type with a schema is a deviation (it cannot conform to the schema)",
    "a header documented with `content` instead of `schema` is judged for presence only (its value is left open); boolean header values other than true/false and numeric spellings other than plain decimals are not enumerated",
    "failures are attributed to the deviation aspect by their class (e.g. MissingContentType raised by response_schema_conformance counts for the Content-Type aspect), so a check reporting another aspect's deviation is never an alarm by itself",
]

SCHEMA_FAMILIES_QUICK = ["required_int", "nullable", "write_only", "read_only", "ref", "recursive_ref"]
CONTENT_VARIANTS = ["none", "json", "json_xml", "xml_json", "any", "problem", "json_problem"]
HEADER_VARIANTS = ["none", "required_int", "optional_string", "ref"]
PRODUCES_VARIANTS = ["none", "json", "json_xml", "xml_json", "problem", "global_json"]

B_SCHEMA = {"type": "object", "properties": {"name": {"type": "string"}}, "required": ["name"]}
REQUIRED_INT = {"type": "object", "properties": {"id": {"type": "integer"}}, "required": ["id"]}


# -- E2: the grammar of definitions -------------------------------------------------------------------------------------

def _ref_prefix(spec: str) -> str:
    return "#/definitions/" if spec == "2.0" else "#/components/schemas/"


def schema_a(family: str, spec: str) -> tuple[Any, dict]:
    """(schema as used in the response, components it needs)."""
    prefix = _ref_prefix(spec)
    if family == "required_int":
        return json.loads(json.dumps(REQUIRED_INT)), {}
    if family == "nullable":
        if spec == "3.1":
            return {"type": ["string", "null"]}, {}
        return {"type": "string", ("x-nullable" if spec == "2.0" else "nullable"): True}, {}
    if family == "write_only":
        return {"type": "object", "properties": {"id": {"type": "integer"}, "pw": {"type": "string", "writeOnly": True}},
                "required": ["id", "pw"]}, {}
    if family == "read_only":
        # a required readOnly property (server-assigned id): required in responses, and its presence is conforming
        return {"type": "object", "properties": {"id": {"type": "integer", "readOnly": True}, "name": {"type": "string"}},
                "required": ["id"]}, {}
    if family == "ref":
        return {"$ref": prefix + "A"}, {"A": json.loads(json.dumps(REQUIRED_INT))}
    if family == "ref_two_levels":
        return {"$ref": prefix + "A2"}, {"A2": {"$ref": prefix + "A"}, "A": json.loads(json.dumps(REQUIRED_INT))}
    if family == "recursive_ref":
        node = {"type": "object", "properties": {"id": {"type": "integer"}, "next": {"$ref": prefix + "N"}}, "required": ["id"]}
        return {"$ref": prefix + "N"}, {"N": node}
    if family in extra.SCHEMA_FAMILIES:
        return extra.schema_a(family, spec, prefix)
    raise ValueError(family)


def bodies(family: str, extended: bool = False) -> list[tuple[str, bytes]]:
    """The body alphabet; 'valid_A*' / 'invalid_A*' / 'valid_B_only' are labels by construction (cross-checked in every item).

    ``extended`` (family X, dimension 'schema') adds ``{}``, ``[]`` and the valid body surrounded by white space.
    """
    own = extra.family_bodies(family)
    if own is not None:
        labelled = dict(own)
        out = [
            ("valid_A", json.dumps(labelled["valid_A"]).encode()),
            ("invalid_A", json.dumps(labelled["invalid_A"]).encode()),
            ("valid_B_only", json.dumps({"name": "x"}).encode()),
            ("null", b"null"),
            ("malformed_json", b'{"id":'),
            ("empty", b""),
        ]
        out += [(label, json.dumps(value).encode()) for label, value in own if label not in ("valid_A", "invalid_A")]
        if extended:
            out += extra.extra_bodies(out[0][1])
        return out
    if family == "nullable":
        valid, invalid = "s", 1
    elif family == "recursive_ref":
        valid, invalid = {"id": 1, "next": {"id": 2}}, {"id": 1, "next": {"id": "x"}}
    else:
        valid, invalid = {"id": 1}, {"id": "x"}
    out = [
        ("valid_A", json.dumps(valid).encode()),
        ("invalid_A", json.dumps(invalid).encode()),
        ("valid_B_only", json.dumps({"name": "x"}).encode()),
        ("null", b"null"),
        ("malformed_json", b'{"id":'),
        ("empty", b""),
    ]
    if family == "write_only":
        out.append(("write_only_present", json.dumps({"id": 1, "pw": "s"}).encode()))
    if extended:
        out += extra.extra_bodies(out[0][1])
    return out


def header_objects(variant: str, spec: str) -> tuple[dict | None, dict]:
    """(headers member of the response object, components.headers it needs)."""
    if variant == "none":
        return None, {}
    if variant in extra.HEADER_VARIANTS_3:
        return extra.header_objects(variant, spec)
    if spec == "2.0":
        # a Swagger 2.0 Header Object is the schema itself and has no `required`
        return {"X-A": {"type": "integer" if variant == "required_int" else "string"}}, {}
    if variant == "required_int":
        return {"X-A": {"required": True, "schema": {"type": "integer"}}}, {}
    if variant == "optional_string":
        return {"X-A": {"schema": {"type": "string"}}}, {}
    if variant == "ref":
        return {"X-A": {"$ref": "#/components/headers/XA"}}, {"XA": {"required": True, "schema": {"type": "integer"}}}
    raise ValueError(variant)


def content_object(variant: str, a: Any) -> dict | None:
    b = json.loads(json.dumps(B_SCHEMA))
    if variant == "none":
        return None
    if variant == "json":
        return {"application/json": {"schema": a}}
    if variant == "json_xml":
        return {"application/json": {"schema": a}, "application/xml": {"schema": b}}
    if variant == "xml_json":
        return {"application/xml": {"schema": b}, "application/json": {"schema": a}}
    if variant == "any":
        return {"*/*": {"schema": a}}
    if variant == "problem":
        return {"application/problem+json": {"schema": a}}
    if variant == "json_problem":
        return {"application/json": {"schema": a}, "application/problem+json": {"schema": b}}
    if variant in extra.CONTENT_VARIANTS:
        return extra.content_object(variant, a)
    raise ValueError(variant)


PRODUCES = {
    "none": None, "json": ["application/json"], "json_xml": ["application/json", "application/xml"],
    "xml_json": ["application/xml", "application/json"], "problem": ["application/problem+json"], "global_json": None,
    **extra.PRODUCES,
}


def response_object(spec: str, *, content: str, family: str, header: str) -> tuple[dict, dict, dict]:
    """(response object, schema components, header components)."""
    out: dict[str, Any] = {"description": "d"}
    a, schemas = schema_a(family, spec)
    if spec == "2.0":
        if content != "none":
            out["schema"] = a
        else:
            schemas = {}
    else:
        c = content_object(content, a)
        if c is not None:
            out["content"] = c
        else:
            schemas = {}
    headers, header_components = header_objects(header, spec)
    if headers is not None:
        out["headers"] = headers
    return out, schemas, header_components


def pb_object(spec: str) -> dict:
    """The 'other' response object: distinguishable from Pa by every aspect."""
    b = json.loads(json.dumps(B_SCHEMA))
    if spec == "2.0":
        return {"description": "other", "schema": b, "headers": {"X-A": {"type": "string"}}}
    return {"description": "other", "content": {"application/json": {"schema": b}, "application/problem+json": {"schema": b}},
            "headers": {"X-A": {"schema": {"type": "string"}}}}


def _keysets_s(spec: str) -> list[list[list]]:
    others = S_KEYS_2 if spec == "2.0" else S_KEYS_3
    out = []
    for k200 in (None, ["200", False], ["200", True]):
        for n in range(0, len(others) + 1):
            for combo in itertools.combinations(others, n):
                keys = ([k200] if k200 else []) + [[k, False] for k in combo]
                if keys:
                    out.append(keys)
    out.sort(key=lambda ks: (len(ks), json.dumps(ks)))
    return out


def items(tier: str, seed: int) -> list[dict]:
    b = BOUNDS[tier]
    out: list[dict] = []
    for spec in b["specs"]:
        for keys in _keysets_s(spec):
            # both writing orders of the mapping: which definition applies must not depend on the order of the keys
            for ordered in ([keys, keys[::-1]] if len(keys) > 1 else [keys]):
                for pa in range(len(ordered)):
                    out.append({"fam": "S", "spec": spec, "keys": ordered, "pa": pa})
    for spec in b["specs"]:
        families = [f for f in ("required_int", "nullable", "write_only", "read_only", "ref", "recursive_ref", "ref_two_levels")
                    if f in SCHEMA_FAMILIES_QUICK or tier == "thorough"]
        if spec == "2.0":
            families = [f for f in families if f != "write_only"]  # writeOnly is not an OpenAPI 2.0 keyword
        for keyset in (b["family_R_keysets_2.0"] if spec == "2.0" else b["family_R_keysets"]):
            keys = [[str(k), isinstance(k, int)] for k in keyset]
            headers = [h for h in HEADER_VARIANTS if not (spec == "2.0" and h == "ref")]
            for via_ref in (False, True):
                for header in headers:
                    if spec == "2.0":
                        for produces in PRODUCES_VARIANTS:
                            for family in [None, *families]:
                                out.append({"fam": "R", "spec": spec, "keys": keys, "content": "none" if family is None else "schema",
                                            "schema": family or "required_int", "header": header, "via_ref": via_ref, "produces": produces})
                    else:
                        for content in CONTENT_VARIANTS:
                            for family in (families if content != "none" else ["required_int"]):
                                out.append({"fam": "R", "spec": spec, "keys": keys, "content": content, "schema": family,
                                            "header": header, "via_ref": via_ref, "produces": None})
    # review round 2: OpenAPI 3.1 in the quick tier (slim), and family X (mc/c04_extra.py) for every spec version
    if "3.1" not in b["specs"]:
        out.extend(extra.slim_31_items())
    out.extend(extra.items(tier, ["3.0", "2.0", "3.1"]))
    return out


def build(item: dict) -> tuple[dict, dict]:
    """(document, meta)."""
    spec = item["spec"]
    keys = [int(k) if is_int else k for k, is_int in item["keys"]]
    schemas: dict[str, Any] = {}
    header_components: dict[str, Any] = {}
    operation: dict[str, Any] = {}
    root_extra: dict[str, Any] = {}
    if item["fam"] == "S":
        family = "required_int"
        pa, schemas, header_components = response_object(spec, content="json", family=family, header="required_int")
        pa["description"] = "Pa"
        objects = [pa if i == item["pa"] else pb_object(spec) for i in range(len(keys))]
        if spec == "2.0":
            operation["produces"] = ["application/json", "application/problem+json"]
        via_ref = False
    else:
        family = item["schema"]
        main, schemas, header_components = response_object(spec, content=item["content"], family=family, header=item["header"])
        objects = [main] + [pb_object(spec) for _ in keys[1:]]
        via_ref = item["via_ref"]
        if spec == "2.0":
            produces = PRODUCES[item["produces"]]
            if produces is not None:
                operation["produces"] = produces
            if item["produces"] == "global_json":
                root_extra["produces"] = ["application/json"]
    response_components: dict[str, Any] = {}
    if via_ref:
        response_components["R0"] = objects[0]
        objects[0] = {"$ref": ("#/responses/R0" if spec == "2.0" else "#/components/responses/R0")}
    operation["responses"] = dict(zip(keys, objects))
    if spec == "2.0":
        doc: dict[str, Any] = {"swagger": "2.0", "info": {"title": "t", "version": "1"}, "paths": {"/t": {"get": operation}}}
        if schemas:
            doc["definitions"] = schemas
        if response_components:
            doc["responses"] = response_components
    else:
        doc = {"openapi": "3.1.0" if spec == "3.1" else "3.0.2", "info": {"title": "t", "version": "1"}, "paths": {"/t": {"get": operation}}}
        components: dict[str, Any] = {}
        if schemas:
            components["schemas"] = schemas
        if header_components:
            components["headers"] = header_components
        if response_components:
            components["responses"] = response_components
        if components:
            doc["components"] = components
    doc.update(root_extra)
    return doc, {"family": family}


# -- observation on the real code ----------------------------------------------------------------------------------------

SKIPPED = "not run"
CHECK_ASPECT = {
    "status_code_conformance": "status",
    "content_type_conformance": "content_type",
    "response_headers_conformance": "headers",
    "response_schema_conformance": "body",
}
_CLASS_ASPECT = {
    "UndefinedStatusCode": "status",
    "MissingContentType": "content_type",
    "UndefinedContentType": "content_type",
    "MalformedMediaType": "content_type",
    "MissingHeaders": "headers",
    "MalformedJson": "body",
}


def _aspect_of(check_name: str, failure: Any) -> str:
    name = type(failure).__name__
    if name == "JsonSchemaError":
        return "headers" if check_name == "response_headers_conformance" else ("body" if check_name == "response_schema_conformance" else "other")
    return _CLASS_ASPECT.get(name, "other")


def _real_checks() -> list:
    from schemathesis.specs.openapi import checks as oc

    return [oc.status_code_conformance, oc.content_type_conformance, oc.response_headers_conformance, oc.response_schema_conformance]


def observe(case: Any, ctx: Any, response: Any, checks: list) -> tuple[dict, dict, list]:
    """(aspect -> sorted failure class names, check -> crash repr, all class names)."""
    from schemathesis.core.failures import Failure, FailureGroup

    aspects: dict[str, set] = {}
    crashes: dict[str, str] = {}
    classes: set = set()
    for check in checks:
        name = check.__name__
        try:
            check(ctx, response, case)
            continue
        except Failure as failure:
            failures = [failure]
        except FailureGroup as group:
            failures = list(group.exceptions)
        except Exception as exc:  # noqa: BLE001 - anything else is not a reported failure
            crashes[name] = f"{type(exc).__module__}.{type(exc).__name__}: {exc}"[:200]
            continue
        for failure in failures:
            aspects.setdefault(_aspect_of(name, failure), set()).add(f"{name}:{type(failure).__name__}")
            classes.add(type(failure).__name__)
    return {k: sorted(v) for k, v in aspects.items()}, crashes, sorted(classes)


def observe_is_valid(operation: Any, response: Any) -> Any:
    """``APIOperation.is_response_valid`` (documented to return a bool): True / False, or a dict naming what happened instead."""
    from schemathesis.core.failures import FailureGroup

    try:
        value = operation.is_response_valid(response)
    except FailureGroup as group:
        return {"raised": "FailureGroup", "failures": "+".join(sorted({type(f).__name__ for f in group.exceptions}))}
    except Exception as exc:  # noqa: BLE001
        return {"raised": f"{type(exc).__module__}.{type(exc).__name__}"}
    return value if isinstance(value, bool) else {"returned": type(value).__name__}


def observe_group(case: Any, response: Any, checks: list) -> tuple[list | None, str | None]:
    """The documented entry point with all four checks: (sorted failure class names or None on a crash, crash repr)."""
    from schemathesis.core.failures import FailureGroup

    try:
        case.validate_response(response, checks=checks)
        return [], None
    except FailureGroup as group:
        return sorted({type(f).__name__ for f in group.exceptions}), None
    except Exception as exc:  # noqa: BLE001
        return None, f"{type(exc).__module__}.{type(exc).__name__}: {exc}"[:200]


def _self_check(res: Result, doc: dict, spec: str, family: str) -> None:
    """Second opinion on the schema verdicts: the constructive labels of the body alphabet must agree with the evaluator."""
    a, _ = schema_a(family, spec)
    for label, raw in bodies(family, extended=True):
        if label in ("malformed_json", "empty", "write_only_present"):
            continue
        value = json.loads(raw)
        got_a = verdict(doc_with_components(doc, spec, family), a, value, spec=spec, direction="response")
        got_b = verdict(None, B_SCHEMA, value, spec=spec, direction="response")
        want_a = label.startswith("valid_A") or (label == "null" and family == "nullable")
        want_b = label == "valid_B_only"
        if got_a is not want_a or got_b is not want_b:
            res.oracle_errors.append({"error": "body label disagrees with the evaluator", "family": family, "label": label,
                                      "evaluator": [got_a, got_b]})


def doc_with_components(doc: dict, spec: str, family: str) -> dict:
    _, comps = schema_a(family, spec)
    if spec == "2.0":
        return {"definitions": comps}
    return {"components": {"schemas": comps}}


def check_item(item: dict, tier: str) -> Result:
    import requests
    from schemathesis.checks import CheckContext
    from schemathesis.core.transport import Response

    res = Result()
    doc, meta = build(item)
    spec = item["spec"]
    family = meta["family"]
    _self_check(res, doc, spec, family)
    common.reset_schemathesis_caches()
    schema = common.load(doc)
    operation = schema["/t"]["GET"]
    case = operation.Case()
    ctx = CheckContext(override=None, auth=None, headers=None, config={}, transport_kwargs=None)
    request = requests.Request("GET", "http://verif.local/t").prepare()
    checks = _real_checks()
    item_key = digest(item)[:10]
    shown_doc = _json_safe(doc)
    seen: dict = {}
    index = 0
    via_requests = extra.RequestsResponses() if item.get("dim") == "entry" else None
    for point in response_space(item, tier, family):
        index += 1
        status, ct, body = point["status"], point["ct"], point["body"]
        wire: list[list[str]] = ([[point["ct_name"], ct]] if ct is not None else []) + point["headers"]
        if via_requests is not None:
            response = via_requests.build(status, wire, body, request)
            res.count("response_built_by_from_requests")
        else:
            response = Response(status_code=status, headers={name: [value] for name, value in wire}, content=body, request=request,
                                elapsed=0.1, verify=False)
        want = oracle.expected(doc, spec, "/t", "get", status, {name.lower(): value for name, value in wire}, body)
        got, crashes, classes = observe(case, ctx, response, checks)
        res.evaluations += len(checks)
        group, group_crash, is_valid = SKIPPED, None, SKIPPED
        if point["group"]:
            group, group_crash = observe_group(case, response, checks)
            res.evaluations += 1
        if point["is_valid"]:
            is_valid = observe_is_valid(operation, response)
            res.evaluations += 1
        res.traces += 1
        res.states += 1
        desc = {"status": status, "content_type": ct, "body": body.decode(), "x_a": point["x_a"]}
        if item["fam"] == "X":
            desc["headers_as_sent"] = wire
            res.count("dim_" + item["dim"])
        judge(res, item, doc, want, got, crashes, classes, group, group_crash, desc,
              {"content_type_class": point["ct_class"], "body_class": point["body_class"], "header_value": point["header_class"]},
              item_key, index, shown_doc, seen, is_valid)
    return res


def response_space(item: dict, tier: str, family: str) -> list[dict]:
    """The responses one document is paired with: the full product for families S and R, the dimension's own alphabet for family X."""
    if item["fam"] == "X":
        points = extra.response_space(item, CONTENT_TYPES, bodies(family, extended=item["dim"] == "schema"))
        for point in points:
            # Case.validate_response and APIOperation.is_response_valid on every pair
            point["group"] = point["is_valid"] = True
            point["x_a"] = None
        return points
    out = []
    statuses = STATUSES if item["fam"] == "S" or tier == "thorough" else R_STATUSES_QUICK
    # Case.validate_response with all four checks (it also renders the failure report and the curl command, which is the
    # expensive part): on every pair, except in quick / family R where it runs on the pairs without an X-A header only;
    # APIOperation.is_response_valid (which does not look at headers other than Content-Type): on the pairs without an X-A header
    with_group_everywhere = item["fam"] == "S" or tier == "thorough"
    for status in statuses:
        for ct_class, ct in CONTENT_TYPES:
            for body_class, body in bodies(family):
                for xa_class, xa in XA_VALUES:
                    out.append({"status": status, "ct_class": ct_class, "ct": ct, "ct_name": "Content-Type", "body_class": body_class,
                                "body": body, "header_class": xa_class, "headers": [["X-A", xa]] if xa is not None else [], "x_a": xa,
                                "group": with_group_everywhere or xa is None, "is_valid": xa is None})
    return out


def judge(res: Result, item: dict, doc: dict, want: dict, got: dict, crashes: dict, classes: list, group: list | None,
          group_crash: str | None, desc: dict, classes_of_input: dict, item_key: str, index: int, shown_doc: Any, seen: dict,
          is_valid: Any = SKIPPED) -> None:
    facts = want["facts"]

    def violation(signature: dict, detail: dict) -> None:
        # one listed violation per signature and item; the further pairs of the same signature are counted
        key = digest(signature)
        res.count("violating_pairs")
        if key in seen:
            seen[key]["pairs_with_this_signature_in_item"] += 1
            return
        detail["pairs_with_this_signature_in_item"] = 1
        seen[key] = detail
        res.violation(signature, detail)

    spec = item["spec"]
    base = {"spec": spec, "selected_by": facts.get("selected_by"), "key_form": facts.get("key_form")}
    detail_base = {"document": shown_doc, "response": desc, "response_classes": classes_of_input, "oracle": {a: list(want[a]) for a in oracle.ASPECTS},
                   "oracle_facts": facts, "observed": got, "crashes": crashes, "validate_response_all_four": group,
                   "is_response_valid": is_valid}
    for name in classes:
        res.count("observed_" + name)
    for entry in got.get("headers", []):
        res.count("observed_headers_" + entry.split(":")[1])
    for entry in got.get("body", []):
        res.count("observed_body_" + entry.split(":")[1])
    res.count("selected_by_" + str(facts.get("selected_by")))
    res.count("spec_" + spec)
    decided_beyond_status = False
    for aspect in oracle.ASPECTS:
        verdict_, why = want[aspect]
        observed_failure = aspect in got
        res.outcomes.add(f"{aspect}:{verdict_}:{'failure' if observed_failure else 'no_failure'}")
        if verdict_ == oracle.UNDECIDED:
            res.count(f"undecided_{aspect}")
            res.count(f"undecided_{aspect}:{why}")
            continue
        if aspect != "status" and facts.get("selected_by") not in ("none", "open"):
            decided_beyond_status = True
        sig = {**base, "aspect": aspect, **_aspect_facts(aspect, item, facts, classes_of_input, why)}
        if verdict_ == oracle.FAIL and not observed_failure:
            res.count(f"disagree_{aspect}_deviation_passed")
            violation({**sig, "direction": "deviation_passed"}, {**detail_base, "aspect": aspect, "why": why})
        elif verdict_ == oracle.PASS and observed_failure:
            res.count(f"disagree_{aspect}_conforming_failed")
            violation({**sig, "direction": "conforming_failed"}, {**detail_base, "aspect": aspect, "why": why, "failures": got[aspect]})
        else:
            res.count(f"agree_{aspect}_{verdict_}")
            if aspect == "body" and verdict_ in (oracle.PASS, oracle.FAIL) and facts.get("media_type_position"):
                res.count(f"agree_body_{item.get('schema', 'required_int')}_{verdict_}")
            if item["fam"] == "X":
                res.count(f"agree_{item['dim']}_{aspect}_{verdict_}")
                if item["dim"] == "headers" and aspect == "headers":
                    res.count(f"agree_header_variant_{item['header']}_{verdict_}")
                elif item["dim"] == "media" and aspect in ("content_type", "body"):
                    res.count(f"agree_documented_{item['produces'] if spec == '2.0' else item['content']}_{aspect}_{verdict_}")
    if "other" in got:
        violation({**base, "aspect": "other", "direction": "unknown_failure_class", "classes": got["other"]}, detail_base)
    for check_name, text in sorted(crashes.items()):
        res.count("crash_" + check_name)
        violation({**base, "aspect": CHECK_ASPECT[check_name], "direction": "crash", "check": check_name, "error": text.split(":")[0],
                       "content_type_class": classes_of_input["content_type_class"]},
                      {**detail_base, "error": text})
    # the documented entry point must report exactly what the single checks report
    if group == SKIPPED:
        res.count("group_call_not_made")
    elif not crashes and group_crash is None:
        if group != classes:
            violation({**base, "aspect": "all", "direction": "validate_response_disagrees_with_single_checks"},
                          {**detail_base, "single_checks": classes})
        else:
            res.count("group_call_agrees")
    elif bool(crashes) != (group_crash is not None):
        violation({**base, "aspect": "all", "direction": "validate_response_crash_differs_from_single_checks"},
                      {**detail_base, "group_crash": group_crash})
    # the other documented entry point of the body check: APIOperation.is_response_valid says False exactly when
    # response_schema_conformance (the same validation behind the check interface) reports failures, and never raises
    if is_valid != SKIPPED and "response_schema_conformance" not in crashes:
        reported = sorted(entry.split(":")[1] for entries in got.values() for entry in entries if entry.startswith("response_schema_conformance:"))
        if not isinstance(is_valid, bool):
            violation({**base, "aspect": "body", "direction": "is_response_valid_did_not_return_a_bool", **is_valid,
                       "content_type_class": classes_of_input["content_type_class"]},
                      {**detail_base, "response_schema_conformance_reported": reported})
        elif is_valid is bool(reported):
            violation({**base, "aspect": "body", "direction": "is_response_valid_disagrees_with_response_schema_conformance",
                       "is_response_valid": is_valid}, {**detail_base, "response_schema_conformance_reported": reported})
        else:
            res.count(f"is_response_valid_{is_valid}")
    if decided_beyond_status:
        res.nontrivial.add(f"{item_key}{index:03x}")
    if len(res.samples) < 2 and decided_beyond_status and index % 97 == 5:
        res.samples.append({"responses": shown_doc["paths"]["/t"]["get"]["responses"], "spec": spec, "response": desc,
                            "oracle": {a: list(want[a]) for a in oracle.ASPECTS}, "observed": got})


def _aspect_facts(aspect: str, item: dict, facts: dict, classes_of_input: dict, why: str) -> dict:
    out: dict[str, Any] = {}
    if facts.get("selected_by") == "range":
        out["literal_lookup"] = facts.get("literal_lookup")
    if aspect == "content_type":
        out["content_type_class"] = classes_of_input["content_type_class"]
        out["content_type_matches"] = facts.get("content_type_matches")
    elif aspect == "headers":
        out["header_value"] = classes_of_input["header_value"]
        out["header_via_ref"] = bool(facts.get("header_via_ref"))
        out["why"] = why
    elif aspect == "body":
        out["content_type_class"] = classes_of_input["content_type_class"]
        out["media_type_position"] = facts.get("media_type_position")
        if "first_media_type_verdict" in facts:
            out["first_media_type_verdict"] = facts["first_media_type_verdict"]
        out["schema_family"] = item.get("schema", "required_int")
        out["why"] = why
    if item["fam"] == "X":
        # the varied part of the document of family X
        if item["dim"] == "headers":
            out["header_variant"] = item["header"]
        elif item["dim"] == "media":
            out["documented_media_types"] = item["produces"] if item["spec"] == "2.0" else item["content"]
        elif item["dim"] == "entry":
            out["response_built_by"] = "Response.from_requests"
    return out


def _json_safe(node: Any) -> Any:
    """Integer keys (the `200:` form) are shown as '<int 200>' so that details stay JSON."""
    if isinstance(node, dict):
        return {(f"<int {k}>" if isinstance(k, int) else k): _json_safe(v) for k, v in node.items()}
    if isinstance(node, list):
        return [_json_safe(v) for v in node]
    return node


def vacuity(total: Result, tier: str) -> list[str]:
    out = []
    c = total.counters
    for aspect in oracle.ASPECTS:
        for verdict_ in (oracle.PASS, oracle.FAIL):
            if not c.get(f"agree_{aspect}_{verdict_}"):
                out.append(f"no pair where oracle and checks agree on {aspect}:{verdict_}")
    for name in ("UndefinedStatusCode", "MissingContentType", "UndefinedContentType", "MalformedMediaType", "MissingHeaders",
                 "MalformedJson", "headers_JsonSchemaError", "body_JsonSchemaError"):
        if not c.get("observed_" + name):
            out.append(f"failure class {name} was never raised by the real checks")
    for how in ("exact", "range", "default", "none"):
        if not c.get("selected_by_" + how):
            out.append(f"no response was selected by '{how}'")
    families = ["required_int", "nullable", "write_only", "read_only", "ref", "recursive_ref"] + (["ref_two_levels"] if tier == "thorough" else [])
    for family in families:
        for verdict_ in (oracle.PASS, oracle.FAIL):
            if not c.get(f"agree_body_{family}_{verdict_}"):
                out.append(f"schema family {family} never decided {verdict_} in agreement with the real check")
    if not c.get("group_call_agrees"):
        out.append("Case.validate_response was never compared with the single checks")
    # review round 2
    for family in extra.SCHEMA_FAMILIES:
        for verdict_ in (oracle.PASS, oracle.FAIL):
            if not c.get(f"agree_body_{family}_{verdict_}"):
                out.append(f"schema family {family} never decided {verdict_} in agreement with the real check")
    for variant in extra.HEADER_VARIANTS_3:
        for verdict_ in (oracle.PASS, oracle.FAIL):
            if not c.get(f"agree_header_variant_{variant}_{verdict_}") and not (variant == "empty_headers" and verdict_ == oracle.FAIL):
                out.append(f"header variant {variant} never decided {verdict_} in agreement with the real check")
    for variant in [*extra.CONTENT_VARIANTS, *extra.PRODUCES]:
        for aspect in ("content_type", "body"):
            for verdict_ in (oracle.PASS, oracle.FAIL):
                nothing_to_decide = (variant in ("empty_content", "empty") and (aspect == "content_type" or verdict_ == oracle.FAIL)) or (
                    variant == "json_noschema" and aspect == "body" and verdict_ == oracle.FAIL) or (
                    # KF-C04-R1: with a first media type without schema the real check never fails a body
                    variant == "plain_json" and aspect == "body" and verdict_ == oracle.FAIL)
                if not c.get(f"agree_documented_{variant}_{aspect}_{verdict_}") and not nothing_to_decide:
                    out.append(f"documented media types '{variant}': {aspect} never decided {verdict_} in agreement with the real check")
    for dim in ("schema", "media", "headers", "entry"):
        if not c.get("dim_" + dim):
            out.append(f"family X, dimension {dim}: no pair")
    if not c.get("response_built_by_from_requests"):
        out.append("no response was built by Response.from_requests")
    for value in (True, False):
        if not c.get(f"is_response_valid_{value}"):
            out.append(f"APIOperation.is_response_valid never returned {value} in agreement with response_schema_conformance")
    if tier == "quick" and not c.get("spec_3.1"):
        out.append("no OpenAPI 3.1 document in the quick tier")
    if len(total.outcomes) < 2:
        out.append("a single outcome class")
    return out
