"""C20 - generated GraphQL requests are valid for the schema and target their field.

E2 enumerates small SDL schemas (argument lists x return types x root types x loaders x generation configs, and
root-field sets x name filters); E1 enumerates every choice path (bounded deviations) of the real
``schema[Type][field].as_strategy(...)``; an oracle that uses only graphql-core (parse / validate against a schema
built here from the SDL / an own AST walk) judges every produced case.  Offered operations and the statistic are
compared with a reference computed from the enumerated item itself.

Review round 2 (see detection/C20.md): default values and nested custom scalars in the grammar, kind 'entry' (every entry
point of one schema object, both access orders, every label looked up twice, strategies of maps and of the schema), kind
'multi' (two schema objects alive at once; sequences of stored / per-call settings on one object), letter-case variants.
"""

from __future__ import annotations

import datetime
import io
import ipaddress
import json
import re
import uuid
from typing import Any

import graphql

from mc.choicetree import Alphabet, Stats, draw_strategy, explore
from mc.runner import Result
from props import common

ID = "C20"
LEVEL = "model_checking"
RULE = (
    "work item = one SDL schema of the grammar (kind 'gen': root field f with <=2 arguments from the type alphabet x return "
    "type x root type x loader x config route, plus a sibling root field; kind 'ops': <=2 Query fields x <=2 Mutation fields "
    "(with equal names across roots) x root naming x loader x name filter chain). For 'gen' every choice path of the real "
    "strategy with <=d non-default PRNG answers is executed for every generation config (graphql_allow_null x allow_x00 x codec) "
    "and every rotation of the character alphabet; a case is non-trivial when its document carries at least one argument "
    "literal; distinct = distinct (schema, loader, config, document). Review round 2: arguments and input fields with default values "
    "(neutral and empty defaults included) and custom scalars nested in lists / input objects, each from SDL and from introspection; "
    "kind 'entry': one schema object through every entry point (get_all_operations twice, statistic before/after, len, iteration of "
    "the mapping, schema[T][f] twice incl. through a held map, schema[T].as_strategy, schema.as_strategy with per-call settings) in "
    "both access orders, a Subscription root that shares a field name, names differing only in letter case; kind 'multi': two "
    "schema objects alive at once drawn alternately, and sequences of stored / per-call settings on one schema object"
)
BOUNDS = {
    "quick": {"d": 1, "d_single_argument": 2, "max_args": 2, "pair_types": 16, "single_types": 35, "max_exec_per_tree": 600, "root_fields_per_type": 2,
              "filter_chain": 2, "default_value_shapes": 17, "nested_custom_scalar_shapes": 10, "entry_point_d": 2, "access_orders": 2,
              "lookups_per_label": 2, "schemas_alive": 2, "setting_sequences": 4, "setting_sequence_steps": 6},
    "thorough": {"d": 2, "d_single_argument": 3, "max_args": 2, "pair_types": 16, "single_types": 35, "max_exec_per_tree": 6000, "root_fields_per_type": 2,
                 "filter_chain": 2, "default_value_shapes": 17, "nested_custom_scalar_shapes": 10, "entry_point_d": 2, "access_orders": 2,
                 "lookups_per_label": 2, "schemas_alive": 2, "setting_sequences": 4, "setting_sequence_steps": 6},
}
BUDGET_S = {"quick": 140, "thorough": 3000}
CHUNK = 2
ENGINES = ["E2", "E1"]
TECHNIQUE = (
    "exhaustive choice-tree enumeration (deviation-bounded stateless DFS over every PRNG answer of the real GraphQL case "
    "strategy) over an exhaustively enumerated small SDL grammar, judged by graphql-core's parser/validator against a "
    "reference schema built from the SDL plus an own typed AST walk; exhaustive filter-chain enumeration for the offered "
    "operations and the statistic"
)
LEVEL_TEXT = (
    "Every case the real strategy can produce for each schema of the grammar, over the stated draw alphabet and up to d "
    "non-default PRNG answers, under every enumerated generation config, is parsed, validated and walked; every filter chain "
    "of the grammar is applied to the real schema object and compared with a reference selection."
)
LEVEL_NOTE = (
    "Trusted: graphql-core (parse, validate, build_schema, introspection) and the Hypothesis PrimitiveProvider seam. Not covered: "
    "draws outside the candidate alphabets / beyond d deviations, schemas outside the SDL grammar, function-based filters."
)
ASSUMPTIONS = [
    "draws outside the stated candidate alphabets and beyond d deviations are not explored",
    "graphql-core's parse/validate/build_schema/introspection are trusted as the reference for syntax and validity",
    "custom scalar lexical forms are the ones the scalar names promise (ISO date/time, RFC 4122 text form, IP text form, integer "
    "literal); for a scalar registered by the harness the form is the one the registered strategy was built from",
    "name_regex filters are enumerated only where search/match/fullmatch semantics agree (fully anchored patterns)",
    "an unregistered *required* custom scalar makes the strategy raise InvalidArgument; the property is silent on that, it is counted",
    "a per-call generation config takes the place of the stored one; where the two disagree and the per-call one is the permissive one, "
    "nothing is demanded of that draw",
    "the mapping interface (iteration of schema / schema[T], schema[T].as_strategy) is judged on unfiltered schemas only; "
    "schema.as_strategy() over zero selected operations is not judged",
    "'every offered operation gets a case' is claimed for the strategies of a map / a schema only on trees that were not capped, "
    "where every alternative of the first choice point (the operation) was taken",
]

# ------------------------------------------------------------------------------------------------------------------
# E2: SDL grammar
# ------------------------------------------------------------------------------------------------------------------

DEFS: dict[str, tuple[str, list[str]]] = {
    "E": ("enum E { A B }", []),
    "I": ("input I { a: Int, b: String! }", []),
    "N": ("input N { i: I, l: [Int!], e: E }", ["I", "E"]),
    "R": ("input R { r: R, v: Int }", []),
    "O": ("type O { x: Int, y(p: Int, s: String): String }", []),
    "If": ("interface If { id: ID }", ["T1", "T2"]),
    "T1": ("type T1 implements If { id: ID, t(p: E): Int }", ["If", "E"]),
    "T2": ("type T2 implements If { id: ID, u: String }", ["If"]),
    "U": ("union U = O | T1", ["O", "T1"]),
    # review round 2: input fields with default values (written-out neutral / empty defaults included), custom scalars one
    # level deeper (inside an input object: built-in custom, registered, in a list), an unregistered scalar as an optional input field
    "D": ('input D { a: Int! = 1, e: E = A, l: [Int!]! = [1], s: String = "", k: Boolean = false }', ["E"]),
    "C": ("input C { d: Date, f: Foo!, u: [UUID!], n: Cnt }", ["Date", "Foo", "UUID", "Cnt"]),
    "B": ("input B { x: Bar, y: Int }", ["Bar"]),
}
BUILTIN_SCALARS = {"Int", "Float", "String", "ID", "Boolean"}
KNOWN_CUSTOM = ["Date", "Time", "DateTime", "IP", "IPv4", "IPv6", "BigInt", "Long", "UUID"]
for _n in [*KNOWN_CUSTOM, "Foo", "Cnt", "Bar"]:
    DEFS[_n] = (f"scalar {_n}", [])

# harness-registered scalars: name of the recipe -> (node class, lexical form)
REGISTERED_FORMS = {
    "foo": ("StringValueNode", r"^foo-[0-3]$"),
    "cnt": ("IntValueNode", r"^[0-2]$"),
    "dover": ("StringValueNode", r"^D[0-2]$"),
}

PAIR_TYPES = ["Int", "Int!", "String", "String!", "Boolean", "Float", "ID", "[Int!]", "[String]", "E", "I", "N", "Date", "DateTime",
              "UUID", "Foo"]
SINGLE_TYPES_QUICK = ["R", "Time", "IP", "IPv4", "IPv6", "BigInt", "Long", "Foo!", "Cnt", "Bar", "[I]", "[E!]", "N!", "I!",
                      # review round 2: the former thorough-only singles are cheap, they are enumerated in both tiers now
                      "Boolean!", "Float!", "ID!", "[Int!]!", "[[Int]]"]
SINGLE_TYPES_THOROUGH: list[str] = []
# review round 2: arguments with default values (each loaded from SDL and from introspection JSON, where the default travels as text)
DEFAULT_TYPES = ["Int = 1", "Int! = 1", "Int = null", "String = \"\"", "Boolean = false", "E = A", "E! = B", "[Int!]! = [1]", "[Int!] = []",
                 "I = {b: \"x\"}", "D", "D! = {}", "Date = \"2000-01-01\"", "Cnt! = 2"]
DEFAULT_PAIRS = [["Int! = 1", "E = A"], ["[Int!]! = [1]", "D"], ["String = \"\"", "Int!"]]
# review round 2: custom scalars nested in lists / input objects
NESTED_CUSTOM_TYPES = ["[Date!]", "[Foo]", "[Cnt!]!", "[UUID]", "C", "C!", "[C!]", "B", "B!"]
RETURNS = ["Int", "E", "Date", "O", "[O]", "[O!]!", "If", "U", "[U]"]
RET_ARGSETS = [[], ["Int"], ["I!", "E"]]

ROT_PLAIN = [["a", "b"]]
ROT_STRINGS = [["\x00", "é", "a"], ["é", '"', "\x00", "\\"]]
ROT_STRINGS_THOROUGH = [["\x00", "é", "a", '"'], ["é", '"', "\x00", "\\"], ["a", "\n", "€", "\x00"]]


def _named(type_sdl: str) -> str:
    """Named type of an argument spec of the grammar ('[Int!]! = [1]' -> 'Int'; the part after '=' is a default value)."""
    return re.sub(r"[\[\]!]", "", type_sdl.split("=", 1)[0]).strip()


def _closure(names: list[str]) -> list[str]:
    seen: list[str] = []
    todo = list(names)
    while todo:
        n = todo.pop(0)
        if n in seen or n not in DEFS:
            continue
        seen.append(n)
        todo.extend(DEFS[n][1])
    return seen


def gen_sdl(item: dict) -> tuple[str, dict]:
    """SDL for a 'gen' item and the reference facts derived from the item (not from schemathesis)."""
    args = item["args"]
    ret = item["ret"]
    arg_sdl = ", ".join(f"{n}: {t}" for n, t in zip("ab", args))
    f = f"f({arg_sdl}): {ret}" if args else f"f: {ret}"
    sibling = "g(z: Int): Int"
    needed = _closure([_named(t) for t in args] + [_named(ret)])
    parts = [DEFS[n][0] for n in needed]
    if item["root"] == "query":
        parts.append(f"type Query {{ {f} {sibling} }}")
        labels = ["Query.f", "Query.g"]
        root_name = "Query"
    else:
        parts.append("type Query { q: Int }")
        parts.append(f"type Mutation {{ {f} {sibling} }}")
        labels = ["Query.q", "Mutation.f", "Mutation.g"]
        root_name = "Mutation"
    return "\n".join(parts), {"labels": labels, "root_name": root_name, "field": "f", "kind": item["root"]}


def ops_sdl(item: dict) -> tuple[str, dict]:
    qn, mn, sn = item["names"]
    parts = []
    if item["names"] != ["Query", "Mutation", "Subscription"]:
        roots = [f"query: {qn}"]
        if item["m"] is not None:
            roots.append(f"mutation: {mn}")
        if item["sub"]:
            roots.append(f"subscription: {sn}")
        parts.append("schema { " + " ".join(roots) + " }")
    parts.append(f"type {qn} {{ " + " ".join(f"{n}(x: Int): Int" for n in item["q"]) + " }")
    labels = [f"{qn}.{n}" for n in item["q"]]
    kinds = {f"{qn}.{n}": "query" for n in item["q"]}
    if item["m"] is not None:
        parts.append(f"type {mn} {{ " + " ".join(f"{n}(x: Int): Int" for n in item["m"]) + " }")
        labels += [f"{mn}.{n}" for n in item["m"]]
        kinds.update({f"{mn}.{n}": "mutation" for n in item["m"]})
    if item["sub"]:
        parts.append(f"type {sn} {{ {item.get('sf', 's')}: Int }}")
    return "\n".join(parts), {"labels": labels, "kinds": kinds}


def _is_stringy(args: list[str], ret: str) -> bool:
    """Can a String/ID literal appear in an argument position reachable from the field? (computed from the grammar)"""
    stringy_inputs = {"String", "ID", "I", "N", "D"}
    if any(_named(t) in stringy_inputs for t in args):
        return True
    return _named(ret) in ("O", "U")  # O.y(s: String)


def _cfgs(tier: str, stringy: bool) -> list[dict]:
    out = []
    for allow_null in (True, False):
        if not stringy:
            out.append({"allow_null": allow_null, "allow_x00": True, "codec": "utf-8", "rot": 0})
            continue
        pairs = [(True, "utf-8"), (False, "ascii")]
        if tier == "thorough":
            pairs += [(False, "utf-8"), (True, "ascii")]
        rots = ROT_STRINGS if tier == "quick" else ROT_STRINGS_THOROUGH
        for x00, codec in pairs:
            for r in range(len(rots)):
                out.append({"allow_null": allow_null, "allow_x00": x00, "codec": codec, "rot": r})
    return out


def _registered_for(args: list[str], ret: str) -> dict:
    names = set(_closure([_named(t) for t in args] + [_named(ret)]))
    reg = {}
    if "Foo" in names:
        reg["Foo"] = "foo"
    if "Cnt" in names:
        reg["Cnt"] = "cnt"
    return reg


def _filters(labels: list[str], names: list[str]) -> list[list[dict]]:
    qn, mn, _ = names
    out: list[list[dict]] = [[]]
    for lb in labels:
        out.append([{"op": "include", "name": lb}])
    out.append([{"op": "include", "name": f"{qn}.zz"}])
    for lb in labels:
        out.append([{"op": "exclude", "name": lb}])
    out.append([{"op": "include", "name": labels[:2]}])
    out.append([{"op": "exclude", "name": labels[-2:]}])
    rx_root = "^" + re.escape(qn) + r"\..*$"
    rx_field = r"^.*\.a$"
    out.append([{"op": "include", "name_regex": rx_root}])
    out.append([{"op": "include", "name_regex": rx_field}])
    out.append([{"op": "exclude", "name_regex": rx_root}])
    out.append([{"op": "exclude", "name_regex": rx_field}])
    # chains of two
    out.append([{"op": "include", "name": labels[0]}, {"op": "include", "name": labels[-1]}] if len(labels) > 1 else
               [{"op": "include", "name": labels[0]}, {"op": "include", "name_regex": rx_field}])
    out.append([{"op": "include", "name_regex": rx_root}, {"op": "exclude", "name": labels[0]}])
    out.append([{"op": "include", "name": labels[:2]}, {"op": "exclude", "name_regex": rx_field}])
    out.append([{"op": "exclude", "name": labels[0]}, {"op": "exclude", "name_regex": rx_field}])
    # drop chains that would register the same filter twice (IncorrectUsage: not the property's subject)
    uniq = []
    for chain in out:
        keys = [json.dumps({k: v for k, v in f.items() if k != "op"}, sort_keys=True) for f in chain]
        if len(set(keys)) == len(keys) and chain not in uniq:
            uniq.append(chain)
    return uniq


def items(tier: str, seed: int) -> list[dict]:
    out: list[dict] = []
    d = BOUNDS[tier]["d"]
    # --- kind gen / G1: argument lists (all lists of <=2 from PAIR_TYPES, unordered pairs incl. equal; singles of the rest)
    shapes: list[list[str]] = [[]]
    shapes += [[t] for t in PAIR_TYPES]
    singles = SINGLE_TYPES_QUICK + (SINGLE_TYPES_THOROUGH if tier == "thorough" else [])
    shapes += [[t] for t in singles]
    for i, t1 in enumerate(PAIR_TYPES):
        for t2 in PAIR_TYPES[i:]:
            shapes.append([t1, t2])
    shapes.append(["Bar", "Int"])
    for n, args in enumerate(shapes):
        out.append({"kind": "gen", "args": args, "ret": "Int", "root": "query" if n % 2 == 0 else "mutation", "source": "sdl",
                    "route": "arg", "registered": _registered_for(args, "Int"), "cfgs": _cfgs(tier, _is_stringy(args, "Int")), "d": d})
    # --- kind gen / G1-deep: one argument (or none), one more deviation, one generation config per item (long trees)
    for n, args in enumerate([[]] + [[t] for t in PAIR_TYPES]):
        for cfg in _cfgs(tier, _is_stringy(args, "Int")):
            out.append({"kind": "gen", "args": args, "ret": "Int", "root": "mutation" if n % 2 == 0 else "query", "source": "introspection",
                        "route": "arg", "registered": _registered_for(args, "Int"), "cfgs": [cfg], "d": d + 1})
    # --- kind gen / G2: return types x root x loader x small argument sets, config through schema.configure()
    for ret in RETURNS:
        for root in ("query", "mutation"):
            for source in ("sdl", "introspection"):
                for args in RET_ARGSETS:
                    out.append({"kind": "gen", "args": args, "ret": ret, "root": root, "source": source, "route": "schema",
                                "registered": _registered_for(args, ret), "cfgs": _cfgs(tier, _is_stringy(args, ret)), "d": d})
    # --- registered scalar taking precedence over a built-in custom one, other loaders
    out.append({"kind": "gen", "args": ["Date", "Date!"], "ret": "Int", "root": "query", "source": "sdl", "route": "arg",
                "registered": {"Date": "dover"}, "cfgs": _cfgs(tier, False), "d": d})
    for source in ("sdl_io", "introspection_data", "introspection_json", "introspection_min"):
        out.append({"kind": "gen", "args": ["N", "Foo"], "ret": "U", "root": "mutation", "source": source, "route": "arg",
                    "registered": {"Foo": "foo"}, "cfgs": _cfgs(tier, True), "d": d})
    # --- review round 2 / kind gen: default values and nested custom scalars, each from SDL text and from introspection JSON
    extra_shapes = [[t] for t in DEFAULT_TYPES] + DEFAULT_PAIRS + [[t] for t in NESTED_CUSTOM_TYPES] + [["C", "[Date!]"]]
    for n, args in enumerate(extra_shapes):
        for k, source in enumerate(("sdl", "introspection")):
            out.append({"kind": "gen", "args": args, "ret": "Int", "root": "query" if (n + k) % 2 == 0 else "mutation", "source": source,
                        "route": "arg" if k == 0 else "schema", "registered": _registered_for(args, "Int"),
                        "cfgs": _cfgs(tier, _is_stringy(args, "Int")), "d": d})
    out += _entry_items() + _multi_items()
    # --- kind ops: root field sets x naming x loader x filter chains
    namings = [(["Query", "Mutation", "Subscription"], False), (["Query", "Mutation", "Subscription"], True), (["Q", "M", "S"], True)]
    for q in (["a"], ["a", "b"]):
        for m in (None, ["a"], ["c"], ["a", "c"], ["b", "a"]):
            for names, sub in namings:
                _, facts = ops_sdl({"q": q, "m": m, "names": names, "sub": sub})
                for chain in _filters(facts["labels"], names):
                    sources = ["sdl", "introspection"]
                    if not chain:
                        sources += ["sdl_io", "introspection_data", "introspection_json", "introspection_min"]
                    for source in sources:
                        out.append({"kind": "ops", "q": q, "m": m, "names": names, "sub": sub, "source": source, "filters": chain})
    # --- review round 2 / kind ops: field names that differ only in letter case (GraphQL names are case-sensitive), within one root
    # and across the roots; a Subscription root whose field has the name of a Query field (must not be counted nor offered)
    for q, m, names, sub, sf in CASE_AND_SUB_VARIANTS:
        _, facts = ops_sdl({"q": q, "m": m, "names": names, "sub": sub, "sf": sf})
        for chain in _filters(facts["labels"], names):
            for source in ("sdl", "introspection"):
                out.append({"kind": "ops", "q": q, "m": m, "names": names, "sub": sub, "sf": sf, "source": source, "filters": chain})
    return out


CASE_AND_SUB_VARIANTS = [
    (["a", "A"], ["A"], ["Query", "Mutation", "Subscription"], False, "s"),
    (["a"], ["A", "a"], ["Q", "M", "S"], True, "A"),
    (["a"], ["a"], ["Query", "Mutation", "Subscription"], True, "a"),
    (["a", "b"], None, ["Q", "M", "S"], True, "a"),
]


def _entry_items() -> list[dict]:
    """Review round 2 / kind 'entry': the same operations through every entry point, in both access orders, each looked up twice."""
    out = []
    qm = [(["a"], None), (["a"], ["a"]), (["a", "b"], ["a"]), (["a", "b"], ["b", "a"]), (["a"], ["a", "c"]), (["b", "a"], ["c"]),
          (["a", "A"], ["A"])]
    namings = [(["Query", "Mutation", "Subscription"], True, "a"), (["Q", "M", "S"], True, "s"), (["Query", "Mutation", "Subscription"], False, "s")]
    n = 0
    for q, m in qm:
        for names, sub, sf in namings:
            _, facts = ops_sdl({"q": q, "m": m, "names": names, "sub": sub, "sf": sf})
            labels = facts["labels"]
            chains = [[], [{"op": "include", "name": labels[-1]}], [{"op": "exclude", "name_regex": r"^.*\.a$"}]]
            for chain in chains:
                n += 1
                for order in ("fwd", "rev"):
                    out.append({"kind": "entry", "q": q, "m": m, "names": names, "sub": sub, "sf": sf,
                                "source": "sdl" if n % 2 else "introspection", "filters": chain, "order": order})
    return out


def _multi_items() -> list[dict]:
    """Review round 2 / kind 'multi': two schemas alive in one process; stored and per-call settings one after the other on one object."""
    out = []
    pairs = [(["Int"], ["String!"], "query", "query"), (["I"], ["E", "Int!"], "mutation", "mutation"), (["Date"], ["Date"], "query", "query"),
             (["String"], ["[Int!]"], "query", "mutation")]
    for args_a, args_b, root_a, root_b in pairs:
        for src_a, src_b in (("sdl", "sdl"), ("sdl", "introspection"), ("introspection", "sdl")):
            for draws in (["A", "B", "A"], ["B", "A", "B"]):
                out.append({"kind": "multi", "mode": "two", "a": {"args": args_a, "ret": "Int", "root": root_a, "source": src_a},
                            "b": {"args": args_b, "ret": "Int", "root": root_b, "source": src_b}, "draws": draws})
    # B is a filtered clone of A (schema.include(...)) that is then given other settings than A
    for args, root in ((["Int"], "query"), (["I"], "mutation")):
        for src in ("sdl", "introspection"):
            for draws in (["A", "B", "A"], ["B", "A", "B"]):
                spec = {"args": args, "ret": "Int", "root": root, "source": src}
                out.append({"kind": "multi", "mode": "two", "a": spec, "b": spec, "b_from": "clone", "draws": draws})
    for n, args in enumerate([["Int"], ["String"], ["I"], ["[Int!]", "E"]]):
        for seq in sorted(CONFIG_SEQUENCES):
            for hold in (True, False):
                out.append({"kind": "multi", "mode": "seq", "args": args, "ret": "Int", "root": "query" if n % 2 == 0 else "mutation",
                            "source": "sdl" if hold else "introspection", "seq": seq, "hold": hold})
    return out


# generation settings: "off" = nulls disabled, NUL disabled, ascii; "on" = nulls allowed, NUL allowed, utf-8
_OFF = {"allow_null": False, "allow_x00": False, "codec": "ascii", "rot": 0}
_ON = {"allow_null": True, "allow_x00": True, "codec": "utf-8", "rot": 0}
# steps: ["store", cfg] = schema.configure(generation=cfg); ["draw", cfg|None] = as_strategy(generation_config=cfg) resp. as_strategy()
CONFIG_SEQUENCES = {
    "stored_off__call_on__plain": [["store", _OFF], ["draw", _ON], ["draw", None]],
    "stored_on__call_off__plain__call_off": [["store", _ON], ["draw", _OFF], ["draw", None], ["draw", _OFF]],
    "stored_off__plain__stored_on__plain__stored_off__plain": [["store", _OFF], ["draw", None], ["store", _ON], ["draw", None], ["store", _OFF],
                                                                ["draw", None]],
    "plain__call_off__stored_off__call_on__plain": [["draw", None], ["draw", _OFF], ["store", _OFF], ["draw", _ON], ["draw", None]],
}


# ------------------------------------------------------------------------------------------------------------------
# loading the real schema
# ------------------------------------------------------------------------------------------------------------------


def _register(registered: dict) -> None:
    """Custom scalar registration is process-global: reset it, then register what the item asks for (public API)."""
    import schemathesis
    from hypothesis import strategies as st
    from schemathesis.specs.graphql import nodes, scalars

    scalars.CUSTOM_SCALARS.clear()
    for name, recipe in sorted(registered.items()):
        if recipe == "foo":
            strategy = st.integers(min_value=0, max_value=3).map(lambda i: nodes.String(f"foo-{i}"))
        elif recipe == "cnt":
            strategy = st.integers(min_value=0, max_value=2).map(nodes.Int)
        elif recipe == "dover":
            strategy = st.integers(min_value=0, max_value=2).map(lambda i: nodes.String(f"D{i}"))
        else:  # pragma: no cover
            raise AssertionError(recipe)
        schemathesis.graphql.scalar(name, strategy)


def _introspect(sdl: str, **kw: Any) -> dict:
    result = graphql.graphql_sync(graphql.build_schema(sdl), graphql.get_introspection_query(**kw))
    assert not result.errors, result.errors
    return json.loads(json.dumps(result.data))


def load_real(sdl: str, source: str) -> Any:
    import schemathesis

    if source == "sdl":
        schema = schemathesis.graphql.from_file(sdl)
    elif source == "sdl_io":
        schema = schemathesis.graphql.from_file(io.StringIO(sdl))
    elif source == "introspection":
        schema = schemathesis.graphql.from_dict(_introspect(sdl))
    elif source == "introspection_data":
        schema = schemathesis.graphql.from_dict({"data": _introspect(sdl)})
    elif source == "introspection_json":
        schema = schemathesis.graphql.from_file(json.dumps(_introspect(sdl)))
    elif source == "introspection_min":
        schema = schemathesis.graphql.from_dict(_introspect(sdl, descriptions=False))
    else:  # pragma: no cover
        raise AssertionError(source)
    return schema.configure(base_url="http://verif.local/graphql")


# ------------------------------------------------------------------------------------------------------------------
# oracle (graphql-core only)
# ------------------------------------------------------------------------------------------------------------------

_QUOTED = re.compile(r"'[^']*'|\"[^\"]*\"")


def _rule_of(message: str) -> str:
    """Coarse class of a validation message: names scrubbed, first words kept."""
    return " ".join(_QUOTED.sub("_", message).split()[:6])


def _category(type_: Any, registered: dict) -> str:
    named = graphql.get_named_type(type_)
    if isinstance(named, graphql.GraphQLEnumType):
        return "enum"
    if isinstance(named, graphql.GraphQLInputObjectType):
        return "input_object"
    if isinstance(named, graphql.GraphQLScalarType):
        if named.name in BUILTIN_SCALARS:
            return "builtin_scalar"
        if named.name in registered:
            return "custom_registered"
        if named.name in KNOWN_CUSTOM:
            return "custom_builtin"
        return "custom_unregistered"
    return "other"


def _form_problem(name: str, node: Any, registered: dict) -> str | None:
    """None when the literal matches the lexical form promised for the custom scalar `name`."""
    cls = type(node).__name__
    if name in registered:
        want_cls, rx = REGISTERED_FORMS[registered[name]]
        if cls != want_cls:
            return f"node {cls}, expected {want_cls}"
        return None if re.match(rx, node.value) else f"{node.value!r} does not match {rx}"
    if name in ("BigInt", "Long"):
        if cls != "IntValueNode":
            return f"node {cls}, expected IntValueNode"
        if not re.fullmatch(r"-?(0|[1-9][0-9]*)", node.value):
            return f"{node.value!r} is not an integer literal"
        if name == "Long" and not -(2**63) <= int(node.value) <= 2**63 - 1:
            return f"{node.value} outside 64 bit"
        return None
    if cls != "StringValueNode":
        return f"node {cls}, expected StringValueNode"
    v = node.value
    try:
        if name == "Date":
            if not re.fullmatch(r"\d{4}-\d{2}-\d{2}", v):
                return f"{v!r} is not YYYY-MM-DD"
            datetime.date.fromisoformat(v)
        elif name == "Time":
            if not re.fullmatch(r"\d{2}:\d{2}:\d{2}(\.\d{1,6})?Z", v):
                return f"{v!r} is not HH:MM:SS[.ffffff]Z"
            datetime.time.fromisoformat(v[:-1])
        elif name == "DateTime":
            if not re.fullmatch(r"\d{4}-\d{2}-\d{2}T\d{2}:\d{2}:\d{2}(\.\d{1,6})?Z", v):
                return f"{v!r} is not YYYY-MM-DDTHH:MM:SS[.ffffff]Z"
            datetime.datetime.fromisoformat(v[:-1])
        elif name == "UUID":
            if not re.fullmatch(r"[0-9a-f]{8}-[0-9a-f]{4}-[0-9a-f]{4}-[0-9a-f]{4}-[0-9a-f]{12}", v):
                return f"{v!r} is not the RFC 4122 text form"
            uuid.UUID(v)
        elif name == "IP":
            ipaddress.ip_address(v)
        elif name == "IPv4":
            ipaddress.IPv4Address(v)
        elif name == "IPv6":
            ipaddress.IPv6Address(v)
        else:
            return None
    except ValueError as exc:
        return f"{v!r}: {exc}"
    return None


class _Facts:
    def __init__(self) -> None:
        self.nulls: list[dict] = []  # where / declared category
        self.strings: list[str] = []
        self.custom: list[tuple[str, Any]] = []
        self.n_args = 0
        self.nested_input = False
        self.list_literal = False
        self.nonempty_list = False
        self.enum_literal = False
        self.inline_fragment = False
        self.nested_field_args = False


def _scan_untyped(node: Any, facts: _Facts, where: str, in_object: bool) -> None:
    """Type-free scan of one argument value (used for null / string checks even when validation failed)."""
    if isinstance(node, graphql.NullValueNode):
        facts.nulls.append({"where": where})
    elif isinstance(node, graphql.StringValueNode):
        facts.strings.append(node.value)
    elif isinstance(node, graphql.EnumValueNode):
        facts.enum_literal = True
    elif isinstance(node, graphql.ListValueNode):
        facts.list_literal = True
        if node.values:
            facts.nonempty_list = True
        for v in node.values:
            _scan_untyped(v, facts, "list_item", in_object)
    elif isinstance(node, graphql.ObjectValueNode):
        if in_object:
            facts.nested_input = True
        for f in node.fields:
            _scan_untyped(f.value, facts, "input_field", True)


def _scan_selection(selection_set: Any, facts: _Facts, depth: int) -> None:
    for sel in selection_set.selections:
        if isinstance(sel, graphql.FieldNode):
            for arg in sel.arguments:
                facts.n_args += 1
                if depth > 0:
                    facts.nested_field_args = True
                _scan_untyped(arg.value, facts, "argument", False)
            if sel.selection_set is not None:
                _scan_selection(sel.selection_set, facts, depth + 1)
        elif isinstance(sel, graphql.InlineFragmentNode):
            facts.inline_fragment = True
            _scan_selection(sel.selection_set, facts, depth + 1)


def _typed_value(type_: Any, node: Any, where: str, out: list, registered: dict) -> None:
    if isinstance(type_, graphql.GraphQLNonNull):
        type_ = type_.of_type
    if isinstance(node, graphql.NullValueNode):
        out.append(("null", where, _category(type_, registered) if not isinstance(type_, graphql.GraphQLList) else "list", None, None))
        return
    if isinstance(type_, graphql.GraphQLList):
        if isinstance(node, graphql.ListValueNode):
            for v in node.values:
                _typed_value(type_.of_type, v, "list_item", out, registered)
        else:
            _typed_value(type_.of_type, node, where, out, registered)
        return
    if isinstance(type_, graphql.GraphQLInputObjectType) and isinstance(node, graphql.ObjectValueNode):
        for f in node.fields:
            fd = type_.fields.get(f.name.value)
            if fd is not None:
                _typed_value(fd.type, f.value, "input_field", out, registered)
        return
    if isinstance(type_, graphql.GraphQLScalarType) and type_.name not in BUILTIN_SCALARS:
        out.append(("custom", where, _category(type_, registered), type_.name, node))


def _typed_selection(ref: Any, parent: Any, selection_set: Any, out: list, registered: dict) -> None:
    for sel in selection_set.selections:
        if isinstance(sel, graphql.FieldNode):
            fields = getattr(parent, "fields", {})
            fdef = fields.get(sel.name.value)
            if fdef is None:
                continue
            for arg in sel.arguments:
                adef = fdef.args.get(arg.name.value)
                if adef is not None:
                    _typed_value(adef.type, arg.value, "argument", out, registered)
            if sel.selection_set is not None:
                _typed_selection(ref, graphql.get_named_type(fdef.type), sel.selection_set, out, registered)
        elif isinstance(sel, graphql.InlineFragmentNode):
            t = parent if sel.type_condition is None else ref.type_map.get(sel.type_condition.name.value)
            if t is not None:
                _typed_selection(ref, t, sel.selection_set, out, registered)


def judge(res: Result, ref: Any, case: Any, expect: dict, cfg: dict, registered: dict, base: dict, detail: dict) -> None:
    """expect: {"label","kind" (query|mutation),"field"}; cfg: allow_null/allow_x00/codec."""
    detail = dict(detail)
    body = case.body
    detail["body"] = body if isinstance(body, str) else repr(body)
    # the request: what goes on the wire must carry the same document under "query"
    try:
        kwargs = case.as_transport_kwargs()
    except Exception as exc:  # noqa: BLE001
        res.violation({**base, "kind": "request_not_serializable", "error": type(exc).__name__}, detail | {"error": repr(exc)[:300]})
        return
    payload = kwargs.get("json")
    if not (isinstance(payload, dict) and set(payload) == {"query"} and payload["query"] == body and isinstance(body, str)):
        res.violation({**base, "kind": "request_payload_is_not_query_document"}, detail | {"json": repr(payload)[:300]})
        return
    if case.operation.label != expect["label"]:
        res.violation({**base, "kind": "case_belongs_to_other_operation"}, detail | {"case_label": case.operation.label})
    try:
        doc = graphql.parse(body)
    except graphql.GraphQLError as exc:
        res.violation({**base, "kind": "syntax_error"}, detail | {"error": str(exc)[:300]})
        return
    errors = graphql.validate(ref, doc)
    valid = not errors
    if errors:
        res.violation({**base, "kind": "validation_error", "rule": _rule_of(errors[0].message)},
                      detail | {"errors": [e.message for e in errors[:3]]})
    ops = [d for d in doc.definitions if isinstance(d, graphql.OperationDefinitionNode)]
    if len(ops) != 1 or len(doc.definitions) != 1:
        res.violation({**base, "kind": "not_exactly_one_operation", "operations": len(ops)}, detail)
        return
    op = ops[0]
    if op.operation.value != expect["kind"]:
        res.violation({**base, "kind": "wrong_operation_type", "got": op.operation.value, "expected": expect["kind"]}, detail)
    sels = list(op.selection_set.selections)
    names = [s.name.value if isinstance(s, graphql.FieldNode) else type(s).__name__ for s in sels]
    if names != [expect["field"]]:
        res.violation({**base, "kind": "top_level_selection_is_not_the_operation_field", "selections": len(sels),
                       "contains_field": expect["field"] in names}, detail | {"selected": names})
    facts = _Facts()
    _scan_selection(op.selection_set, facts, 0)
    typed: list = []
    if valid:
        root = ref.query_type if expect["kind"] == "query" else ref.mutation_type
        if op.operation.value == expect["kind"] and root is not None:
            _typed_selection(ref, root, op.selection_set, typed, registered)
    # nulls
    if facts.nulls:
        res.count("cases_with_null_literal")
        if cfg["allow_null"]:
            res.count("null_seen_when_allowed")
        else:
            typed_nulls = [t for t in typed if t[0] == "null"]
            if typed_nulls:
                seen = set()
                for _, where, cat, _, _ in typed_nulls:
                    if (where, cat) not in seen:
                        seen.add((where, cat))
                        res.violation({**base, "kind": "null_literal_with_allow_null_false", "where": where, "declared": cat}, detail)
            else:
                res.violation({**base, "kind": "null_literal_with_allow_null_false", "where": facts.nulls[0]["where"],
                               "declared": "unknown"}, detail)
    # strings
    has_nul = any("\x00" in s for s in facts.strings) or "\x00" in body
    if has_nul:
        if cfg["allow_x00"]:
            res.count("nul_seen_when_allowed")
        else:
            res.violation({**base, "kind": "nul_in_string_literal_with_allow_x00_false"}, detail)
    non_ascii = False
    for s in facts.strings:
        if any(ord(c) > 127 for c in s):
            non_ascii = True
        if cfg["codec"]:
            try:
                s.encode(cfg["codec"])
            except UnicodeEncodeError:
                res.violation({**base, "kind": "string_literal_not_encodable_in_codec", "codec": cfg["codec"]}, detail)
                break
    if non_ascii:
        res.count("non_ascii_seen")
    if facts.strings and any(s for s in facts.strings):
        res.count("cases_with_nonempty_string")
    # custom scalars
    for kind, where, cat, name, node in typed:
        if kind != "custom":
            continue
        if cat == "custom_unregistered":
            res.count("literal_for_unregistered_scalar")  # property is silent: nobody promised a form
            continue
        problem = _form_problem(name, node, registered)
        res.count(f"custom_literal_checked[{name if cat == 'custom_builtin' else cat}]")
        if where in ("list_item", "input_field"):
            res.count("custom_literal_nested_checked")
        if problem is not None:
            res.violation({**base, "kind": "custom_scalar_literal_off_form", "scalar": name, "declared": cat}, detail | {"problem": problem})
    # coverage facts
    if facts.nested_input:
        res.count("cases_with_nested_input_object")
    if facts.list_literal:
        res.count("cases_with_list_literal")
    if facts.nonempty_list:
        res.count("cases_with_nonempty_list")
    if facts.enum_literal:
        res.count("cases_with_enum_literal")
    if facts.inline_fragment:
        res.count("cases_with_inline_fragment")
    if facts.nested_field_args:
        res.count("cases_with_nested_field_arguments")
    if expect["kind"] == "mutation" and op.operation.value == "mutation":
        res.count("mutation_cases")
    if op.operation.value == "query":
        res.count("query_cases")
    res.outcomes.add("doc:" + op.operation.value)
    if facts.n_args:
        res.nontriv([base, detail.get("sdl"), detail.get("source"), cfg, body])
    if len(res.samples) < 2 and facts.n_args:
        res.samples.append({"sdl": detail.get("sdl"), "source": detail.get("source"), "cfg": cfg, "choices": detail.get("choices"),
                            "label": expect["label"], "body": body})


# ------------------------------------------------------------------------------------------------------------------
# reference for offered operations / statistic
# ------------------------------------------------------------------------------------------------------------------


def _matches(f: dict, label: str) -> bool:
    if "name" in f:
        v = f["name"]
        return label in v if isinstance(v, list) else label == v
    return re.fullmatch(f["name_regex"], label) is not None


def reference_selected(labels: list[str], chain: list[dict]) -> list[str]:
    inc = [f for f in chain if f["op"] == "include"]
    exc = [f for f in chain if f["op"] == "exclude"]
    out = []
    for lb in labels:
        if any(_matches(f, lb) for f in exc):
            continue
        if inc and not any(_matches(f, lb) for f in inc):
            continue
        out.append(lb)
    return out


def apply_filters(schema: Any, chain: list[dict]) -> Any:
    for f in chain:
        kw = {k: v for k, v in f.items() if k != "op"}
        schema = schema.include(**kw) if f["op"] == "include" else schema.exclude(**kw)
    return schema


def check_offered(res: Result, schema: Any, labels: list[str], selected: list[str], base: dict, detail: dict) -> list:
    """Offered operations and statistic against the reference. Returns offered (label, operation)."""
    from schemathesis.core.result import Ok

    res.evaluations += 1
    res.traces += 1
    offered = []
    for r in schema.get_all_operations():
        if not isinstance(r, Ok):
            res.violation({**base, "kind": "operation_not_ok"}, detail | {"result": repr(r)[:200]})
            continue
        offered.append((r.ok().label, r.ok()))
    got = [lb for lb, _ in offered]
    if sorted(got) != sorted(selected):
        res.violation({**base, "kind": "offered_operations_differ_from_reference", "extra": len(set(got) - set(selected)),
                       "missing": len(set(selected) - set(got)), "duplicates": len(got) - len(set(got))},
                      detail | {"offered": got, "expected": selected})
    stat = schema.statistic.operations
    if stat.total != len(labels):
        res.violation({**base, "kind": "statistic_total_wrong", "delta": stat.total - len(labels)},
                      detail | {"total": stat.total, "expected": len(labels)})
    if stat.selected != len(selected):
        res.violation({**base, "kind": "statistic_selected_wrong", "equals_total": stat.selected == stat.total},
                      detail | {"selected": stat.selected, "expected": len(selected)})
    if len(selected) < len(labels):
        res.count("filtered_item")
    return offered


# ------------------------------------------------------------------------------------------------------------------
# work items
# ------------------------------------------------------------------------------------------------------------------


def check_item(item: dict, tier: str) -> Result:
    common.reset_schemathesis_caches()
    if item["kind"] == "gen":
        return _check_gen(item, tier)
    if item["kind"] == "entry":
        return _check_entry(item, tier)
    if item["kind"] == "multi":
        return _check_multi(item, tier)
    return _check_ops(item, tier)


def _gen_config(cfg: dict) -> Any:
    from schemathesis.generation import GenerationConfig

    return GenerationConfig(graphql_allow_null=cfg["allow_null"], allow_x00=cfg["allow_x00"], codec=cfg["codec"])


def _rotation(tier: str, cfg: dict, stringy: bool) -> list[str]:
    if not stringy:
        return ROT_PLAIN[0]
    rots = ROT_STRINGS if tier == "quick" else ROT_STRINGS_THOROUGH
    return rots[cfg["rot"]]


def _check_gen(item: dict, tier: str) -> Result:
    res = Result()
    sdl, facts = gen_sdl(item)
    registered = item["registered"]
    _register(registered)
    ref = graphql.build_schema(sdl)
    stringy = _is_stringy(item["args"], item["ret"])
    unregistered = [t for t in item["args"] if _named(t) == "Bar"]
    has_default = any("=" in t or _named(t) == "D" for t in item["args"])
    base = {"item": "gen"}
    try:
        schema = load_real(sdl, item["source"])
    except Exception as exc:  # noqa: BLE001
        res.violation({**base, "kind": "valid_schema_not_loaded", "source": item["source"], "error": type(exc).__name__},
                      {"sdl": sdl, "error": repr(exc)[:300]})
        _register({})
        return res
    # offered / statistic for the unfiltered schema of this shape
    check_offered(res, schema, facts["labels"], facts["labels"], base, {"sdl": sdl, "source": item["source"], "filters": []})
    expect = {"label": f"{facts['root_name']}.f", "kind": facts["kind"], "field": "f"}
    for cfg in item["cfgs"]:
        config = _gen_config(cfg)
        detail = {"sdl": sdl, "source": item["source"], "cfg": cfg, "route": item["route"], "registered": registered}
        try:
            if item["route"] == "schema":
                schema.configure(generation=config)
                strategy = schema[facts["root_name"]]["f"].as_strategy()
            else:
                strategy = schema[facts["root_name"]]["f"].as_strategy(generation_config=config)
        except Exception as exc:  # noqa: BLE001
            res.evaluations += 1
            res.outcomes.add("construction_error")
            res.count(f"construction_error[{type(exc).__name__}]")
            if not unregistered:
                res.count("trees_without_valid_case_on_supported_shape")
            continue
        chars = _rotation(tier, cfg, stringy)
        stats = Stats()
        valid = 0
        for ex in explore(draw_strategy(strategy), Alphabet(chars=chars), item["d"], max_executions=BOUNDS[tier]["max_exec_per_tree"],
                          stats=stats):
            res.evaluations += 1
            res.outcomes.add(ex.status)
            if ex.status == "valid":
                valid += 1
                res.traces += 1
                judge(res, ref, ex.value, expect, cfg, registered, base | _shape_facts(item), detail | {"choices": ex.choices, "chars": chars})
                if has_default:
                    res.count("cases_from_argument_with_default")
            elif ex.status == "error":
                res.count(f"generation_error[{type(ex.error).__name__}]")
        res.states += stats.nodes
        res.transitions += stats.edges
        res.count("trees")
        if item["source"] != "sdl":
            res.count("trees_from_introspection")
        if stats.capped:
            res.exhaustive = False
            res.count("trees_capped")
        if valid == 0 and not any(t.endswith("!") for t in unregistered):
            res.count("trees_without_valid_case_on_supported_shape")
    _register({})
    return res


def _shape_facts(item: dict) -> dict:
    """Facts of the enumerated shape that go into signatures (coarse: type categories, not the concrete pair)."""
    cats = sorted({"unregistered_scalar" if _named(t) == "Bar" else "other" for t in item["args"]})
    return {"has_unregistered_scalar_argument": "unregistered_scalar" in cats}


def _check_ops(item: dict, tier: str) -> Result:
    res = Result()
    sdl, facts = ops_sdl(item)
    _register({})
    ref = graphql.build_schema(sdl)
    labels = facts["labels"]
    chain = item["filters"]
    selected = reference_selected(labels, chain)
    fields_by_name: dict[str, int] = {}
    for lb in labels:
        fields_by_name[lb.split(".", 1)[1]] = fields_by_name.get(lb.split(".", 1)[1], 0) + 1
    base = {"item": "ops"}
    detail = {"sdl": sdl, "source": item["source"], "filters": chain}
    try:
        schema = apply_filters(load_real(sdl, item["source"]), chain)
    except Exception as exc:  # noqa: BLE001
        res.violation({**base, "kind": "valid_schema_or_filter_not_accepted", "error": type(exc).__name__}, detail | {"error": repr(exc)[:300]})
        return res
    offered = check_offered(res, schema, labels, selected, base, detail)
    res.outcomes.add(f"selected:{min(len(selected), 2)}")
    # every offered label resolves through schema[Type][field] to the operation of that label
    cfg = {"allow_null": True, "allow_x00": True, "codec": "utf-8", "rot": 0}
    for label, offered_op in offered:
        type_name, field_name = label.split(".", 1)
        shared = fields_by_name.get(field_name, 0) > 1
        sig = {**base, "field_name_in_both_roots": shared}
        res.evaluations += 1
        try:
            looked_up = schema[type_name][field_name]
        except Exception as exc:  # noqa: BLE001
            res.violation({**sig, "kind": "offered_label_does_not_resolve", "error": type(exc).__name__}, detail | {"label": label})
            continue
        res.count("labels_resolved")
        if shared:
            res.count("labels_resolved_with_shared_field_name")
        origins = [("lookup", looked_up), ("offered", offered_op)]
        if looked_up.label != label:
            res.violation({**sig, "kind": "offered_label_resolves_to_other_operation"},
                          detail | {"label": label, "resolved": looked_up.label})
            origins = origins[1:]  # the operation that was offered is still judged
        expect = {"label": label, "kind": facts["kinds"][label], "field": field_name}
        for origin, operation in origins:
            strategy = operation.as_strategy(generation_config=_gen_config(cfg))
            stats = Stats()
            for ex in explore(draw_strategy(strategy), Alphabet(chars=ROT_PLAIN[0]), 0, stats=stats):
                res.evaluations += 1
                res.outcomes.add(ex.status)
                if ex.status == "valid":
                    res.traces += 1
                    judge(res, ref, ex.value, expect, cfg, {}, {**sig, "origin": origin}, detail | {"choices": ex.choices, "label": label})
            res.states += stats.nodes
            res.transitions += stats.edges
    return res


# ------------------------------------------------------------------------------------------------------------------
# review round 2: entry points / access order (kind 'entry'), two schemas and setting sequences (kind 'multi')
# ------------------------------------------------------------------------------------------------------------------


def _explore_judged(res: Result, strategy: Any, chars: list[str], d: int, tier: str, on_case: Any) -> Stats:
    stats = Stats()
    for ex in explore(draw_strategy(strategy), Alphabet(chars=chars), d, max_executions=BOUNDS[tier]["max_exec_per_tree"], stats=stats):
        res.evaluations += 1
        res.outcomes.add(ex.status)
        if ex.status == "valid":
            res.traces += 1
            on_case(ex)
        elif ex.status == "error":
            res.count(f"generation_error[{type(ex.error).__name__}]")
    res.states += stats.nodes
    res.transitions += stats.edges
    if stats.capped:
        res.exhaustive = False
        res.count("trees_capped")
    return stats


def _check_entry(item: dict, tier: str) -> Result:
    """The operations of one schema object through every entry point, in one of two access orders.

    fwd: get_all_operations, statistic, lookups (Query fields first), then the strategies of the maps and of the schema;
    rev: statistic, get_all_operations, the strategies (Mutation map first), then the lookups in reverse order.
    Every label is looked up twice (schema[T][f], then through a map object that is held); the second result is drawn from.
    """
    from schemathesis.core.result import Ok

    res = Result()
    sdl, facts = ops_sdl(item)
    _register({})
    ref = graphql.build_schema(sdl)
    labels, kinds, chain = facts["labels"], facts["kinds"], item["filters"]
    qn, mn, sn = item["names"]
    selected = reference_selected(labels, chain)
    rev = item["order"] == "rev"
    base = {"item": "entry", "order": item["order"]}
    detail = {"sdl": sdl, "source": item["source"], "filters": chain, "order": item["order"]}
    names_count: dict[str, int] = {}
    for lb in labels:
        names_count[lb.split(".", 1)[1]] = names_count.get(lb.split(".", 1)[1], 0) + 1
    try:
        schema = apply_filters(load_real(sdl, item["source"]), chain)
    except Exception as exc:  # noqa: BLE001
        res.violation({**base, "kind": "valid_schema_or_filter_not_accepted", "error": type(exc).__name__}, detail | {"error": repr(exc)[:300]})
        return res
    if rev:
        _ = schema.statistic.operations.total  # the statistic is measured before the operations are enumerated
    offered = check_offered(res, schema, labels, selected, base, detail)
    again = [r.ok().label for r in schema.get_all_operations() if isinstance(r, Ok)]
    res.evaluations += 1
    if sorted(again) != sorted(lb for lb, _ in offered):
        res.violation({**base, "kind": "second_enumeration_offers_other_operations"}, detail | {"first": [lb for lb, _ in offered], "second": again})
    if len(schema) != len(labels):
        res.violation({**base, "kind": "len_of_schema_is_not_total"}, detail | {"len": len(schema), "expected": len(labels)})
    res.outcomes.add(f"selected:{min(len(selected), 2)}")
    roots = [qn] + ([mn] if item["m"] is not None else [])
    cfg = {"allow_null": False, "allow_x00": True, "codec": "utf-8", "rot": 0}
    d = 2

    def case_judge(allowed: list[str], via: str, seen: set) -> Any:
        def on_case(ex: Any) -> None:
            label = ex.value.operation.label
            if label not in allowed:
                res.violation({**base, "kind": "strategy_yields_case_of_operation_that_is_not_offered", "via": via,
                               "is_root_field": label in labels}, detail | {"case_label": label, "allowed": allowed, "body": repr(ex.value.body)[:200]})
                return
            seen.add(label)
            res.count(f"{via}_cases")
            field_name = label.split(".", 1)[1]
            judge(res, ref, ex.value, {"label": label, "kind": kinds[label], "field": field_name}, cfg, {},
                  {**base, "via": via, "field_name_in_both_roots": names_count[field_name] > 1},
                  detail | {"choices": ex.choices, "label": label, "via": via, "cfg": cfg})
        return on_case

    def strategies() -> None:
        if not chain:
            # the mapping interface is judged on the unfiltered schema only (the property does not say that schema[T] is filtered)
            for t in (list(reversed(roots)) if rev else roots):
                own = [lb for lb in labels if lb.split(".", 1)[0] == t]
                seen: set = set()
                try:
                    strategy = schema[t].as_strategy(generation_config=_gen_config(cfg))
                except Exception as exc:  # noqa: BLE001
                    res.violation({**base, "kind": "map_strategy_not_built", "error": type(exc).__name__}, detail | {"type": t, "error": repr(exc)[:300]})
                    continue
                stats = _explore_judged(res, strategy, ROT_PLAIN[0], d, tier, case_judge(own, "map_strategy", seen))
                if not stats.capped and seen != set(own):
                    # every alternative of the first choice point is taken at d >= 1: an operation never seen is not offered by the map
                    res.violation({**base, "kind": "map_strategy_never_produces_a_field_of_its_root_type", "missing": len(set(own) - seen)},
                                  detail | {"type": t, "seen": sorted(seen), "expected": own})
        if selected:
            seen2: set = set()
            try:
                strategy = schema.as_strategy(generation_config=_gen_config(cfg))
            except Exception as exc:  # noqa: BLE001
                res.violation({**base, "kind": "schema_strategy_not_built", "error": type(exc).__name__}, detail | {"error": repr(exc)[:300]})
                return
            stats = _explore_judged(res, strategy, ROT_PLAIN[0], d, tier, case_judge(selected, "schema_strategy", seen2))
            if not stats.capped and seen2 != set(selected):
                res.violation({**base, "kind": "schema_strategy_never_produces_a_selected_operation", "missing": len(set(selected) - seen2)},
                              detail | {"seen": sorted(seen2), "expected": selected})
        else:
            res.count("schema_strategy_skipped_nothing_selected")  # property is silent on a strategy over zero operations

    def mapping() -> None:
        if chain:
            return
        res.evaluations += 1
        got_roots = list(schema)
        if sorted(got_roots) != sorted(roots):
            res.violation({**base, "kind": "root_types_offered_by_the_mapping_differ", "subscription_offered": item["sub"] and sn in got_roots},
                          detail | {"got": got_roots, "expected": roots})
        via_map = []
        for t in got_roots:
            try:
                fields = list(schema[t])
                if len(schema[t]) != len(fields):
                    res.violation({**base, "kind": "len_of_map_differs_from_its_iteration"}, detail | {"type": t})
                via_map += [f"{t}.{f}" for f in fields]
            except Exception as exc:  # noqa: BLE001
                res.violation({**base, "kind": "offered_root_type_does_not_resolve", "error": type(exc).__name__}, detail | {"type": t})
        if sorted(via_map) != sorted(labels):
            res.violation({**base, "kind": "fields_offered_by_the_mapping_differ_from_root_fields", "extra": len(set(via_map) - set(labels)),
                           "missing": len(set(labels) - set(via_map))}, detail | {"got": via_map, "expected": labels})
        res.count("mapping_iteration_checked")
        if item["sub"]:
            try:
                sub_map = schema[sn]
                sub_fields = list(sub_map)
            except Exception:  # noqa: BLE001 - the expected outcome: a subscription root is no operation map
                res.count("subscription_lookup_rejected")
            else:
                res.violation({**base, "kind": "subscription_root_resolves_as_operation_map"}, detail | {"fields": sub_fields})

    def lookups() -> None:
        order = list(reversed(selected)) if rev else list(selected)
        for label in order:
            type_name, field_name = label.split(".", 1)
            shared = names_count[field_name] > 1
            sig = {**base, "field_name_in_both_roots": shared}
            res.evaluations += 1
            try:
                first = schema[type_name][field_name]
                held = schema[type_name]
                second = held[field_name]
            except Exception as exc:  # noqa: BLE001
                res.violation({**sig, "kind": "offered_label_does_not_resolve", "error": type(exc).__name__}, detail | {"label": label})
                continue
            wrong = [n for n, op in (("first", first), ("second", second)) if op.label != label]
            if wrong:
                res.violation({**sig, "kind": "offered_label_resolves_to_other_operation", "lookup": "+".join(wrong)},
                              detail | {"label": label, "first": first.label, "second": second.label})
                continue
            res.count("labels_looked_up_twice")
            if rev and shared:
                res.count("shared_field_name_looked_up_mutation_first")
            if any(lb != label and lb.lower() == label.lower() for lb in labels):
                res.count("labels_with_case_variant_resolved")
            expect = {"label": label, "kind": kinds[label], "field": field_name}
            lcfg = {"allow_null": True, "allow_x00": True, "codec": "utf-8", "rot": 0}
            strategy = second.as_strategy(generation_config=_gen_config(lcfg))
            _explore_judged(res, strategy, ROT_PLAIN[0], 0, tier,
                            lambda ex, sig=sig, expect=expect, label=label: judge(
                                res, ref, ex.value, expect, lcfg, {}, {**sig, "via": "second_lookup"},
                                detail | {"choices": ex.choices, "label": label, "via": "second_lookup"}))

    mapping()
    for step in ((strategies, lookups) if rev else (lookups, strategies)):
        step()
    return res


def _effective(stored: dict, call: dict | None) -> dict:
    return dict(call) if call is not None else dict(stored)


def _check_multi(item: dict, tier: str) -> Result:
    res = Result()
    base = {"item": "multi", "mode": item["mode"]}
    if item["mode"] == "two":
        # two schema objects alive at once; A stores "off" settings, B keeps the defaults; drawn alternately without per-call settings
        loaded: dict[str, Any] = {}
        _register({})
        for key in ("a", "b"):
            spec = item[key]
            sdl, facts = gen_sdl(spec)
            stringy = _is_stringy(spec["args"], spec["ret"])
            try:
                if key == "b" and item.get("b_from") == "clone":
                    # A already stores the "off" settings; the clone starts from them and is then told otherwise
                    schema = loaded["A"][0].include(name=f"{facts['root_name']}.f")
                    schema.configure(generation=_gen_config(_ON))
                    res.count("two_schema_clone_items")
                else:
                    schema = load_real(sdl, spec["source"])
            except Exception as exc:  # noqa: BLE001
                res.violation({**base, "kind": "valid_schema_not_loaded", "error": type(exc).__name__}, {"sdl": sdl, "error": repr(exc)[:300]})
                return res
            cfg = dict(_OFF) if key == "a" else dict(_ON)
            if key == "a":
                schema.configure(generation=_gen_config(cfg))
            loaded[key.upper()] = (schema, sdl, facts, graphql.build_schema(sdl), cfg, stringy)
        for n, which in enumerate(item["draws"]):
            schema, sdl, facts, ref, cfg, stringy = loaded[which]
            expect = {"label": f"{facts['root_name']}.f", "kind": facts["kind"], "field": "f"}
            detail = {"sdl": sdl, "other_sdl": loaded["B" if which == "A" else "A"][1], "draws": item["draws"], "draw": n, "which": which, "cfg": cfg}
            chars = ROT_STRINGS[0] if stringy else ROT_PLAIN[0]
            try:
                strategy = schema[facts["root_name"]]["f"].as_strategy()
            except Exception as exc:  # noqa: BLE001
                res.violation({**base, "kind": "strategy_not_built", "error": type(exc).__name__}, detail | {"error": repr(exc)[:300]})
                continue
            sig = {**base, "schema": "stores_off_settings" if which == "A" else "permissive_settings", "after_other_schema_was_drawn": n > 0,
                   "other_is_clone": item.get("b_from") == "clone"}
            stats = _explore_judged(res, strategy, chars, 1, tier,
                                    lambda ex, ref=ref, expect=expect, cfg=cfg, sig=sig, detail=detail, chars=chars: judge(
                                        res, ref, ex.value, expect, cfg, {}, sig, detail | {"choices": ex.choices, "chars": chars}))
            res.count("two_schema_draws")
            if stats.valid == 0:
                res.count("trees_without_valid_case_on_supported_shape")
        return res
    # mode seq: stored and per-call settings one after the other on ONE schema object
    sdl, facts = gen_sdl(item)
    _register({})
    ref = graphql.build_schema(sdl)
    stringy = _is_stringy(item["args"], item["ret"])
    chars = ROT_STRINGS[0] if stringy else ROT_PLAIN[0]
    try:
        schema = load_real(sdl, item["source"])
    except Exception as exc:  # noqa: BLE001
        res.violation({**base, "kind": "valid_schema_not_loaded", "error": type(exc).__name__}, {"sdl": sdl, "error": repr(exc)[:300]})
        return res
    expect = {"label": f"{facts['root_name']}.f", "kind": facts["kind"], "field": "f"}
    stored = dict(_ON)  # the defaults of GenerationConfig: nulls allowed, NUL allowed, utf-8
    held = schema[facts["root_name"]]["f"] if item["hold"] else None
    history: list[str] = []
    for n, (action, cfg) in enumerate(CONFIG_SEQUENCES[item["seq"]]):
        if action == "store":
            schema.configure(generation=_gen_config(cfg))
            stored = dict(cfg)
            history.append("store_off" if cfg == _OFF else "store_on")
            continue
        effective = _effective(stored, cfg)
        step = "plain" if cfg is None else ("call_off" if cfg == _OFF else "call_on")
        detail = {"sdl": sdl, "source": item["source"], "seq": item["seq"], "step": n, "history": list(history), "cfg": effective, "hold": item["hold"]}
        sig = {**base, "step": step, "stored": "off" if stored == _OFF else "on", "after": history[-1] if history else "nothing"}
        history.append(step)
        operation = held if held is not None else schema[facts["root_name"]]["f"]
        try:
            strategy = operation.as_strategy() if cfg is None else operation.as_strategy(generation_config=_gen_config(cfg))
        except Exception as exc:  # noqa: BLE001
            res.violation({**sig, "kind": "strategy_not_built", "error": type(exc).__name__}, detail | {"error": repr(exc)[:300]})
            continue
        stats = _explore_judged(res, strategy, chars, 1, tier,
                                lambda ex, effective=effective, sig=sig, detail=detail: judge(
                                    res, ref, ex.value, expect, effective, {}, sig, detail | {"choices": ex.choices, "chars": chars}))
        res.count("config_sequence_draws")
        if effective == _OFF and history[:-1] and any(h in ("call_on", "store_on") for h in history[:-1]):
            res.count("strict_draw_after_permissive_settings")
        if stats.valid == 0:
            res.count("trees_without_valid_case_on_supported_shape")
    return res


# ------------------------------------------------------------------------------------------------------------------
# vacuity
# ------------------------------------------------------------------------------------------------------------------

REQUIRED_COUNTERS = [
    "cases_with_nested_input_object", "cases_with_list_literal", "cases_with_nonempty_list", "cases_with_enum_literal",
    "mutation_cases", "query_cases", "null_seen_when_allowed", "nul_seen_when_allowed", "non_ascii_seen", "cases_with_inline_fragment",
    "cases_with_nested_field_arguments", "trees_from_introspection", "filtered_item", "labels_resolved",
    "labels_resolved_with_shared_field_name", "custom_literal_checked[custom_registered]",
    # review round 2
    "labels_looked_up_twice", "shared_field_name_looked_up_mutation_first", "labels_with_case_variant_resolved", "map_strategy_cases",
    "schema_strategy_cases", "mapping_iteration_checked", "subscription_lookup_rejected", "two_schema_draws", "two_schema_clone_items", "config_sequence_draws",
    "strict_draw_after_permissive_settings", "cases_from_argument_with_default", "custom_literal_nested_checked",
    *[f"custom_literal_checked[{n}]" for n in KNOWN_CUSTOM],
]


def vacuity(total: Result, tier: str) -> list[str]:
    out = []
    if total.traces == 0:
        out.append("no case was judged at all")
    if len(total.outcomes) < 2:
        out.append("a single outcome class")
    for key in REQUIRED_COUNTERS:
        if total.counters.get(key, 0) == 0:
            out.append(f"coverage counter {key} is zero")
    n = total.counters.get("trees_without_valid_case_on_supported_shape", 0)
    if n:
        out.append(f"{n} choice trees of supported shapes produced no valid case (nothing judged there)")
    return out
