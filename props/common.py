"""Helpers shared by property modules: loading schemas, judging generated cases with the independent evaluator."""

from __future__ import annotations

import copy
import re
from typing import Any
from urllib.parse import unquote, unquote_plus

from oracles.jsonschema_mini import Evaluator, Unknown, coerced_verdict, readings, verdict

LOCATIONS = ("path", "query", "header", "cookie")
CONTAINER = {"path": "path_parameters", "query": "query", "header": "headers", "cookie": "cookies"}


def reset_schemathesis_caches() -> None:
    """Process-global caches that would make one work item depend on an earlier one."""
    from schemathesis.generation import coverage
    from schemathesis.specs.openapi import _hypothesis as oh

    for name in ("cached_draw",):
        fn = getattr(coverage, name, None)
        if fn is not None and hasattr(fn, "cache_clear"):
            fn.cache_clear()
    oh._PARAMETER_STRATEGIES_CACHE.clear()
    oh._BODY_STRATEGIES_CACHE.clear()


def load(doc: dict) -> Any:
    import schemathesis

    return schemathesis.openapi.from_dict(copy.deepcopy(doc))


def failing_keywords(root: dict, schema: Any, value: Any, location: str, spec: str) -> list[str]:
    """Which keywords of the (resolved) schema the value violates on its own - used for violation signatures."""
    ev = Evaluator(root, spec=spec)
    try:
        s = ev.resolve(schema)
    except Unknown:
        return ["?"]
    if not isinstance(s, dict):
        return ["?"]
    out = []
    rs = readings(value, location) if location != "body" else [value]
    if location == "path" and isinstance(value, str):
        rs = rs + [unquote_plus(value)]
    for key, val in s.items():
        sub = {key: val}
        if key in ("exclusiveMinimum", "exclusiveMaximum") and isinstance(val, bool):
            continue
        if key == "minimum" and "exclusiveMinimum" in s and isinstance(s["exclusiveMinimum"], bool):
            sub["exclusiveMinimum"] = s["exclusiveMinimum"]
        if key == "maximum" and "exclusiveMaximum" in s and isinstance(s["exclusiveMaximum"], bool):
            sub["exclusiveMaximum"] = s["exclusiveMaximum"]
        if key in ("nullable", "x-nullable", "readOnly", "writeOnly"):
            continue
        if key == "type" and (s.get("nullable") or s.get("x-nullable")):
            sub["nullable"] = True
        vs = [verdict(root, sub, r, spec=spec) for r in rs]
        if vs and all(v is False for v in vs):
            out.append(key)
    return sorted(out)


def pattern_facts(schema: Any) -> dict:
    if not isinstance(schema, dict) or "pattern" not in schema:
        return {}
    p = schema["pattern"]
    return {"pattern_anchored_start": p.startswith("^"), "pattern_anchored_end": p.endswith("$")}


def param_verdict(root: dict, schema: Any, value: Any, location: str, spec: str, *, decode_path: bool = True) -> bool | None:
    """``decode_path=False``: ``value`` is already the decoded text of a path segment (no second percent-decoding)."""
    if location == "body":
        return verdict(root, schema, value, spec=spec)
    v = coerced_verdict(root, schema, value, location, spec=spec)
    if v is False and isinstance(value, str) and _allows_array(root, schema, spec):
        # default (simple / csv) serialisation of an array into one string
        # "" is both the empty array and the array holding one empty string (inherent ambiguity of the style)
        raw = unquote_plus(value) if location == "path" and decode_path else value
        for decoded in ([raw.split(",")] if raw else [[], [""]]):
            v2 = coerced_verdict(root, schema, decoded, location, spec=spec)
            if v2 is not False:
                return v2
    if v is False and location == "path" and isinstance(value, str) and decode_path:
        # quote_plus is how path values are escaped before they enter the template
        v2 = coerced_verdict(root, schema, unquote_plus(value), location, spec=spec)
        if v2 is not False:
            return v2
    return v


def _allows_array(root: dict, schema: Any, spec: str) -> bool:
    try:
        s = Evaluator(root, spec=spec).resolve(schema)
    except Unknown:
        return False
    if not isinstance(s, dict):
        return False
    t = s.get("type")
    return t == "array" or (isinstance(t, list) and "array" in t)


def all_strings(value: Any) -> list[str]:
    out = []
    stack = [value]
    while stack:
        x = stack.pop()
        if isinstance(x, str):
            out.append(x)
        elif isinstance(x, dict):
            stack.extend(x.keys())
            stack.extend(x.values())
        elif isinstance(x, (list, tuple)):
            stack.extend(x)
    return out


def summarize_case(case: Any) -> dict:
    from schemathesis.core import NOT_SET

    return {
        "path_parameters": case.path_parameters,
        "query": case.query,
        "headers": dict(case.headers) if case.headers is not None else None,
        "cookies": case.cookies,
        "body": None if case.body is NOT_SET else case.body,
        "body_set": case.body is not NOT_SET,
        "media_type": case.media_type,
    }
