"""C07 - exactly the selected API operations are tested, in every phase.

E5: breadth-first search over histories of `schema.include(...)` / `schema.exclude(...)` calls (each call returns a clone)
on ONE small OpenAPI document; a state is the set of filter atoms applied so far.  In every state the real selection
machinery (get_all_operations, statistic, lookups, state machine, CLI FilterArguments.into, LazySchema / parametrize
clones) is compared with an independent predicate over the raw document (oracles/selection.py).
E2: the atom alphabet and the document are fixed small grammars.  Traffic items run the real engine in-process for
small filter sets and map every logged request back to its path template.

Review round 2 (enumerators and the extended reference live in mc/c07_extra.py): one include()/exclude() call carrying
several conditions (documented as AND), regular-expression shapes and pre-compiled patterns, second values of a slot,
`exclude(deprecated=True|False, <other conditions>)` in one call, document shapes (`deprecated: false`, `tags: []`, a
response and a link behind `$ref`), parent/child schemas used in both directions and iterated in lock-step, filters split
between a pytest fixture's schema and the lazy handle, and GraphQL schemas (filtering by name: states and engine traffic).
"""

from __future__ import annotations

import copy
import itertools
from typing import Any

from mc import c07_extra as extra
from mc import c07_extra as ref  # oracles/selection.py re-exported unchanged + the review-round-2 atom shapes (see its docstring)
from mc.runner import Result
from props import common

ID = "C07"
LEVEL = "model_checking"
ENGINES = ["E5", "E2"]
RULE = (
    "state = set of filter atoms (from a 35-atom alphabet: {path,method,name,tag,operation_id} x {value,list,regex} x "
    "{include,exclude}, 2 matcher functions, deprecated, 2 --include-by/--exclude-by expressions) reached by a history of "
    "schema.include()/exclude() clone calls on one 4-path-item / 8-operation / 6-link document; every state up to the "
    "depth bound and every ordering (history) of its atoms is built on a fresh schema; a state is non-trivial when it "
    "excludes at least one operation; traffic item = one real engine run (examples+coverage+fuzzing+stateful) for a filter "
    "set, every logged request is routed back to its path template; "
    "review round 2: +19 atoms outside the lattice (10 calls with 2-3 conditions incl. matcher/expression functions next to "
    "keywords, 5 regex shapes of which 2 pre-compiled with own flags, 4 second values) explored alone, with 11 context atoms "
    "of every kind and with each other; 27 exclude(deprecated=True|False, ...) calls x eager/lazy; every state also checks "
    "child-after-ancestor, lock-step iteration of the clone chain and every split of the history between a filtered fixture "
    "value and the lazy handle; GraphQL: 2 schemas (Query+Mutation, Query only), 9 name atoms, every set of <=2 atoms in "
    "every order through get_all_operations / statistic / len / CLI flags / LazySchema / parametrize, engine runs with every "
    "request attributed to its root field by graphql-core's parser"
)
BOUNDS = {
    "quick": {"atoms": 35, "state_depth": 2, "traffic_depth": 1, "traffic_extra_pairs": 40, "max_examples": 2, "stateful_steps": 4,
              "extra_atoms": 19, "extra_context_atoms": 11, "extra_traffic_sets": 12, "deprecated_calls": 27,
              "graphql_atoms": 9, "graphql_state_depth": 2, "graphql_traffic_sets": 7},
    "thorough": {"atoms": 35, "state_depth": 3, "traffic_depth": 2, "traffic_extra_pairs": 0, "max_examples": 3, "stateful_steps": 5,
                 "extra_atoms": 19, "extra_context_atoms": 35, "extra_traffic_sets": 129, "deprecated_calls": 27,
                 "graphql_atoms": 9, "graphql_state_depth": 3, "graphql_traffic_sets": 48},
}
BUDGET_S = {"quick": 140, "thorough": 3000}
CHUNK = 1
ASSUMPTIONS = [
    "one OpenAPI document (3.0.2, local references only) and two GraphQL schemas; other documents and Swagger 2.0 are not enumerated",
    "filter sets larger than the depth bound are not explored; atoms outside the 35-atom alphabet only as listed under review round 2",
    "GraphQL schemas are filtered by name only (the documentation: 'only supports filtration by the name property'); the order "
    "in which GraphQL operations are offered is not judged",
    "exclude(deprecated=True, <conditions>) in one call: 'deprecated AND conditions' and 'deprecated as a filter of its own' are "
    "both accepted (the text does not choose); deprecated=False must be neutral",
    "a filtered schema returned by a fixture plus a lazy handle with filters: judged only when all include filters are on one "
    "side and no filter is both included and excluded (the union then has one reading)",
    "the operation behind an upper-case method key is only checked for agreement between counting and iterating code, never demanded",
    "a `!=` expression is read as true for an operation that does not have the pointed-to member",
    "pytest itself is not run: LazySchema is driven through schemathesis.pytest.lazy.get_schema/get_all_tests with a stub "
    "fixture request, schema.parametrize() through the SchemaHandleMark it sets (what the plugin's collector reads)",
    "engine runs are single deterministic executions (derandomize, 1 worker); requests are judged, generated data is not",
]
TECHNIQUE = (
    "explicit-state breadth-first search over include/exclude call histories on the real schema objects (every ordering of "
    "every atom set up to the depth bound), invariants evaluated in every state against an independent selection predicate "
    "over the raw document; plus exhaustive engine runs over all small filter sets with request-to-template routing"
)
LEVEL_TEXT = (
    "Every set of at most d filter atoms from the stated alphabet is reached through every order of include()/exclude() "
    "calls on the real schema classes, and in each state all selection-dependent observables are compared with a reference "
    "predicate written from the property text; for every set of at most t atoms the real engine is run and every request it "
    "sends is attributed to an operation. Within these bounds the agreement is decided, not sampled."
)
LEVEL_NOTE = (
    "Trusted: oracles/selection.py and its extension mc/c07_extra.py (own code, no schemathesis import), graphql-core's query "
    "parser (request attribution) and the in-process HTTP adapter. Not covered: documents other than the stated universes, "
    "filter sets above the depth bound, multi-worker engine runs, a real pytest session."
)

# --------------------------------------------------------------------------------------------------------------------
# universe (E2: one document)

_INT_ID = {"type": "integer", "minimum": 1, "maximum": 9999}


def _response(description: str = "OK", links: dict | None = None) -> dict:
    out: dict[str, Any] = {"description": description, "content": {"application/json": {"schema": {"type": "object"}}}}
    if links:
        out["links"] = links
    return out


def _json_body(schema: dict, example: Any = None) -> dict:
    media: dict[str, Any] = {"schema": schema}
    if example is not None:
        media["example"] = example
    return {"required": True, "content": {"application/json": media}}


DOCUMENT: dict = {
    "openapi": "3.0.2",
    "info": {"title": "C07 universe", "version": "1"},
    "paths": {
        # path item shared by two methods
        "/users": {
            # `deprecated` written out with its neutral value
            "get": {"operationId": "listUsers", "tags": ["a"], "x-tier": 1, "deprecated": False, "responses": {"200": _response()}},
            "post": {
                "operationId": "createUser", "tags": ["a", "b"], "x-tier": 2,
                "requestBody": _json_body({"type": "object", "properties": {"name": {"type": "string", "maxLength": 5}},
                                           "required": ["name"], "additionalProperties": False}, example={"name": "ex"}),
                # the response (and with it both links) behind a reference
                "responses": {"201": {"$ref": "#/components/responses/UserCreated"}},
            },
        },
        # path-level parameters; one deprecated operation; one upper-case method key
        "/users/{id}": {
            "parameters": [{"name": "id", "in": "path", "required": True, "schema": _INT_ID}],
            "get": {"operationId": "getUser", "x-tier": 1, "responses": {"200": _response(links={
                "UserItems": {"operationId": "listItems"},
            })}},
            "delete": {"deprecated": True, "tags": ["a"], "x-tier": 2, "responses": {"204": {"description": "gone"}}},
            "PUT": {"operationId": "replaceUser", "tags": ["a"], "responses": {"200": _response()}},
        },
        # path item behind a (local) reference
        "/items": {"$ref": "#/x-path-items/Items"},
        # operation-level parameters behind a reference
        "/items/{item_id}": {
            # an empty list of tags
            "get": {"operationId": "getItem", "tags": [], "parameters": [{"$ref": "#/components/parameters/ItemId"}],
                    "responses": {"200": _response(links={
                        "Owner": {"operationRef": "#/paths/~1users~1{id}/get", "parameters": {"id": "$response.body#/owner"}},
                    })}},
            "put": {"tags": ["a"], "x-tier": 1, "parameters": [{"$ref": "#/components/parameters/ItemId"}],
                    "requestBody": _json_body({"type": "object", "maxProperties": 1}), "responses": {"200": _response()}},
        },
    },
    "x-path-items": {
        "Items": {
            "get": {"operationId": "listItems", "tags": ["a"], "x-tier": 2, "responses": {"200": _response()}},
            "post": {"tags": ["a", "b"], "x-tier": 1, "requestBody": _json_body({"type": "object", "maxProperties": 1}),
                     "responses": {"201": _response("Created", links={
                         "GetItem": {"$ref": "#/components/links/GetItem"},  # one link behind a reference
                         "UpdateItem": {"operationRef": "#/paths/~1items~1{item_id}/put", "parameters": {"item_id": "$response.body#/id"}},
                     })}},
        }
    },
    "components": {
        "parameters": {"ItemId": {"name": "item_id", "in": "path", "required": True, "schema": _INT_ID}},
        "responses": {"UserCreated": _response("Created", links={
            "GetUser": {"operationId": "getUser", "parameters": {"id": "$response.body#/id"}},
            "DeleteUser": {"operationRef": "#/paths/~1users~1{id}/delete", "parameters": {"id": "$response.body#/id"}},
        })},
        "links": {"GetItem": {"operationId": "getItem", "parameters": {"item_id": "$response.body#/id"}}},
    },
}
UPPER_LABEL = "PUT /users/{id}"
USER_ID, ITEM_ID = 4242, 4343

# --------------------------------------------------------------------------------------------------------------------
# atoms (E2: the alphabet)


def _a(pol: str, attr: str, kind: str, value: Any) -> dict:
    return {"pol": pol, "attr": attr, "kind": kind, "value": value}


ATOMS: list[dict] = [
    _a("include", "path", "value", "/users"),
    _a("include", "path", "list", ["/users/{id}", "/items"]),
    _a("include", "path", "regex", "^/items"),
    _a("exclude", "path", "value", "/items/{item_id}"),
    _a("exclude", "path", "list", ["/users", "/items"]),
    _a("exclude", "path", "regex", "^/items"),  # same filter as the include above: the pair must be refused
    # method filters are case-insensitive (the repository's own test_method_filter uses lower case): mixed spellings on purpose
    _a("include", "method", "value", "get"),
    _a("include", "method", "list", ["post", "Put"]),
    _a("include", "method", "regex", "^(DELETE|PUT)$"),
    _a("exclude", "method", "value", "DELETE"),
    _a("exclude", "method", "list", ["post", "Put"]),  # same as the include list
    _a("exclude", "method", "regex", "^P"),
    _a("include", "name", "value", "GET /users/{id}"),
    _a("include", "name", "list", ["POST /users", "POST /items"]),
    _a("include", "name", "regex", "^GET /items"),
    _a("exclude", "name", "value", "PUT /items/{item_id}"),
    _a("exclude", "name", "list", ["GET /users", "DELETE /users/{id}"]),
    _a("exclude", "name", "regex", "/users$"),
    _a("include", "tag", "value", "a"),
    _a("include", "tag", "list", ["b", "zzz"]),
    _a("include", "tag", "regex", "^b$"),
    _a("exclude", "tag", "value", "a"),  # same as the include value
    _a("exclude", "tag", "list", ["b", "c"]),
    _a("exclude", "tag", "regex", "^[bc]$"),
    _a("include", "operation_id", "value", "getUser"),
    _a("include", "operation_id", "list", ["createUser", "listItems"]),
    _a("include", "operation_id", "regex", "Item"),
    _a("exclude", "operation_id", "value", "listUsers"),
    _a("exclude", "operation_id", "list", ["getItem", "getUser"]),
    _a("exclude", "operation_id", "regex", "^(get|list)User"),
    {"pol": "include", "kind": "func", "value": "get_with_path_parameter"},
    {"pol": "exclude", "kind": "func", "value": "without_operation_id"},
    {"pol": "exclude", "kind": "deprecated"},
    {"pol": "include", "kind": "expr", "pointer": "/x-tier", "op": "!=", "value": 2},
    {"pol": "exclude", "kind": "expr", "pointer": "/parameters/0/in", "op": "==", "value": "path"},
]
ATOM_IDS = [ref.atom_id(a) for a in ATOMS]
assert len(set(ATOM_IDS)) == len(ATOMS)
# review round 2: atoms outside the lattice alphabet (one call with several conditions, regex shapes, pre-compiled patterns,
# second values of a slot); work items index into ALL_ATOMS
ALL_ATOMS: list[dict] = ATOMS + extra.EXTRA_ATOMS
assert len({ref.atom_id(a) for a in ALL_ATOMS}) == len(ALL_ATOMS)


# real matcher functions handed to schemathesis (the reference has its own predicates of the same names)
def get_with_path_parameter(ctx: Any) -> bool:
    return ctx.operation.method.upper() == "GET" and "{" in ctx.operation.path


def without_operation_id(ctx: Any) -> bool:
    return "operationId" not in ctx.operation.definition.raw


MATCHERS = {"get_with_path_parameter": get_with_path_parameter, "without_operation_id": without_operation_id}
_EXPR_FUNCS: dict[str, Any] = {}


def _expression(atom: dict) -> str:
    import json

    return f"{atom['pointer']} {atom['op']} {json.dumps(atom['value'])}"


def _same_filter(a: dict, b: dict) -> bool:
    """Two atoms that denote the very same filter with opposite polarity (documented as refused: 'Filter already exists')."""
    strip = lambda x: {k: v for k, v in x.items() if k != "pol"}  # noqa: E731
    return a["pol"] != b["pol"] and strip(a) == strip(b)


def call_kwargs(atom: dict) -> tuple[tuple, dict]:
    """Positional/keyword arguments of the include()/exclude() call an atom stands for."""
    from schemathesis.filters import expression_to_filter_function

    kind = atom["kind"]
    if kind == "all":  # one call carrying all the conditions
        args: tuple = ()
        kwargs: dict[str, Any] = {}
        for part in atom["parts"]:
            part_args, part_kwargs = call_kwargs({**part, "pol": atom["pol"]})
            assert not set(part_kwargs) & set(kwargs)
            args += part_args
            kwargs.update(part_kwargs)
        assert len(args) <= 1
        return args, kwargs
    if kind == "value" or kind == "list":
        return (), {atom["attr"]: copy.deepcopy(atom["value"])}
    if kind == "regex":
        if atom.get("flags") == "i":  # a pre-compiled pattern with the caller's own flags
            import re

            return (), {atom["attr"] + "_regex": re.compile(atom["value"], re.IGNORECASE)}
        return (), {atom["attr"] + "_regex": atom["value"]}
    if kind == "func":
        return (MATCHERS[atom["value"]],), {}
    if kind == "deprecated":
        return (), {"deprecated": True}
    expr = _expression(atom)
    if expr not in _EXPR_FUNCS:  # one function object per expression per process, like one CLI flag
        _EXPR_FUNCS[expr] = expression_to_filter_function(expr)
    return (_EXPR_FUNCS[expr],), {}


def apply(target: Any, atom: dict) -> Any:
    args, kwargs = call_kwargs(atom)
    return getattr(target, atom["pol"])(*args, **kwargs)


# --------------------------------------------------------------------------------------------------------------------
# work items


def _sets(depth: int) -> list[list[int]]:
    out: list[list[int]] = []
    for k in range(depth + 1):
        out.extend([list(c) for c in itertools.combinations(range(len(ATOMS)), k)])
    return out


def _extra_traffic_pairs(n: int) -> list[list[int]]:
    """Every 7th include x exclude pair of the alphabet (deterministic, spread over all attributes and kinds)."""
    inc = [i for i, a in enumerate(ATOMS) if a["pol"] == "include"]
    exc = [i for i, a in enumerate(ATOMS) if a["pol"] == "exclude"]
    pairs = [sorted([i, e]) for i in inc for e in exc if not _same_filter(ATOMS[i], ATOMS[e])]
    return pairs[3::7][:n]


def items(tier: str, seed: int) -> list:
    b = BOUNDS[tier]
    out: list[dict] = []
    traffic = _sets(b["traffic_depth"])
    for pair in _extra_traffic_pairs(b["traffic_extra_pairs"]):
        if pair not in traffic:
            traffic.append(pair)
    traffic += extra.extra_traffic_sets(len(ATOMS), ATOM_IDS, tier)
    # engine runs are the slow items: hand them out first so that the pool stays busy
    for s in traffic:
        out.append({"kind": "traffic", "atoms": s})
    for universe, s in extra.gql_traffic_sets(tier):
        out.append({"kind": "graphql_traffic", "universe": universe, "atoms": s})
    out.append({"kind": "deprecated_calls"})
    states = _sets(b["state_depth"]) + extra.extra_sets(len(ATOMS), ATOM_IDS, tier)
    group = 12 if tier == "quick" else 48
    for i in range(0, len(states), group):
        out.append({"kind": "states", "sets": states[i:i + group]})
    gql = [[u, s] for u, s in extra.gql_sets(tier)]
    for i in range(0, len(gql), group):
        out.append({"kind": "graphql_states", "sets": gql[i:i + group]})
    return out


# --------------------------------------------------------------------------------------------------------------------
# observation of the real code


def load() -> Any:
    from mc import httpseam

    return common.load(DOCUMENT).configure(base_url=httpseam.BASE_URL)


class Refused(Exception):
    def __init__(self, step: int, message: str) -> None:
        super().__init__(message)
        self.step = step
        self.message = message


def build(history: list[dict], root: Any = None, before: list | None = None) -> list[Any]:
    """Fresh schema, one include()/exclude() per atom; returns the whole chain of clones (root first).

    `before`, when given, receives what each schema of the chain offered at the moment just before its child was made.
    """
    from schemathesis.core.errors import IncorrectUsage

    chain = [load() if root is None else root]
    for step, atom in enumerate(history):
        if before is not None:
            before.append(labels_of(chain[-1].get_all_operations()))
        try:
            chain.append(apply(chain[-1], atom))
        except IncorrectUsage as exc:
            raise Refused(step, str(exc)) from None
    return chain


def labels_of(results: Any) -> list[str]:
    from schemathesis.core.result import Ok

    out = []
    for r in results:
        out.append(r.ok().label if isinstance(r, Ok) else f"ERROR {type(r.err()).__name__}: {str(r.err())[:80]}")
    return out


def observe(schema: Any) -> dict:
    labels = labels_of(schema.get_all_operations())
    st = schema.statistic
    return {"labels": labels, "ops": [st.operations.selected, st.operations.total], "links": [st.links.selected, st.links.total]}


def _shape(atoms: list[dict]) -> dict:
    """Coarse facts about a filter set, used in signatures."""
    out: dict[str, Any] = {
        "depth": len(atoms),
        "polarities": "".join(sorted(a["pol"][0].upper() for a in atoms)),
    }
    if any(a["kind"] == "all" for a in atoms):
        out["several_conditions_in_one_call"] = True
    if any("flags" in a for a in atoms):
        out["compiled_pattern"] = True
    return out


def _direction(observed: set, expected: set) -> str:
    extra, missing = observed - expected, expected - observed
    return "extra+missing" if extra and missing else "extra" if extra else "missing" if missing else "equal"


# --------------------------------------------------------------------------------------------------------------------
# state items


def check_item(item: dict, tier: str) -> Result:
    res = Result()
    if item["kind"] == "traffic":
        common.reset_schemathesis_caches()
        check_traffic(res, [ALL_ATOMS[i] for i in item["atoms"]], tier)
        return res
    if item["kind"] == "graphql_traffic":
        common.reset_schemathesis_caches()
        check_graphql_traffic(res, item["universe"], [extra.GQL_ATOMS[i] for i in item["atoms"]], tier)
        return res
    if item["kind"] == "deprecated_calls":
        common.reset_schemathesis_caches()
        check_deprecated_calls(res)
        return res
    if item["kind"] == "graphql_states":
        for universe, indices in item["sets"]:
            common.reset_schemathesis_caches()
            check_graphql_state(res, universe, [extra.GQL_ATOMS[i] for i in indices])
        return res
    for indices in item["sets"]:
        common.reset_schemathesis_caches()
        check_state(res, [ALL_ATOMS[i] for i in indices])
    return res


def check_state(res: Result, atoms: list[dict]) -> None:
    shape = _shape(atoms)
    detail_base = {"atoms": [ref.atom_id(a) for a in atoms]}
    conflict = any(_same_filter(a, b) for a in atoms for b in atoms)
    res.states += 1
    res.transitions += len(atoms)  # incoming lattice edges; each is executed as the last call of some history below

    expected = ref.reference(DOCUMENT, atoms)
    expected_set = set(expected.selected)
    if len(expected.selected) < expected.total:
        res.count("states_excluding_something")
    if not expected.selected:
        res.count("states_selecting_nothing")
    for a in atoms:
        res.count("atom_kind_" + a["kind"])
        if "flags" in a:
            res.count("atom_compiled_pattern")

    # ---- every history (ordering) of this set; canon(state) = the set: all orders must be observably equal
    observations: list[tuple[list[int], dict]] = []
    canonical_chain = None
    canonical_before: list = []
    for order in itertools.permutations(range(len(atoms))):
        history = [atoms[i] for i in order]
        res.evaluations += 1
        before: list = []
        try:
            chain = build(history, before=before)
        except Refused as exc:
            if conflict and exc.message == "Filter already exists":
                res.count("histories_refused_as_documented")
                res.outcomes.add("refused_duplicate")
                continue
            res.violation({"kind": "filter_refused", **shape, "message": exc.message},
                          {**detail_base, "order": list(order), "step": exc.step})
            continue
        if conflict:
            # the same filter on both sides was accepted: the text does not say it must be refused; judged like any state
            res.count("conflicting_histories_accepted")
        if canonical_chain is None:
            canonical_chain = (list(order), chain)
            canonical_before = before
        observations.append((list(order), observe(chain[-1])))
    if not observations:
        res.traces += 1
        return
    first_order, first = observations[0]
    for order, obs in observations[1:]:
        if obs != first:
            res.violation({"kind": "order_dependent_selection", **shape},
                          {**detail_base, "order_a": first_order, "observed_a": first, "order_b": order, "observed_b": obs})
    res.traces += len(observations)

    # ---- the invariant, on the first history
    order, chain = canonical_chain  # type: ignore[misc]
    schema = chain[-1]
    obs = first
    through_ref = ref.pointer_goes_through_reference(DOCUMENT, atoms)
    raw_reading = ref.reference(DOCUMENT, atoms, raw_pointer=True) if through_ref else None

    def explain(labels: list[str] | None, count: int | None, links: int | None = None) -> dict:
        """Facts that name a *known alternative reading* reproducing the observation exactly (label, never an excuse)."""
        facts: dict[str, Any] = {}
        if raw_reading is not None:
            same = True
            if labels is not None:
                same = same and [x for x in labels if x != UPPER_LABEL] == raw_reading.selected
            if count is not None:
                same = same and count == len(raw_reading.selected)
            if links is not None:
                same = same and links == len(raw_reading.transitions)
            facts["expression_pointer_through_reference"] = True
            facts["equals_unresolved_pointer_reading"] = same
        return facts

    # 1. iteration
    observed_strict = [x for x in obs["labels"] if x != UPPER_LABEL]
    upper_iterated = UPPER_LABEL in obs["labels"]
    if observed_strict != expected.selected:
        res.violation({"kind": "selection_mismatch", "component": "get_all_operations",
                       "direction": _direction(set(observed_strict), expected_set), **shape, **explain(obs["labels"], None)},
                      {**detail_base, "observed": obs["labels"], "expected": expected.selected})
    # 2. statistic (and the open upper-case operation: counting and iterating code must agree about it)
    sel, total = obs["ops"]
    if total not in (expected.total, expected.total + len(expected.open_labels)):
        res.violation({"kind": "statistic_mismatch", "field": "operations.total", **shape},
                      {**detail_base, "observed": total, "expected": expected.total})
    if sel - int(upper_iterated) != len(observed_strict):
        # the user-visible number differs from what get_all_operations() offers
        res.violation({"kind": "statistic_mismatch", "field": "operations.selected", "against": "get_all_operations",
                       "direction": "over" if sel - int(upper_iterated) > len(observed_strict) else "under", **shape,
                       **explain(None, sel - int(upper_iterated))},
                      {**detail_base, "statistic_selected": sel, "offered": obs["labels"], "expected": expected.selected})
    elif sel - int(upper_iterated) != len(expected.selected):
        res.violation({"kind": "statistic_mismatch", "field": "operations.selected", "against": "reference",
                       "direction": "over" if sel - int(upper_iterated) > len(expected.selected) else "under", **shape,
                       **explain(None, sel - int(upper_iterated))},
                      {**detail_base, "statistic_selected": sel, "expected": expected.selected})
    if not atoms and (total - expected.total) != int(upper_iterated):
        res.violation({"kind": "upper_case_method_counted_but_not_iterated" if total > expected.total else "upper_case_method_iterated_but_not_counted"},
                      {**detail_base, "total": total, "labels": obs["labels"]})
    lsel, ltotal = obs["links"]
    if ltotal != expected.links_total:
        res.violation({"kind": "statistic_mismatch", "field": "links.total", **shape},
                      {**detail_base, "observed": ltotal, "expected": expected.links_total})
    # 3. state machine: the rules are what the stateful phase can execute; the transition table (collect_transitions) is
    #    the bookkeeping behind them (bundles, TransitionController)
    machine_transitions = None
    try:
        machine = schema.as_state_machine()
        machine_transitions = sorted(
            (link.source.label, str(link.status_code), link.name, link.target.label)
            for entry in machine._transitions.operations.values() for link in entry.outgoing
        )
        rule_names = sorted(n for n, v in vars(machine).items() if hasattr(v, "hypothesis_stateful_rule"))
    except Exception as exc:  # noqa: BLE001
        res.violation({"kind": "state_machine_construction_failed", "error": type(exc).__name__, **shape},
                      {**detail_base, "error": repr(exc)[:400]})
    if machine_transitions is not None:
        res.count("state_machines_built")
        if expected.transitions:
            res.count("states_with_link_transitions")
        # 3a. rules: exactly one link rule per link between two selected operations, entry rules only for selected ones
        all_links = ref.reference(DOCUMENT, []).transitions  # every link of the document
        name_of = {_rule_name(f"{s} -> {c} -> {n} -> {t}"): (s, c, n, t) for s, c, n, t in all_links}
        random_of = {_rule_name(f"RANDOM -> {op.label}"): op.label for op in ref.operations(DOCUMENT)}
        link_rules = sorted(name_of[n] for n in rule_names if n in name_of)
        entry_rules = sorted(random_of[n] for n in rule_names if n in random_of and n not in name_of)
        unknown_rules = [n for n in rule_names if n not in name_of and n not in random_of]
        rules_ok = True
        if unknown_rules:
            rules_ok = False
            res.violation({"kind": "state_machine_rule_not_attributable", **shape}, {**detail_base, "rules": unknown_rules})
        if link_rules != [tuple(t) for t in expected.transitions]:
            rules_ok = False
            got, want = set(link_rules), set(expected.transitions)
            res.violation({"kind": "state_machine_link_rules_mismatch", "direction": _direction(got, want),
                           "targets_unselected_operation": any(t[3] not in expected_set for t in got),
                           "starts_at_unselected_operation": any(t[0] not in expected_set for t in got), **shape,
                           **explain(None, None, len(link_rules))},
                          {**detail_base, "observed": link_rules, "expected": expected.transitions})
        bad_entries = [label for label in entry_rules if label not in expected_set and label not in expected.open_labels]
        if bad_entries:
            rules_ok = False
            res.violation({"kind": "state_machine_entry_rule_for_unselected_operation", **shape,
                           **explain(obs["labels"], None)},
                          {**detail_base, "entry_rules": entry_rules, "selected": expected.selected})
        # 3b. the transition table
        if machine_transitions != [tuple(t) for t in expected.transitions]:
            got, want = set(machine_transitions), set(expected.transitions)
            res.violation({"kind": "state_machine_transition_table_mismatch", "direction": _direction(got, want),
                           "targets_unselected_operation": any(t[3] not in expected_set for t in got),
                           "starts_at_unselected_operation": any(t[0] not in expected_set for t in got),
                           "rules_affected": not rules_ok, **shape, **explain(None, None, len(machine_transitions))},
                          {**detail_base, "observed": machine_transitions, "expected": expected.transitions})
        # 3c. the reported link count equals the link rules offered
        if lsel != len(link_rules):
            res.violation({"kind": "statistic_mismatch", "field": "links.selected", "against": "state_machine_rules",
                           "direction": "over" if lsel > len(link_rules) else "under", **shape,
                           **explain(None, None, lsel)},
                          {**detail_base, "statistic_links_selected": lsel, "link_rules_offered": link_rules})
        elif lsel != len(expected.transitions):
            res.violation({"kind": "statistic_mismatch", "field": "links.selected", "against": "reference",
                           "direction": "over" if lsel > len(expected.transitions) else "under", **shape,
                           **explain(None, None, lsel)},
                          {**detail_base, "statistic_links_selected": lsel, "expected": expected.transitions})
    # 4. private iterator `_operation_iter` (an anchor of the property, but nothing in src/ calls it): it cannot change
    #    what is exercised or reported, so a disagreement is recorded as a counter, never as a violation
    try:
        n_iter = sum(1 for _ in schema._operation_iter())
        res.count("operation_iter_agrees" if n_iter == len(obs["labels"]) else "operation_iter_disagrees_informational")
    except AttributeError:
        res.count("operation_iter_absent")
    # 5. lookups are not a selection mechanism: every operation stays addressable (links resolve their targets this way)
    check_lookups(res, chain, atoms, shape, detail_base)
    # 6. the chain of clones: making (and using) a child never changes what its ancestors offer
    for depth, ancestor in enumerate(chain[:-1]):
        after = labels_of(ancestor.get_all_operations())
        res.evaluations += 1
        if after != canonical_before[depth]:
            res.violation({"kind": "ancestor_changed_by_child", "ancestor_depth": depth, **shape},
                          {**detail_base, "order": order, "before": canonical_before[depth], "after": after})
        want = ref.reference(DOCUMENT, [atoms[i] for i in order[:depth]]).selected
        if [x for x in after if x != UPPER_LABEL] != want:
            res.count("ancestor_selection_wrong")  # the same deviation is reported in the ancestor's own state
    # 6b. the other direction: the ancestors (and everything above) were used after the child - the child still offers the same
    again = labels_of(schema.get_all_operations())
    res.evaluations += 1
    if again != obs["labels"]:
        res.violation({"kind": "child_changed_by_use_of_ancestor", **shape},
                      {**detail_base, "order": order, "before": obs["labels"], "after": again})
    # 6c. parent and children iterated in lock-step (one operation from each in turn): each offers what it offers alone
    if len(chain) > 1:
        generators = [c.get_all_operations() for c in chain]
        interleaved: list[list] = [[] for _ in chain]
        live = list(range(len(chain)))
        while live:
            for k in list(live):
                try:
                    interleaved[k].append(next(generators[k]))
                except StopIteration:
                    live.remove(k)
        res.evaluations += 1
        res.count("lock_step_iterations")
        alone = [*canonical_before, obs["labels"]]
        for k in range(len(chain)):
            if labels_of(interleaved[k]) != alone[k]:
                res.violation({"kind": "selection_differs_when_iterated_in_lock_step", "chain_position": k, **shape},
                              {**detail_base, "order": order, "alone": alone[k], "in_lock_step": labels_of(interleaved[k])})
    # 7. CLI flags with the same meaning
    check_cli(res, atoms, expected, shape, detail_base)
    # 8. pytest entry points without pytest
    check_pytest_paths(res, atoms, order, expected, shape, detail_base, through_ref)

    res.outcomes.add("all_selected" if len(expected.selected) == expected.total else "none_selected" if not expected.selected else "some_selected")
    if len(expected.selected) < expected.total:
        res.nontriv(detail_base["atoms"])
    if len(res.samples) < 2 and 0 < len(expected.selected) < expected.total:
        res.samples.append({**detail_base, "selected": expected.selected, "statistic": obs["ops"], "links": obs["links"],
                            "transitions": expected.transitions})


def _rule_name(text: str) -> str:
    """How a transition id becomes a Python identifier (own transcription; used only to pair rules with transitions)."""
    import re

    return re.sub(r"\W|^(?=\d)", "_", text).replace("__", "_")


def check_lookups(res: Result, chain: list, atoms: list[dict], shape: dict, detail_base: dict) -> None:
    ops = [op for op in ref.operations(DOCUMENT) if op.strict]
    # the filtered schema after its caches were used by iteration, and a pristine clone of the same history
    pristine = build(atoms)[-1] if atoms else load()
    for which, schema in (("after_iteration", chain[-1]), ("fresh", pristine)):
        for op in ops:
            probes = [("getitem", lambda s=schema, o=op: s[o.path][o.method])]
            if op.operation_id is not None:
                probes.append(("by_id", lambda s=schema, o=op: s.get_operation_by_id(o.operation_id)))
            if not op.behind_ref:
                pointer = "#/paths/" + op.path.replace("~", "~0").replace("/", "~1") + "/" + op.key
                probes.append(("by_reference", lambda s=schema, p=pointer: s.get_operation_by_reference(p)))
            for name, probe in probes:
                res.evaluations += 1
                try:
                    found = probe()
                except Exception as exc:  # noqa: BLE001
                    res.violation({"kind": "lookup_failed", "lookup": name, "caches": which, "error": type(exc).__name__,
                                   "filtered": bool(atoms)},
                                  {**detail_base, "operation": op.label, "error": repr(exc)[:300]})
                    continue
                if found.label != op.label or found.path != op.path or found.method.upper() != op.method:
                    res.violation({"kind": "lookup_returned_other_operation", "lookup": name, "caches": which, "filtered": bool(atoms)},
                                  {**detail_base, "operation": op.label, "found": found.label})
    res.count("lookups_checked_states")


def cli_arguments(atoms: list[dict]) -> dict | None:
    """Keyword arguments of FilterArguments for the same filter set; None when the CLI cannot express it."""
    kw: dict[str, Any] = {}
    for pol in ("include", "exclude"):
        for attr in ("path", "method", "name", "tag", "operation_id"):
            kw[f"{pol}_{attr}"] = []
            kw[f"{pol}_{attr}_regex"] = None
        kw[f"{pol}_by"] = None
    kw["exclude_deprecated"] = False
    for a in atoms:
        pol, kind = a["pol"], a["kind"]
        if "flags" in a:
            return None  # a pre-compiled pattern cannot be written as a flag
        if kind in ("value", "list") and set([a["value"]] if kind == "value" else a["value"]) & set(kw[f"{pol}_{a['attr']}"]):
            return None  # one value twice under one repeated flag: the flag list cannot say what the two calls say
        if kind == "value":
            kw[f"{pol}_{a['attr']}"].append(a["value"])
        elif kind == "list":
            kw[f"{pol}_{a['attr']}"].extend(a["value"])  # repeated flag: one filter per value, any of them
        elif kind == "regex":
            if kw[f"{pol}_{a['attr']}_regex"] is not None:
                return None
            kw[f"{pol}_{a['attr']}_regex"] = a["value"]
        elif kind == "deprecated":
            kw["exclude_deprecated"] = True
        elif kind == "expr":
            if kw[f"{pol}_by"] is not None:
                return None
            kw[f"{pol}_by"] = _expression(a)
        else:
            return None  # matcher functions have no flag
    return kw


def check_cli(res: Result, atoms: list[dict], expected: ref.Reference, shape: dict, detail_base: dict) -> None:
    import click

    from schemathesis.cli.commands.run.filters import FilterArguments

    kw = cli_arguments(atoms)
    if kw is None:
        res.count("cli_not_expressible")
        return
    # a repeated flag is one filter per value, so a value listed on both sides is "the same filter included and excluded"
    conflict = any(_same_filter(a, b) for a in atoms for b in atoms) or any(
        set(kw[f"include_{attr}"]) & set(kw[f"exclude_{attr}"]) for attr in ("path", "method", "name", "tag", "operation_id"))
    res.evaluations += 1
    try:
        filter_set = FilterArguments(**kw).into()
    except click.UsageError as exc:
        if conflict:
            res.count("cli_refused_as_documented")
            return
        res.violation({"kind": "cli_refused", **shape, "message": str(exc)[:80]}, {**detail_base, "flags": kw})
        return
    schema = load()
    schema.filter_set = filter_set  # what cli/commands/run/executor.py does with config.filter_set
    obs = observe(schema)
    strict = [x for x in obs["labels"] if x != UPPER_LABEL]
    res.count("cli_states_compared")
    if strict != expected.selected:
        n_regex = sum(1 for a in atoms if a["pol"] == "include" and a["kind"] == "regex")
        conjoined = ref.reference(DOCUMENT, atoms, conjoin_include_regex=True).selected
        facts = {"include_regex_flags": n_regex if n_regex < 2 else "2+"}
        if n_regex >= 2:
            facts["equals_conjoined_include_regex_reading"] = strict == conjoined
        raw = ref.reference(DOCUMENT, atoms, raw_pointer=True).selected
        if ref.pointer_goes_through_reference(DOCUMENT, atoms):
            facts["expression_pointer_through_reference"] = True
            facts["equals_unresolved_pointer_reading"] = strict == raw
        res.violation({"kind": "selection_mismatch", "component": "cli_filter_arguments_into",
                       "direction": _direction(set(strict), set(expected.selected)), **shape, **facts},
                      {**detail_base, "flags": {k: v for k, v in kw.items() if v}, "observed": obs["labels"], "expected": expected.selected})


class _StubRequest:
    """The only thing lazy.get_schema needs from pytest: a fixture lookup."""

    def __init__(self, schema: Any) -> None:
        self.schema = schema

    def getfixturevalue(self, name: str) -> Any:
        assert name == "api_schema"
        return self.schema


def check_pytest_paths(res: Result, atoms: list[dict], order: list[int], expected: ref.Reference, shape: dict,
                       detail_base: dict, through_ref: bool) -> None:
    from schemathesis.generation.hypothesis.builder import HypothesisTestMode
    from schemathesis.pytest.lazy import LazySchema, get_all_tests, get_schema
    from schemathesis.pytest.plugin import SchemaHandleMark

    history = [atoms[i] for i in order]

    # LazySchema: the same history on the lazy handle, then what wrapped_test() does with the fixture value
    def test_lazy(case: Any) -> None:  # pragma: no cover - never executed
        pass

    lazy = LazySchema("api_schema")
    try:
        for atom in history:
            lazy = apply(lazy, atom)
    except Exception as exc:  # noqa: BLE001
        res.violation({"kind": "lazy_filter_refused", **shape, "error": type(exc).__name__}, {**detail_base, "error": repr(exc)[:200]})
        return
    res.evaluations += 1
    schema = get_schema(request=_StubRequest(load()), name="api_schema", test_function=test_lazy, filter_set=lazy.filter_set)  # type: ignore[arg-type]
    tests = list(get_all_tests(schema=schema, test_func=test_lazy, modes=list(HypothesisTestMode),
                               generation_config=schema.generation_config))
    labels = [x for x in labels_of(_first(r) for r in tests) if x != UPPER_LABEL]
    if labels != expected.selected:
        res.violation({"kind": "selection_mismatch", "component": "lazy_schema_get_all_tests",
                       "direction": _direction(set(labels), set(expected.selected)), **shape},
                      {**detail_base, "observed": labels, "expected": expected.selected})
    res.count("lazy_states_compared")

    # the fixture returns an already filtered schema and the lazy handle adds the rest of the history (or nothing).
    # Decided only where the union of the two filter sets has one reading: all include filters on one side.
    for split in range(1, len(history) + 1):
        on_fixture, on_handle = history[:split], history[split:]
        if any(_same_filter(a, b) for a in atoms for b in atoms):
            res.count("lazy_fixture_splits_undecided")  # one filter included and excluded: the text does not say what wins
            continue
        if any(a["pol"] == "include" for a in on_fixture) and any(a["pol"] == "include" for a in on_handle):
            res.count("lazy_fixture_splits_undecided")
            continue
        try:
            fixture_value = build(on_fixture)[-1]
            handle = LazySchema("api_schema")
            for atom in on_handle:
                handle = apply(handle, atom)
        except Exception as exc:  # noqa: BLE001
            res.violation({"kind": "lazy_filter_refused", **shape, "error": type(exc).__name__}, {**detail_base, "error": repr(exc)[:200]})
            continue
        res.evaluations += 1
        schema = get_schema(request=_StubRequest(fixture_value), name="api_schema", test_function=test_lazy, filter_set=handle.filter_set)  # type: ignore[arg-type]
        # (the generation modes do not take part in the selection; all of them are used in the comparison above)
        tests = list(get_all_tests(schema=schema, test_func=test_lazy, modes=[HypothesisTestMode.FUZZING],
                                   generation_config=schema.generation_config))
        labels = [x for x in labels_of(_first(r) for r in tests) if x != UPPER_LABEL]
        res.count("lazy_fixture_splits_compared")
        if labels != expected.selected:
            handle_only = ref.reference(DOCUMENT, on_handle).selected
            res.violation({"kind": "selection_mismatch", "component": "lazy_schema_filtered_fixture",
                           "direction": _direction(set(labels), set(expected.selected)),
                           "equals_handle_filters_only_reading": labels == handle_only},
                          {**detail_base, "filters_on_fixture_value": [ref.atom_id(a) for a in on_fixture],
                           "filters_on_lazy_handle": [ref.atom_id(a) for a in on_handle], "observed": labels,
                           "expected": expected.selected})

    # schema.parametrize(): the clone stored for the pytest collector
    def test_param(case: Any) -> None:  # pragma: no cover - never executed
        pass

    filtered = build(history)[-1]
    filtered.parametrize()(test_param)
    handle = SchemaHandleMark.get(test_param)
    res.evaluations += 1
    labels = [x for x in labels_of(handle.get_all_operations()) if x != UPPER_LABEL]
    if handle is filtered:
        res.count("parametrize_did_not_clone")
    if labels != expected.selected:
        res.violation({"kind": "selection_mismatch", "component": "parametrize_clone",
                       "direction": _direction(set(labels), set(expected.selected)), **shape},
                      {**detail_base, "observed": labels, "expected": expected.selected})
    res.count("parametrize_states_compared")


def _first(result: Any) -> Any:
    """Ok((operation, test)) -> Ok(operation) for labels_of."""
    from schemathesis.core.result import Ok

    if isinstance(result, Ok):
        return Ok(result.ok()[0])
    return result


# --------------------------------------------------------------------------------------------------------------------
# traffic items


def api(exchange: Any) -> tuple:
    """Scripted API: creation returns ids so that links have something to carry."""
    from mc import httpseam

    method, path = exchange.method, exchange.path
    if method == "POST" and path == "/users":
        return httpseam.json_response(201, {"id": USER_ID})
    if method == "POST" and path == "/items":
        return httpseam.json_response(201, {"id": ITEM_ID})
    if method == "DELETE":
        return 204, [], b""
    if method == "GET" and path.startswith("/items/"):
        return httpseam.json_response(200, {"id": ITEM_ID, "owner": USER_ID})
    return httpseam.json_response(200, {"id": USER_ID})


def check_traffic(res: Result, atoms: list[dict], tier: str) -> None:
    from mc import engine

    b = BOUNDS[tier]
    shape = _shape(atoms)
    detail_base = {"atoms": [ref.atom_id(a) for a in atoms]}
    if any(_same_filter(x, y) for x in atoms for y in atoms):
        res.count("traffic_sets_skipped_conflicting")
        return
    expected = ref.reference(DOCUMENT, atoms)
    selected = set(expected.selected)
    schema = build(atoms)[-1]
    offered = [x for x in labels_of(schema.get_all_operations()) if x != UPPER_LABEL]

    marks: list[tuple[str, str, int]] = []
    sent: list[Any] = []
    scenario_labels: dict[str, set] = {}
    followed: list[str] = []

    def on_event(event: Any, stream: Any) -> None:
        name = type(event).__name__
        if name in ("PhaseStarted", "PhaseFinished"):
            marks.append((name, event.phase.name.name, len(sent)))
        elif name == "ScenarioStarted" and event.label is not None:
            scenario_labels.setdefault(event.phase.name, set()).add(event.label)
        elif name == "ScenarioFinished":
            for node in event.recorder.cases.values():
                if node.transition is not None:
                    followed.append(node.transition.id)

    config = engine.make_config(phases=["examples", "coverage", "fuzzing", "stateful"], max_examples=b["max_examples"],
                                stateful_step_count=b["stateful_steps"], seed=1)
    run = engine.run_engine(schema, config, api, on_event=on_event, on_send=sent.append)
    res.evaluations += 1
    res.traces += 1
    res.count("engine_runs")
    fatal = [e for e in run.events if type(e).__name__ in ("FatalError", "Interrupted")]
    nonfatal = [e for e in run.events if type(e).__name__ == "NonFatalError"]
    complete = run.error is None and not fatal and any(type(e).__name__ == "EngineFinished" for e in run.events)

    phase_of: list[str] = ["?"] * len(run.exchanges)
    started: dict[str, int] = {}
    finished_phases = set()
    for name, phase, n in marks:
        if name == "PhaseStarted":
            started[phase] = n
        elif phase in started:
            finished_phases.add(phase)
            for i in range(started[phase], min(n, len(phase_of))):
                phase_of[i] = phase

    # safety: every request goes to a selected operation (judged on every run, complete or not)
    per_phase: dict[str, set] = {}
    for exchange, phase in zip(run.exchanges, phase_of):
        candidates = ref.route(DOCUMENT, exchange.method, exchange.path)
        res.count("requests_routed")
        if not candidates:
            res.count("requests_matching_no_template")  # nothing to attribute it to: left open
            continue
        hit = [c for c in candidates if c in selected]
        open_hit = [c for c in candidates if c in expected.open_labels]
        if hit:
            per_phase.setdefault(phase, set()).update(hit)
        elif open_hit:
            res.count("requests_to_open_upper_case_operation")
        else:
            res.violation({"kind": "request_to_unselected_operation", "phase": phase, **shape,
                           "offered_by_get_all_operations": any(c in offered for c in candidates)},
                          {**detail_base, "request": f"{exchange.method} {exchange.path}", "routes_to": candidates,
                           "selected": expected.selected})
    # offered scenarios (unit phases label a scenario with its operation)
    for phase in ("EXAMPLES", "COVERAGE", "FUZZING"):
        for label in sorted(scenario_labels.get(phase, ())):
            if label not in selected and label not in expected.open_labels:
                res.violation({"kind": "scenario_for_unselected_operation", "phase": phase, **shape},
                              {**detail_base, "label": label, "selected": expected.selected})
    # liveness: only on complete runs of phases that finished
    if complete:
        res.count("engine_runs_complete")
        for phase in ("COVERAGE", "FUZZING"):
            if phase not in finished_phases:
                continue
            for label in expected.selected:
                if label not in per_phase.get(phase, set()):
                    related = [e for e in nonfatal if getattr(e, "label", None) == label]
                    res.violation({"kind": "selected_operation_received_no_request", "phase": phase, **shape,
                                   "engine_reported_error_for_it": bool(related)},
                                  {**detail_base, "operation": label, "requests_in_phase": sorted(per_phase.get(phase, ())),
                                   "errors": [repr(getattr(e, "value", e))[:200] for e in related]})
                else:
                    res.count("liveness_confirmed")
    else:
        res.count("engine_runs_incomplete")
        res.outcomes.add("engine_incomplete")
        if selected:
            # a run that dies is not evidence for anything; with a non-empty selection it is also not expected
            res.violation({"kind": "engine_run_did_not_complete", **shape, "error": type(run.error).__name__ if run.error else
                           (type(fatal[0]).__name__ if fatal else "no EngineFinished")},
                          {**detail_base, "error": repr(run.error)[:300], "fatal": [repr(getattr(e, "exception", e))[:300] for e in fatal]})
    if followed:
        res.count("runs_with_link_followed")
        res.count("link_transitions_followed", len(followed))
        # a followed link is a request too: its target must be selected (the id string names source and target)
        for tid in followed:
            target = tid.rsplit(" -> ", 1)[-1]
            if target not in selected:
                res.violation({"kind": "link_followed_to_unselected_operation", **shape}, {**detail_base, "transition": tid})
    if expected.transitions and complete and "STATEFUL_TESTING" in finished_phases and not followed:
        res.count("runs_with_selected_links_but_none_followed")  # reported, not demanded (generation may not reach a 2xx)
    res.count("requests_total", len(run.exchanges))
    res.outcomes.add("traffic_none" if not run.exchanges else "traffic_all_ops" if len(selected) == expected.total else "traffic_subset")
    if len(selected) < expected.total:
        res.nontriv(["traffic", *detail_base["atoms"]])
    if len(res.samples) < 1 and atoms and run.exchanges:
        res.samples.append({**detail_base, "selected": expected.selected, "requests": len(run.exchanges),
                            "per_phase": {k: sorted(v) for k, v in sorted(per_phase.items())}, "links_followed": sorted(set(followed))[:4]})


# --------------------------------------------------------------------------------------------------------------------
# exclude(deprecated=...) together with other conditions in one call


def check_deprecated_calls(res: Result) -> None:
    from schemathesis.generation.hypothesis.builder import HypothesisTestMode
    from schemathesis.pytest.lazy import LazySchema, get_all_tests, get_schema

    def test_lazy(case: Any) -> None:  # pragma: no cover - never executed
        pass

    for prefix in extra.DEPRECATED_PREFIXES:
        for call in extra.DEPRECATED_CALLS:
            common.reset_schemathesis_caches()
            readings = {name: ref.reference(DOCUMENT, atoms) for name, atoms in extra.deprecated_call_readings(prefix, call).items()}
            plain = {"pol": "exclude", "kind": "all", "parts": call["parts"]}
            args, kwargs = call_kwargs(plain)
            facts = {"deprecated_argument": call["deprecated"], "conditions": sorted(p.get("attr", p["kind"]) for p in call["parts"]),
                     "filters_before": len(prefix)}
            detail = {"prefix": [ref.atom_id(a) for a in prefix], "call": ref.atom_id(plain), "deprecated": call["deprecated"],
                      "admissible": {name: r.selected for name, r in readings.items()}}
            res.states += 1
            res.count("deprecated_calls_checked")
            # eager schema
            res.evaluations += 1
            schema = build(prefix)[-1].exclude(*args, deprecated=call["deprecated"], **kwargs)
            obs = observe(schema)
            strict = [x for x in obs["labels"] if x != UPPER_LABEL]
            matching = [name for name, r in readings.items() if r.selected == strict]
            if not matching:
                res.violation({"kind": "deprecated_call_selection_mismatch", "component": "get_all_operations", **facts},
                              {**detail, "observed": obs["labels"]})
            else:
                res.count("deprecated_call_reading_" + matching[0])
                res.outcomes.add("deprecated_call_reading_" + matching[0])
                chosen = readings[matching[0]]
                if obs["ops"][0] != len(strict) or obs["links"][0] != len(chosen.transitions):
                    through_ref = ref.pointer_goes_through_reference(DOCUMENT, prefix)
                    res.violation({"kind": "deprecated_call_statistic_mismatch", **facts, "expression_pointer_through_reference": through_ref},
                                  {**detail, "observed": obs, "expected_links": chosen.transitions})
            # lazy handle
            res.evaluations += 1
            handle = LazySchema("api_schema")
            for atom in prefix:
                handle = apply(handle, atom)
            handle = handle.exclude(*args, deprecated=call["deprecated"], **kwargs)
            lazy_schema = get_schema(request=_StubRequest(load()), name="api_schema", test_function=test_lazy, filter_set=handle.filter_set)  # type: ignore[arg-type]
            tests = list(get_all_tests(schema=lazy_schema, test_func=test_lazy, modes=[HypothesisTestMode.FUZZING],
                                       generation_config=lazy_schema.generation_config))
            labels = [x for x in labels_of(_first(r) for r in tests) if x != UPPER_LABEL]
            if not any(r.selected == labels for r in readings.values()):
                res.violation({"kind": "deprecated_call_selection_mismatch", "component": "lazy_schema_get_all_tests", **facts},
                              {**detail, "observed": labels})
            elif labels != strict:
                res.violation({"kind": "deprecated_call_read_differently_by_lazy_schema", **facts},
                              {**detail, "eager": strict, "lazy": labels})
            res.traces += 2
            if len(readings) > 1 and readings["and"].selected != readings["separate"].selected:
                res.nontriv(["deprecated_call", detail["prefix"], detail["call"]])


# --------------------------------------------------------------------------------------------------------------------
# GraphQL schemas (filtering by name)


def gql_load(universe: str) -> Any:
    import schemathesis
    from mc import httpseam

    return schemathesis.graphql.from_file(extra.gql_sdl(universe)).configure(base_url=httpseam.BASE_URL + "/graphql")


def gql_observe(schema: Any) -> dict:
    st = schema.statistic
    return {"labels": labels_of(schema.get_all_operations()), "ops": [st.operations.selected, st.operations.total],
            "links": [st.links.selected, st.links.total], "len": len(schema)}


def check_graphql_state(res: Result, universe: str, atoms: list[dict]) -> None:
    import click

    from schemathesis.cli.commands.run.filters import FilterArguments
    from schemathesis.generation.hypothesis.builder import HypothesisTestMode
    from schemathesis.pytest.lazy import LazySchema, get_all_tests, get_schema
    from schemathesis.pytest.plugin import SchemaHandleMark

    shape = {**_shape(atoms), "schema": "graphql"}
    detail_base = {"universe": universe, "atoms": [ref.atom_id(a) for a in atoms]}
    conflict = any(_same_filter(a, b) for a in atoms for b in atoms)
    expected, total = extra.gql_reference(universe, atoms)
    res.states += 1
    res.transitions += len(atoms)
    res.count("graphql_states")

    def judge(component: str, labels: list[str]) -> None:
        # the text fixes which operations are offered, not their order: compared as sets (plus "each one once")
        if sorted(labels) != sorted(expected):
            res.violation({"kind": "selection_mismatch", "component": component,
                           "direction": _direction(set(labels), set(expected)), **shape},
                          {**detail_base, "observed": labels, "expected": expected})

    first = None
    chain: list = []
    before: list = []
    for order in itertools.permutations(range(len(atoms))):
        history = [atoms[i] for i in order]
        res.evaluations += 1
        seen_before: list = []
        try:
            built = build(history, root=gql_load(universe), before=seen_before)
        except Refused as exc:
            if conflict and exc.message == "Filter already exists":
                res.count("graphql_histories_refused_as_documented")
                continue
            res.violation({"kind": "filter_refused", **shape, "message": exc.message}, {**detail_base, "order": list(order)})
            continue
        obs = gql_observe(built[-1])
        res.traces += 1
        if first is None:
            first, chain, before = obs, built, seen_before
        elif obs != first:
            res.violation({"kind": "order_dependent_selection", **shape}, {**detail_base, "observed_a": first, "observed_b": obs})
    if first is None:
        return
    judge("get_all_operations", first["labels"])
    if first["ops"][1] != total or first["len"] != total:
        res.violation({"kind": "statistic_mismatch", "field": "operations.total", **shape}, {**detail_base, "observed": first, "expected": total})
    if first["ops"][0] != len(first["labels"]):
        res.violation({"kind": "statistic_mismatch", "field": "operations.selected", "against": "get_all_operations",
                       "direction": "over" if first["ops"][0] > len(first["labels"]) else "under", **shape},
                      {**detail_base, "observed": first})
    elif first["ops"][0] != len(expected):
        res.violation({"kind": "statistic_mismatch", "field": "operations.selected", "against": "reference",
                       "direction": "over" if first["ops"][0] > len(expected) else "under", **shape},
                      {**detail_base, "observed": first, "expected": expected})
    if first["links"] != [0, 0]:
        res.violation({"kind": "statistic_mismatch", "field": "links", **shape}, {**detail_base, "observed": first["links"]})
    # the chain of clones, both directions
    for depth, ancestor in enumerate(chain[:-1]):
        res.evaluations += 1
        after = labels_of(ancestor.get_all_operations())
        if after != before[depth]:
            res.violation({"kind": "ancestor_changed_by_child", "ancestor_depth": depth, **shape},
                          {**detail_base, "before": before[depth], "after": after})
    if labels_of(chain[-1].get_all_operations()) != first["labels"]:
        res.violation({"kind": "child_changed_by_use_of_ancestor", **shape}, {**detail_base})
    # CLI flags
    kw = cli_arguments(atoms)
    filter_set = None
    if kw is not None:  # (two regular expressions of one polarity have no spelling as flags)
        cli_conflict = conflict or bool(set(kw["include_name"]) & set(kw["exclude_name"]))
        res.evaluations += 1
        try:
            filter_set = FilterArguments(**kw).into()
        except click.UsageError as exc:
            if not cli_conflict:
                res.violation({"kind": "cli_refused", **shape, "message": str(exc)[:80]}, {**detail_base, "flags": kw})
    if filter_set is not None:
        schema = gql_load(universe)
        schema.filter_set = filter_set
        labels = labels_of(schema.get_all_operations())
        res.count("graphql_cli_states_compared")
        if sorted(labels) != sorted(expected):
            n_regex = sum(1 for a in atoms if a["pol"] == "include" and a["kind"] == "regex")
            res.violation({"kind": "selection_mismatch", "component": "cli_filter_arguments_into",
                           "direction": _direction(set(labels), set(expected)), **shape,
                           "include_regex_flags": n_regex if n_regex < 2 else "2+"},
                          {**detail_base, "observed": labels, "expected": expected})
        elif schema.statistic.operations.selected != len(expected):
            res.violation({"kind": "statistic_mismatch", "field": "operations.selected", "against": "reference", "component": "cli", **shape},
                          {**detail_base, "observed": schema.statistic.operations.selected})

    # LazySchema and parametrize()
    def test_lazy(case: Any) -> None:  # pragma: no cover - never executed
        pass

    def test_param(case: Any) -> None:  # pragma: no cover - never executed
        pass

    handle = LazySchema("api_schema")
    for atom in atoms:
        handle = apply(handle, atom)
    res.evaluations += 2
    lazy_schema = get_schema(request=_StubRequest(gql_load(universe)), name="api_schema", test_function=test_lazy, filter_set=handle.filter_set)  # type: ignore[arg-type]
    tests = list(get_all_tests(schema=lazy_schema, test_func=test_lazy, modes=list(HypothesisTestMode),
                               generation_config=lazy_schema.generation_config))
    judge("lazy_schema_get_all_tests", labels_of(_first(r) for r in tests))
    chain[-1].parametrize()(test_param)
    judge("parametrize_clone", labels_of(SchemaHandleMark.get(test_param).get_all_operations()))

    res.outcomes.add("graphql_all" if len(expected) == total else "graphql_none" if not expected else "graphql_some")
    if len(expected) < total:
        res.count("graphql_states_excluding_something")
        res.nontriv(["graphql", universe, *detail_base["atoms"]])


def gql_api(exchange: Any) -> tuple:
    from mc import httpseam

    return httpseam.json_response(200, {"data": {}})


def check_graphql_traffic(res: Result, universe: str, atoms: list[dict], tier: str) -> None:
    from mc import engine

    b = BOUNDS[tier]
    shape = {**_shape(atoms), "schema": "graphql"}
    detail_base = {"universe": universe, "atoms": [ref.atom_id(a) for a in atoms]}
    expected, total = extra.gql_reference(universe, atoms)
    selected = set(expected)
    try:
        schema = build(atoms, root=gql_load(universe))[-1]
    except Refused as exc:
        if exc.message == "Filter already exists":
            # two atoms that spell the same filter: refused as documented, there is no selection to run the engine with
            res.count("graphql_traffic_sets_refused_as_documented")
            return
        res.violation({"kind": "filter_refused", **shape, "message": exc.message}, detail_base)
        return
    scenario_labels: set = set()

    def on_event(event: Any, stream: Any) -> None:
        if type(event).__name__ == "ScenarioStarted" and event.label is not None:
            scenario_labels.add(event.label)

    config = engine.make_config(phases=["examples", "coverage", "fuzzing", "stateful"], max_examples=b["max_examples"], seed=1)
    run = engine.run_engine(schema, config, gql_api, on_event=on_event)
    res.evaluations += 1
    res.traces += 1
    res.count("graphql_engine_runs")
    fatal = [e for e in run.events if type(e).__name__ in ("FatalError", "Interrupted")]
    complete = run.error is None and not fatal and any(type(e).__name__ == "EngineFinished" for e in run.events)
    hit: set = set()
    for exchange in run.exchanges:
        fields = extra.gql_root_fields(exchange.body)
        res.count("graphql_requests")
        if not fields:
            res.count("graphql_requests_not_attributable")  # left open
            continue
        for label in fields:
            if label in selected:
                hit.add(label)
            else:
                res.violation({"kind": "request_to_unselected_operation", **shape},
                              {**detail_base, "request_field": label, "query": (exchange.body or b"")[:200].decode("utf-8", "replace"),
                               "selected": expected})
    for label in sorted(scenario_labels):
        if label not in selected:
            res.violation({"kind": "scenario_for_unselected_operation", **shape}, {**detail_base, "label": label, "selected": expected})
    if complete:
        for label in expected:
            if label in hit:
                res.count("graphql_liveness_confirmed")
            else:
                res.violation({"kind": "selected_operation_received_no_request", **shape},
                              {**detail_base, "operation": label, "requested": sorted(hit)})
    elif selected:
        res.violation({"kind": "engine_run_did_not_complete", **shape, "error": type(run.error).__name__ if run.error else
                       (type(fatal[0]).__name__ if fatal else "no EngineFinished")},
                      {**detail_base, "error": repr(run.error)[:300], "fatal": [repr(getattr(e, "exception", e))[:300] for e in fatal]})
    res.outcomes.add("graphql_traffic_none" if not run.exchanges else "graphql_traffic_all" if len(selected) == total else "graphql_traffic_subset")
    if len(selected) < total:
        res.nontriv(["graphql_traffic", universe, *detail_base["atoms"]])


# --------------------------------------------------------------------------------------------------------------------


def vacuity(total: Result, tier: str) -> list[str]:
    c = total.counters
    out = []
    if not c.get("states_excluding_something"):
        out.append("no state excluded any operation")
    if not c.get("atom_kind_regex") or not c.get("atom_kind_list"):
        out.append("regex and list atoms were not both exercised")
    if not c.get("atom_kind_expr") or not c.get("atom_kind_func") or not c.get("atom_kind_deprecated"):
        out.append("expression / matcher / deprecated atoms were not all exercised")
    if not c.get("link_transitions_followed"):
        out.append("no link was followed in any engine run")
    if not c.get("states_with_link_transitions"):
        out.append("no state had a link between two selected operations")
    if not c.get("histories_refused_as_documented"):
        out.append("the include+exclude of the same filter was never refused (conflict atoms not exercised)")
    if not c.get("liveness_confirmed"):
        out.append("no complete engine run confirmed a request per selected operation")
    if not c.get("cli_states_compared") or not c.get("lazy_states_compared") or not c.get("parametrize_states_compared"):
        out.append("CLI / lazy / parametrize paths were not compared")
    if c.get("requests_matching_no_template", 0) * 10 > c.get("requests_routed", 0):
        out.append("more than 10% of the requests could not be attributed to a path template")
    if total.exhaustive and c.get("engine_runs", 0) == 0:
        out.append("no engine run")
    # review round 2
    if not c.get("atom_kind_all") or not c.get("atom_compiled_pattern"):
        out.append("calls with several conditions / pre-compiled patterns were not exercised")
    if not c.get("lock_step_iterations"):
        out.append("parent and child were never iterated in lock-step")
    if not c.get("lazy_fixture_splits_compared"):
        out.append("no filtered fixture value was combined with a lazy handle")
    if total.exhaustive and (not c.get("deprecated_call_reading_neutral") or c.get("deprecated_calls_checked", 0) < 20):
        out.append("exclude(deprecated=...) with other conditions was not exercised")
    if total.exhaustive and (not c.get("graphql_states_excluding_something") or not c.get("graphql_cli_states_compared")):
        out.append("no GraphQL state excluded an operation / the GraphQL CLI path was not compared")
    if total.exhaustive and (not c.get("graphql_liveness_confirmed") or not c.get("graphql_histories_refused_as_documented")):
        out.append("no GraphQL engine run confirmed a request per selected operation / GraphQL conflict atoms not exercised")
    if c.get("graphql_requests_not_attributable", 0) * 10 > c.get("graphql_requests", 0):
        out.append("more than 10% of the GraphQL requests could not be attributed to a root field")
    return out
