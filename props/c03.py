"""C03 - coverage-phase (boundary value) cases carry labels that match their content.

E2 enumerates small schemas of the boundary-keyword grammar x location x spec and small one/two-parameter documents;
for each, the *real* ``cover_schema_iter`` (value level) and the *real* ``_iter_coverage_cases`` (case level) are run for
the generation-mode sets {positive}, {negative}, {positive, negative}.  Their only nondeterminism is
``coverage.cached_draw`` -> ``generate_one`` (an unseeded one-example Hypothesis run); that module global is replaced by
an E1-driven draw (memoised per strategy identity within one execution, like the real ``lru_cache``), so "for every
answer of the draw" becomes an enumeration.  The labels are judged by the independent evaluator.

Review round 2 (enumerators in mc/c03_extra.py): written-out case-level documents (writing order / position of two and three
parameters, three locations, one name in two locations, two and three media types - the body is judged against the schema of the
media type the case carries -, the ``unexpected_methods`` argument, path items with more methods / ``head`` / ``summary`` /
path-level parameters, the mode list written ``[negative, positive]``); the case descriptions ``Missing `x` at l``, ``Duplicate
`x` query parameter`` and ``Unspecified HTTP method: M`` are checked against the parameter / method they name; value level: arrays
with two length limits (equal, adjacent), uniqueItems over enum items, nested arrays, strings with equal limits >= 2, objects with
three and more optional properties and other writing orders.
"""

from __future__ import annotations

import copy
import re
from typing import Any, Callable

from mc import c03_extra as extra
from mc import smallscope as ss
from mc.choicetree import Alphabet, Stats, draw_strategy, explore
from mc.runner import Result, digest
from oracles.jsonschema_mini import Evaluator, Unknown, json_equal, verdict
from props import common

ID = "C03"
LEVEL = "model_checking"
RULE = (
    "work item = (schema of the boundary-keyword grammar with <=K keywords, location, spec) at value level, or a small "
    "one-operation document (parameter under test x required x companion parameter x body) at case level; for each item and "
    "each mode set {P},{N},{P,N} one E1 execution = one complete run of the real cover_schema_iter / _iter_coverage_cases in "
    "which every cached_draw(strategy) answers with the k-th distinct valid value (k<m) of that strategy's own choice tree "
    "(<=d_local deviations over a character alphabet, simplest first: k=0 is the all-zero choice path when it is valid), memoised "
    "per strategy identity within the execution; all executions with <=d draws answering k>0 are run; "
    "review round 2 adds written-out documents (mc/c03_extra.py): parameters in other writing orders / positions, three parameters and "
    "three locations, one name in two locations, two and three media types, the unexpected_methods argument, path items with more "
    "methods / head / summary / path-level parameters, the mode list [negative, positive]; and value-level arrays with two length "
    "limits, nested arrays, strings with equal limits >= 2, objects with >= 3 optional properties; "
    "a case is non-trivial when a label was judged (True/False verdict) by the independent evaluator; distinct = distinct "
    "(schema/document, location, spec, modes, label, description, value)"
)
BOUNDS = {
    "quick": {"K": 2, "d": 1, "m": 4, "m_case": 3, "d_local": 2, "local_cap": 120, "max_exec_per_tree": 160},
    "thorough": {"K": 3, "d": 2, "m": 4, "m_case": 3, "d_local": 2, "local_cap": 200, "max_exec_per_tree": 500},
}
BUDGET_S = {"quick": 150, "thorough": 3000}
CHUNK = 4
ENGINES = ["E2", "E1"]
TECHNIQUE = (
    "exhaustive small-scope enumeration of boundary-keyword schemas and small documents (E2) x exhaustive, deviation-bounded "
    "enumeration of every answer of the generator's only random seam coverage.cached_draw (E1 choice trees of the real "
    "strategies), on the real cover_schema_iter and _iter_coverage_cases, judged by an independent schema evaluator and a "
    "description->keyword table"
)
LEVEL_TEXT = (
    "Every boundary value and every coverage case the real generator emits for each enumerated schema/document and mode set is "
    "produced and judged, for every answer of the random draw within the stated bounds (k-th simplest value per strategy, <=d "
    "deviating draws per run); nothing is sampled, the unseeded Hypothesis run is replaced by enumeration."
)
LEVEL_NOTE = (
    "Trusted: oracles/jsonschema_mini.py, the description->keyword table in this module, the Hypothesis PrimitiveProvider seam. "
    "Not covered: draw answers outside the character alphabet / beyond the k<m simplest values / more than d deviating draws; "
    "schemas outside the grammar (patternProperties, not, readOnly/writeOnly, $ref); wire-level serialisation (C06)."
)
ASSUMPTIONS = [
    "draw answers are limited to the first m distinct valid values of each strategy's choice tree (<=d_local deviations over the "
    "character alphabet) and at most d draws per run deviate from the simplest answer",
    "conformance is judged by oracles/jsonschema_mini.py; undecided verdicts (1.0 vs integer, unknown formats, float rounding) never alarm",
    "value level judges the raw (unserialised) value against the declared schema; case level judges non-body containers under "
    "string coercion (a wire string conforms iff one of its readings conforms)",
    "undeclared parameters in a non-body container leave the container's validity undecided (OpenAPI does not forbid them)",
    "typeless schemas are not enumerated for header/cookie (the forced `type: string` is C01's subject)",
    "a POSITIVE value of a schema carrying example/examples/default anywhere is exempt (property text)",
]

CHARS = {"quick": ["0", "a", "-", "é"], "thorough": ["0", "a", "-", "é", "1", ".", " ", "\x00"]}
PATTERNS_QUICK = ["^a+$", "a", r"^\d{3}$", "^[ab]{1,2}$"]
MODE_SETS = (["positive"], ["negative"], ["positive", "negative"])


# ---------------------------------------------------------------------------------------------------------------------
# E1 seam: coverage.cached_draw answered from choice trees
# ---------------------------------------------------------------------------------------------------------------------

class Seam:
    """Replacement for ``coverage.cached_draw`` during one E1 execution."""

    def __init__(self, outer_draw: Callable, tier: str, m: int, res: Result, stable_cache: dict):
        self.outer_draw = outer_draw
        self.m = m
        self.tier = tier
        self.res = res
        self.memo: dict[Any, Any] = {}  # strategy object -> value (identity hash, keeps the strategy alive)
        self.stable_cache = stable_cache
        self.log: list[tuple[int, str]] = []
        self.other_than_simplest = 0
        b = BOUNDS[tier]
        self.d_local = b["d_local"]
        self.cap = b["local_cap"]
        self.alphabet = Alphabet(chars=CHARS[tier])

    def __call__(self, strategy: Any) -> Any:
        from hypothesis import strategies as st

        if strategy in self.memo:
            self.res.count("draws_memoised")
            return self.memo[strategy]
        k = self.outer_draw(st.integers(0, self.m - 1))
        self.res.count("draws")
        value = self.kth_valid(strategy, k)
        self.memo[strategy] = value
        self.log.append((k, repr(value)[:60]))
        return value

    def kth_valid(self, strategy: Any, k: int) -> Any:
        from hypothesis.errors import Unsatisfiable, UnsatisfiedAssumption

        cached = self.stable_cache.get(id(strategy))
        if cached is not None and cached[0] is strategy:
            values, exhausted, zero_valid = cached[1], cached[2], cached[3]
        else:
            stats = Stats()
            keys: list[str] = []
            b = BOUNDS[self.tier]
            stable = id(strategy) in _STABLE_IDS
            want = max(b["m"], b["m_case"]) if stable else k + 1
            values = []
            zero_valid = False
            first = True
            for ex in explore(draw_strategy(strategy), self.alphabet, self.d_local, max_executions=self.cap, stats=stats):
                self.res.count("local_executions")
                if ex.status == "error":
                    raise ex.error  # what the real generate_one would raise as well (e.g. InvalidArgument)
                if first:
                    zero_valid = ex.status == "valid"
                    first = False
                if ex.status != "valid":
                    continue
                key = _vkey(ex.value)
                if key in keys:
                    continue
                keys.append(key)
                values.append(ex.value)
                if len(values) >= want:
                    break
            exhausted = stats.exhausted
            if stable:
                self.stable_cache[id(strategy)] = (strategy, values, exhausted, zero_valid)
        if k < len(values):
            if k > 0 or not zero_valid:
                # Hypothesis tries the all-simplest example first: any other answer needs that one to be rejected (or other luck)
                self.other_than_simplest += 1
            return copy.deepcopy(values[k])
        if not values and exhausted:
            # the whole tree was explored and holds no valid example: the real generate_one raises Unsatisfiable
            raise Unsatisfiable("no valid example in an exhausted choice tree")
        # the alternative does not exist within the bounds (or the tree is undecided): prune this execution
        self.res.count("pruned_alternative_absent" if values else "pruned_no_value_within_bounds")
        raise UnsatisfiedAssumption


_STABLE_IDS: set[int] = set()


def _vkey(v: Any) -> str:
    return f"{type(v).__name__}:{v!r}"


def init_worker() -> None:
    from schemathesis.generation import coverage

    # module-level, stateless strategies: their value lists may be reused across executions
    for s in list(coverage.STRATEGIES_FOR_TYPE.values()) + [coverage.FLOAT_STRATEGY, coverage.NUMERIC_STRATEGY]:
        _STABLE_IDS.add(id(s))


def run_tree(fn: Callable[[], Any], tier: str, m: int, d: int, res: Result, stable_cache: dict):
    """Yield (execution, seam log) for every E1 execution of ``fn`` with the seam installed."""
    from schemathesis.generation import coverage
    from schemathesis.generation.hypothesis import examples

    if not hasattr(coverage, "cached_draw"):
        raise AssertionError("seam coverage.cached_draw does not exist")
    holder: dict[str, Any] = {}

    def body(draw: Callable) -> Any:
        seam = Seam(draw, tier, m, res, stable_cache)
        holder["seam"] = seam
        old, old_one = coverage.cached_draw, examples.generate_one

        def forbidden(strategy: Any) -> Any:
            raise AssertionError("examples.generate_one reached: randomness the explorer does not own")

        coverage.cached_draw = seam
        examples.generate_one = forbidden
        try:
            return fn()
        finally:
            coverage.cached_draw = old
            examples.generate_one = old_one

    stats = Stats()
    outer = Alphabet(small_range=64)
    for ex in explore(body, outer, d, max_executions=BOUNDS[tier]["max_exec_per_tree"], stats=stats):
        yield ex, holder["seam"].log, ("simplest_example" if holder["seam"].other_than_simplest == 0 else "other_example")
    res.states += stats.nodes
    res.transitions += stats.edges
    res.count("trees")
    if stats.capped:
        res.exhaustive = False
        res.count("trees_capped")


# ---------------------------------------------------------------------------------------------------------------------
# Oracle: description -> violated keyword
# ---------------------------------------------------------------------------------------------------------------------

LEAF = {
    "Value greater than maximum": ("maximum", "exclusiveMaximum"),
    "Value smaller than minimum": ("minimum", "exclusiveMinimum"),
    "String smaller than minLength": ("minLength",),
    "String larger than maxLength": ("maxLength",),
    "Incorrect type": ("type",),
    "Invalid enum value": ("enum", "const"),
    "Non-unique items": ("uniqueItems",),
    "Object with unexpected properties": ("additionalProperties",),
}
RX_OBJ = re.compile(r"^Object with invalid '(.*?)' value: (.*)$", re.S)
RX_ARR = re.compile(r"^Array with invalid items: (.*)$", re.S)
RX_REQ = re.compile(r"^Missing required property: (.*)$", re.S)
RX_MULT = re.compile(r"^Non-multiple of (.*)$", re.S)
RX_PAT = re.compile(r"^Value not matching the '(.*)' pattern$", re.S)
RX_FMT = re.compile(r"^Value not matching the '(.*)' format$", re.S)


def desc_class(desc: str) -> str:
    """Description with the schema-specific names removed (used in signatures)."""
    m = RX_OBJ.match(desc)
    if m:
        return "Object with invalid '*' value: " + desc_class(m.group(2))
    m = RX_ARR.match(desc)
    if m:
        return "Array with invalid items: " + desc_class(m.group(1))
    m = re.match(r"^Object with valid '(.*?)' value: (.*)$", desc, re.S)
    if m:
        return "Object with valid '*' value: " + desc_class(m.group(2))
    if RX_REQ.match(desc):
        return "Missing required property: *"
    if RX_MULT.match(desc):
        return "Non-multiple of *"
    if RX_PAT.match(desc):
        return "Value not matching the '*' pattern"
    if RX_FMT.match(desc):
        return "Value not matching the '*' format"
    m = re.match(r"^Object with all required properties and '(.*)'$", desc, re.S)
    if m:
        return "Object with all required properties and '*'"
    m = re.match(r"^All required properties and optional '(.*)'$", desc, re.S)
    if m:
        return "All required properties and optional '*'"
    m = re.match(r"^All required and \d+ optional properties$", desc)
    if m:
        return "All required and * optional properties"
    m = re.match(r"^(Duplicate|Missing) `(.*)` (query parameter|at .*)$", desc, re.S)
    if m:
        return f"{m.group(1)} `*` {'query parameter' if m.group(1) == 'Duplicate' else 'at *'}"
    m = re.match(r"^Unspecified HTTP method: .*$", desc)
    if m:
        return "Unspecified HTTP method: *"
    return desc


def _nodes(ev: Evaluator, schema: Any, depth: int = 0) -> list[dict]:
    """The schema itself and everything reachable through allOf/anyOf/oneOf (references resolved)."""
    if depth > 6:
        raise Unknown("too deep")
    schema = ev.resolve(schema)
    if not isinstance(schema, dict):
        return []
    out = [schema]
    if ev.spec != "3.1" and (schema.get("nullable") is True or schema.get("x-nullable") is True):
        out.append({"type": "null"})  # `nullable: true` = "or null": the null alternative is a branch like an anyOf member
    for key in ("allOf", "anyOf", "oneOf"):
        for sub in schema.get(key, []) or []:
            out.extend(_nodes(ev, sub, depth + 1))
    return out


def _restrict(node: dict, kws: tuple[str, ...]) -> dict | None:
    sub = {k: node[k] for k in kws if k in node}
    if not sub:
        return None
    if "type" in kws:
        for flag in ("nullable", "x-nullable"):
            if flag in node:
                sub[flag] = node[flag]
    # boolean (draft-4 / OpenAPI 3.0) exclusive bounds only modify their sibling
    for bound, excl in (("minimum", "exclusiveMinimum"), ("maximum", "exclusiveMaximum")):
        if isinstance(sub.get(excl), bool) and bound not in sub:
            return None
    if "additionalProperties" in kws:
        if sub["additionalProperties"] is not False:
            return None
        sub["properties"] = {name: {} for name in node.get("properties", {})}
    return sub


def violates_named(root: dict, schema: Any, value: Any, desc: str, spec: str) -> bool | None:
    """Does ``value`` violate the declared ``schema`` in the way ``desc`` says?  None = this table does not decide."""
    ev = Evaluator(root, spec=spec)
    try:
        nodes = _nodes(ev, schema)
    except (Unknown, RecursionError):
        return None
    m = RX_OBJ.match(desc)
    if m:
        name, inner = m.group(1), m.group(2)
        if not isinstance(value, dict) or name not in value:
            return False
        results = [violates_named(root, n["properties"][name], value[name], inner, spec)
                   for n in nodes if isinstance(n.get("properties"), dict) and name in n["properties"]]
        return _any3(results)
    m = RX_ARR.match(desc)
    if m:
        if not isinstance(value, list) or not value:
            return False
        results = [violates_named(root, n["items"], item, m.group(1), spec)
                   for n in nodes if isinstance(n.get("items"), dict) for item in value]
        return _any3(results)
    m = RX_REQ.match(desc)
    if m:
        name = m.group(1)
        declared = any(name in (n.get("required") or []) for n in nodes)
        return bool(declared and isinstance(value, dict) and name not in value)
    kws: tuple[str, ...] | None = None
    m = RX_MULT.match(desc)
    if m:
        nodes = [n for n in nodes if "multipleOf" in n and str(n["multipleOf"]) == m.group(1)]
        kws = ("multipleOf",)
    m = RX_PAT.match(desc)
    if m:
        nodes = [n for n in nodes if n.get("pattern") == m.group(1)]
        kws = ("pattern",)
    m = RX_FMT.match(desc)
    if m:
        nodes = [n for n in nodes if n.get("format") == m.group(1)]
        kws = ("format",)
    if kws is None:
        kws = LEAF.get(desc)
    if kws is None:
        return None
    results = []
    for n in nodes:
        sub = _restrict(n, kws)
        if sub is None:
            continue
        v = verdict(root, sub, value, spec=spec)
        results.append(None if v is None else (not v))
    out = _any3(results)
    if out is False and _merged(nodes):
        return None
    return out


def _merged(nodes: list[dict]) -> bool:
    """allOf of several members is canonicalised (merged) by the generator: descriptions then name keywords of the merged schema."""
    return any(len(n.get("allOf") or []) > 1 for n in nodes)


def _any3(results: list) -> bool | None:
    if any(r is True for r in results):
        return True
    if any(r is None for r in results):
        return None
    return False


def has_author_values(schema: Any) -> bool:
    if isinstance(schema, dict):
        if any(k in schema for k in ("example", "examples", "default", "x-example", "x-examples")):
            return True
        return any(has_author_values(v) for v in schema.values())
    if isinstance(schema, list):
        return any(has_author_values(v) for v in schema)
    return False


def schema_facts(schema: Any) -> dict:
    """Shape facts of the declared (sub)schema the judged value belongs to - they tell defects apart in signatures."""
    out: dict[str, Any] = {}
    if not isinstance(schema, dict):
        return out
    for bound in ("minimum", "maximum"):
        if schema.get(bound) == 0 and not isinstance(schema.get(bound), bool):
            out[f"{bound}_is_0"] = True
    excl = [schema[k] for k in ("exclusiveMinimum", "exclusiveMaximum") if k in schema]
    if any(isinstance(e, bool) for e in excl):
        out["boolean_exclusive_bound"] = True
    elif excl:
        out["numeric_exclusive_bound"] = True
    if "multipleOf" in schema:
        out["multipleOf"] = True
    if schema.get("nullable") or schema.get("x-nullable") or (isinstance(schema.get("type"), list) and "null" in schema["type"]):
        out["nullable"] = True
    for comb in ("allOf", "anyOf", "oneOf"):
        if comb in schema:
            out["combinator"] = comb
    if "pattern" in schema:
        out["pattern"] = True
    if "type" not in schema:
        out["typeless"] = True
    if "format" in schema:
        out["format"] = schema["format"]
    return out


def _branches(ev: Evaluator, schema: Any) -> list[Any]:
    """The alternatives a declared schema offers at its top level (anyOf/oneOf members, `nullable`, a list of types)."""
    try:
        schema = ev.resolve(schema)
    except Unknown:
        return []
    if not isinstance(schema, dict):
        return []
    for key in ("anyOf", "oneOf"):
        if isinstance(schema.get(key), list) and len(schema[key]) > 1:
            return list(schema[key])
    if ev.spec != "3.1" and (schema.get("nullable") is True or schema.get("x-nullable") is True):
        return [{k: v for k, v in schema.items() if k not in ("nullable", "x-nullable")}, {"type": "null"}]
    if isinstance(schema.get("type"), list) and len(schema["type"]) > 1:
        return [{**schema, "type": t} for t in schema["type"]]
    return []


def negative_leaf(root: dict, schema: Any, value: Any, desc: str, spec: str) -> tuple[Any, Any, str]:
    """Follow 'Object with invalid k value: D' / 'Array with invalid items: D' down to the value the description is about."""
    ev = Evaluator(root, spec=spec)
    for _ in range(8):
        try:
            nodes = _nodes(ev, schema)
        except (Unknown, RecursionError):
            break
        m = RX_OBJ.match(desc)
        if m and isinstance(value, dict) and m.group(1) in value:
            subs = [n["properties"][m.group(1)] for n in nodes if isinstance(n.get("properties"), dict) and m.group(1) in n["properties"]]
            if len(subs) != 1:
                break
            schema, value, desc = subs[0], value[m.group(1)], m.group(2)
            continue
        m = RX_ARR.match(desc)
        if m and isinstance(value, list) and len(value) == 1:
            subs = [n["items"] for n in nodes if isinstance(n.get("items"), dict)]
            if len(subs) != 1:
                break
            schema, value, desc = subs[0], value[0], m.group(1)
            continue
        break
    return schema, value, desc


RX_CASE_MISSING = re.compile(r"^Missing `(.*)` at ([a-z]+)$", re.S)
RX_CASE_DUPLICATE = re.compile(r"^Duplicate `(.*)` query parameter$", re.S)
RX_CASE_METHOD = re.compile(r"^Unspecified HTTP method: (.*)$", re.S)
RX_POS_OBJ = re.compile(r"^Object with valid '(.*?)' value: (.*)$", re.S)


def positive_leaf(root: dict, schema: Any, value: Any, desc: str, spec: str) -> tuple[Any, Any, str]:
    """Follow "Object with valid 'k' value: D" down while the property value is what violates."""
    ev = Evaluator(root, spec=spec)
    for _ in range(8):
        m = RX_POS_OBJ.match(desc)
        if not m or not isinstance(value, dict) or m.group(1) not in value:
            break
        try:
            s = ev.resolve(schema)
        except Unknown:
            break
        sub = (s.get("properties") or {}).get(m.group(1)) if isinstance(s, dict) else None
        if sub is None or verdict(root, sub, value[m.group(1)], spec=spec) is not False:
            break
        schema, value, desc = sub, value[m.group(1)], m.group(2)
    return schema, value, desc


def accepted_by_sibling_branch(root: dict, schema: Any, value: Any, spec: str) -> bool:
    """The value violates one alternative of the schema (the one it was built against) and another alternative accepts it."""
    branches = _branches(Evaluator(root, spec=spec), schema)
    if len(branches) < 2:
        return False
    vs = [verdict(root, b, value, spec=spec) for b in branches]
    return any(v is False for v in vs) and any(v is True for v in vs)


def matches_several_oneof_branches(root: dict, schema: Any, value: Any, spec: str) -> bool:
    try:
        s = Evaluator(root, spec=spec).resolve(schema)
    except Unknown:
        return False
    if not isinstance(s, dict) or not isinstance(s.get("oneOf"), list):
        return False
    return sum(1 for b in s["oneOf"] if verdict(root, b, value, spec=spec) is True) > 1


def satisfiable(doc: dict, schema: Any, spec: str) -> bool | None:
    """Brute force over the candidate values: True if one conforms, False if none does (and none is undecided)."""
    undecided = False
    for cand in ss.candidate_values():
        v = verdict(doc, schema, cand, spec=spec)
        if v is True:
            return True
        if v is None:
            undecided = True
    return None if undecided else False


# ---------------------------------------------------------------------------------------------------------------------
# E2: grammar
# ---------------------------------------------------------------------------------------------------------------------

def _extra_numeric(spec: str) -> list[dict]:
    out = [
        {"type": "integer", "minimum": 5, "maximum": 5},
        {"type": "integer", "minimum": 1, "maximum": 6, "multipleOf": 2},
        {"type": "integer", "minimum": 1, "maximum": 7, "multipleOf": 3},
        {"type": "integer", "minimum": 0, "maximum": 0, "multipleOf": 2},
        {"type": "number", "minimum": 0.5, "maximum": 1.5},
        {"type": "integer", "minimum": -3, "maximum": -1},
        {"type": "integer", "minimum": 2, "maximum": 1},
    ]
    if spec == "3.1":
        out += [{"type": "integer", "exclusiveMinimum": 0, "exclusiveMaximum": 3}, {"type": "number", "exclusiveMinimum": -1, "maximum": 0}]
    else:
        out += [{"type": "integer", "minimum": 0, "exclusiveMinimum": True, "maximum": 3, "exclusiveMaximum": True},
                {"type": "integer", "minimum": 0, "exclusiveMinimum": False}]
    return out


def _misc(spec: str) -> list[dict]:
    out = list(ss.misc_schemas(spec))
    out += [{"type": "string", "enum": [""]}, {"enum": [None, 0, "0"]}, {"type": "integer", "enum": [0]}, {"type": "number", "enum": [0.5, 1]}]
    if spec == "3.1":
        out += [{"const": "a"}, {"type": "integer", "const": 0}]
    nul = {"3.0": {"nullable": True}, "2.0": {"x-nullable": True}}.get(spec)
    if nul is not None:
        out += [{"type": "integer", "minimum": 0, **nul}, {"type": "string", "minLength": 1, **nul}, {"type": "string", "enum": ["x"], **nul},
                {"type": "boolean", **nul}, {"type": "array", "items": {"type": "integer"}, **nul}, {"type": "number", "maximum": 0, **nul}]
    else:
        out += [{"type": ["integer", "null"], "minimum": 0}, {"type": ["string", "integer"]}, {"type": ["string", "null"], "minLength": 1},
                {"type": ["number", "null"], "maximum": 0}]
        # `type` written as a list: every pair of the seven JSON types, no other keyword (and the one-element list)
        names = ["null", "boolean", "integer", "number", "string", "array", "object"]
        out += [{"type": [a, b]} for i, a in enumerate(names) for b in names[i + 1:]]
        out += [{"type": ["number"]}, {"type": ["string", "number", "null"]}]
    return out


def _author_values() -> list[dict]:
    return [
        {"type": "integer", "minimum": 1, "example": 0},
        {"type": "string", "maxLength": 1, "default": "abc"},
        {"type": "integer", "minimum": 1, "example": 3},
        {"type": "string", "minLength": 2, "default": "xy"},
    ]


def _combinators(spec: str) -> list[dict]:
    out = [s for s in ss.combinator_schemas() if "not" not in s]
    a = {"type": "integer", "minimum": 1}
    out += [
        {"anyOf": [{"type": "string"}, {"type": "integer"}]},
        {"oneOf": [{"type": "string", "minLength": 1}, {"type": "boolean"}]},
        {"type": "integer", "anyOf": [{"minimum": 1}, {"maximum": -1}]},
        {"allOf": [dict(a)]},
        {"type": "integer", "allOf": [{"minimum": 0}, {"maximum": 0}]},
        {"anyOf": [{"type": "string", "enum": ["x"]}, {"type": "integer", "enum": [1]}]},
    ]
    if spec == "2.0":
        out = [s for s in out if "anyOf" not in s and "oneOf" not in s]
    return out


def _objects() -> list[dict]:
    out = [s for s in ss.object_schemas() if "readOnly" not in repr(s) and "Properties" not in "".join(k for k in s if k != "additionalProperties")]
    p_int = {"type": "integer", "minimum": 0, "maximum": 0}
    out += [
        {"type": "object", "properties": {"a": dict(p_int)}, "required": ["a"]},
        {"type": "object", "properties": {"a": {"type": "string", "enum": ["x"]}, "b": {"type": "boolean"}, "c": {"type": "integer"}}, "required": ["a"]},
        {"type": "object", "properties": {"l": {"type": "array", "items": {"type": "integer", "minimum": 1}, "minItems": 1}}, "required": ["l"]},
        {"type": "object", "required": ["a"]},
        {"type": "object", "properties": {"a": {"type": "string", "nullable": True}}, "additionalProperties": False},
        {"properties": {"a": {"type": "integer"}}, "required": ["a"]},
    ]
    return out


def value_schemas(tier: str, spec: str, loc: str) -> list[tuple[str, dict]]:
    K = BOUNDS[tier]["K"]
    reduced = loc in ("path", "cookie") or spec != "3.0"
    if reduced:
        K = 1 if tier == "quick" else 2
    out: list[tuple[str, dict]] = []
    seen: set[str] = set()

    def add(fam: str, s: dict) -> None:
        if spec == "2.0" and loc != "body" and (not isinstance(s.get("type"), str) or s.get("type") == "object"
                                                  or any(k in s for k in ("anyOf", "oneOf", "allOf"))):
            return  # Swagger 2.0 non-body parameters are primitives/arrays with a type
        if loc in ("header", "cookie") and "type" not in s:
            return
        if loc == "cookie" and s.get("type") == "array":
            return
        if loc != "body" and s.get("type") == "object":
            return
        if spec != "3.0" and "'nullable'" in repr(s):
            return
        if "const" in s and loc != "body":
            return  # `const` is not a parameter-schema keyword the loader keeps (conversion is C01's subject)
        key = digest(s)
        if key not in seen:
            seen.add(key)
            out.append((fam, s))

    for s in ss.numeric_schemas(1 if (loc == "header" and tier == "quick") else K, spec):
        add("numeric", s)  # header differs from query only in the string filter is_valid_for_location
    for s in _extra_numeric(spec):
        add("numeric", s)
    patterns = PATTERNS_QUICK if tier == "quick" else ss.PATTERNS
    for s in ss.string_schemas(K, patterns=patterns):
        add("string", s)
    if not reduced or tier == "thorough":
        for s in ss.string_schemas(3, patterns=PATTERNS_QUICK[:2], formats=False):
            if len(s) == 4:
                add("string", s)  # pattern x minLength x maxLength
    for s in _misc(spec):
        add("misc", s)
    for s in ss.array_schemas(1 if (tier == "quick" or reduced) else 2):
        add("array", s)
    add("array", {"type": "array", "items": {"type": "string", "enum": ["x", "y"]}, "minItems": 1})
    add("array", {"type": "array", "items": {"type": "integer"}, "minItems": 1, "maxItems": 3, "uniqueItems": True})
    add("array", {"type": "array", "items": {"type": "object", "properties": {"a": {"type": "integer"}}, "required": ["a"]}})
    # review round 2: both length limits at once (equal / adjacent), uniqueItems next to a limit and over enum items, nested arrays
    for s in extra.array_limit_schemas(nested=loc == "body" or (loc == "query" and spec == "3.0")):
        add("array_limits", s)
    for s in extra.string_limit_schemas():
        add("string_limits", s)
    if loc == "body":
        for s in _objects():
            add("object", s)
        for s in extra.object_shape_schemas():
            add("object_shapes", s)
    for s in _combinators(spec):
        add("combinator", s)
    for s in _author_values():
        add("author_values", s)
    return out


CASE_SCHEMAS: list[tuple[str, dict]] = [
    ("int_range", {"type": "integer", "minimum": 1, "maximum": 3}),
    ("str_min", {"type": "string", "minLength": 1}),
    ("str", {"type": "string"}),
    ("bool", {"type": "boolean"}),
    ("enum", {"type": "string", "enum": ["x", "y"]}),
    ("array", {"type": "array", "items": {"type": "integer"}}),
    ("nullable", {"type": "string", "nullable": True}),
    ("typeless", {"minimum": 1}),
    ("example", {"type": "integer", "minimum": 1, "example": 0}),
    ("pattern", {"type": "string", "pattern": "^a+$"}),
]
CASE_BODIES: dict[str, dict | None] = {
    "none": None,
    "object": {"type": "object", "properties": {"a": {"type": "integer", "minimum": 1}, "b": {"type": "string", "maxLength": 2}}, "required": ["a"]},
    "integer": {"type": "integer", "minimum": 1},
    "string_enum": {"type": "string", "enum": ["x", "y"]},
    "array": {"type": "array", "items": {"type": "integer"}, "minItems": 1},
    "object_ap": {"type": "object", "properties": {"a": {"type": "boolean"}}, "additionalProperties": False},
    "nullable": {"type": "integer", "nullable": True},
    "typeless": {"maxLength": 1},
}


def items(tier: str, seed: int) -> list[dict]:
    out: list[dict] = []
    # ---- value level
    for spec in ("3.0", "3.1", "2.0"):
        for loc in ("body", "query", "header", "path", "cookie"):
            if spec == "2.0" and loc == "cookie":
                continue
            if spec != "3.0" and loc not in ("body", "query") and not (tier == "thorough" and spec == "2.0" and loc == "header"):
                continue
            for fam, schema in value_schemas(tier, spec, loc):
                out.append({"level": "value", "spec": spec, "loc": loc, "family": fam, "schema": schema})
    # ---- case level: parameter under test x required x companion x body
    for loc in ("query", "header", "cookie", "path"):
        for name, schema in CASE_SCHEMAS:
            if loc != "query" and "type" not in schema:
                continue
            if loc == "cookie" and schema.get("type") == "array":
                continue
            for required in ([True] if loc == "path" else [True, False]):
                for companion, body in (("none", "none"), ("optional_same", "none"), ("required_query", "object"), ("none", "integer")):
                    if tier == "quick" and name in ("bool", "pattern", "example") and (companion, body) != ("none", "none"):
                        continue
                    if "type" not in schema and body != "none":
                        continue
                    out.append({"level": "case", "spec": "3.0", "loc": loc, "family": name, "schema": schema, "required": required,
                                "companion": companion, "body": body, "methods": 1})
    for body, schema in CASE_BODIES.items():
        if schema is None:
            continue
        for required in (True, False):
            for spec in ("3.0", "2.0"):
                if spec == "2.0" and "nullable" in schema:
                    continue
                out.append({"level": "case", "spec": spec, "loc": "body", "family": body, "schema": schema, "required": required,
                            "companion": "none", "body": body, "methods": 1})
    # structure: no parameters at all, two methods on the path, two optional companions, Swagger 2.0 parameters
    out.append({"level": "case", "spec": "3.0", "loc": "none", "family": "empty", "schema": {}, "required": False, "companion": "none",
                "body": "none", "methods": 1})
    out.append({"level": "case", "spec": "3.0", "loc": "query", "family": "int_range", "schema": CASE_SCHEMAS[0][1], "required": True,
                "companion": "two_optional", "body": "none", "methods": 2})
    out.append({"level": "case", "spec": "3.0", "loc": "header", "family": "str_min", "schema": CASE_SCHEMAS[1][1], "required": False,
                "companion": "two_optional", "body": "object", "methods": 2})
    for loc in ("query", "header", "path"):
        out.append({"level": "case", "spec": "2.0", "loc": loc, "family": "int_range", "schema": CASE_SCHEMAS[0][1], "required": True,
                    "companion": "none" if loc == "path" else "optional_same", "body": "none", "methods": 1})
    # review round 2 (mc/c03_extra.py): documents written out - writing order / position / three parameters / three locations, one name
    # in two locations, several media types, the unexpected_methods argument and path-item shapes, the mode list in the other order
    out.extend(extra.layout_items())
    # spread the (fewer, slower) case-level items evenly over the value-level ones
    cases = [i for i in out if i["level"] == "case"]
    values = [i for i in out if i["level"] == "value"]
    step = max(1, len(values) // max(1, len(cases)))
    mixed: list[dict] = []
    for n, v in enumerate(values):
        if n % step == 0 and cases:
            mixed.append(cases.pop(0))
        mixed.append(v)
    return mixed + cases


def build(item: dict) -> tuple[dict, dict]:
    """(document, declared) - ``declared`` is what the oracle reads: the schemas as written."""
    if item.get("params") is not None:
        return _build_layout(item)
    spec, loc = item["spec"], item["loc"]
    schema = copy.deepcopy(item["schema"])
    params: list[dict] = []
    body = None
    path = "/t"
    method = "get"
    if item["level"] == "value":
        if loc == "body":
            body = {"required": True, "content": {"application/json": {"schema": schema}}}
            method = "post"
        else:
            params.append({"name": "p" if loc != "header" else "X-P", "in": loc, "required": True, "schema": schema})
    else:
        if loc in ("query", "header", "cookie", "path"):
            params.append({"name": "p" if loc != "header" else "X-P", "in": loc, "required": item["required"], "schema": schema})
        comp = item["companion"]
        cloc = loc if loc in ("query", "header", "cookie") else "query"
        if comp == "optional_same":
            params.append({"name": "o" if cloc != "header" else "X-O", "in": cloc, "required": False, "schema": {"type": "string", "maxLength": 3}})
        elif comp == "required_query":
            params.append({"name": "r", "in": "query", "required": True, "schema": {"type": "integer", "minimum": 1}})
        elif comp == "two_optional":
            params.append({"name": "o" if cloc != "header" else "X-O", "in": cloc, "required": False, "schema": {"type": "string", "maxLength": 3}})
            params.append({"name": "n" if cloc != "header" else "X-N", "in": cloc, "required": False, "schema": {"type": "boolean"}})
        bschema = CASE_BODIES[item["body"]] if loc != "body" else schema
        if bschema is not None:
            body = {"required": item["required"] if loc == "body" else True, "content": {"application/json": {"schema": copy.deepcopy(bschema)}}}
            method = "post"
    if any(p["in"] == "path" for p in params):
        path = "/t/{p}"
    doc = ss.make_document(spec, path=path, method=method, parameters=copy.deepcopy(params), body=copy.deepcopy(body))
    methods = [method]
    if item.get("methods", 1) == 2:
        doc["paths"][path]["put"] = {"responses": {"200": {"description": "OK"}}}
        methods.append("put")
    declared = {"params": params, "body": body, "path": path, "method": method, "methods": methods}
    return doc, declared


def _build_layout(item: dict) -> tuple[dict, dict]:
    """A document written out by mc/c03_extra.layout_items: parameters in their writing order, 0..3 media types, more methods."""
    spec, path, method = item["spec"], item["path"], item["method"]
    params = copy.deepcopy(item["params"])
    path_level = copy.deepcopy(item["path_level"])
    body = None
    if item["bodies"]:
        body = {"required": item["required"], "content": {mt: {"schema": copy.deepcopy(s)} for mt, s in item["bodies"]}}
    doc = ss.make_document(spec, path=path, method=method, parameters=copy.deepcopy(params), body=copy.deepcopy(body))
    operation = doc["paths"][path][method]
    if spec == "2.0":
        assert not path_level
        if item["bodies"]:
            # Swagger 2.0 has one body schema; the media types are the entries of `consumes`
            assert all(json_equal(s, item["bodies"][0][1]) for _, s in item["bodies"])
            operation["consumes"] = [mt for mt, _ in item["bodies"]]
    path_item: dict[str, Any] = {}
    if item["summary"]:
        path_item["summary"] = "s"
    if path_level:
        path_item["parameters"] = copy.deepcopy(path_level)
    path_item[method] = operation
    for other in item["other_methods"]:
        path_item[other] = {"responses": {"200": {"description": "OK"}}}
    doc["paths"][path] = path_item
    # what the oracle reads: every parameter with its requiredness spelled out (an omitted `required` means false; path: true)
    declared_params = [{**p, "required": bool(p.get("required", False))} for p in params + path_level]
    declared = {"params": declared_params, "body": body, "path": path, "method": method, "methods": [method] + list(item["other_methods"])}
    return doc, declared


def _body_schema(declared: dict, media_type: Any) -> Any:
    """The schema declared for ``media_type``.

    A body with one declared media type has one schema whatever the case calls it (as in the first version of this check);
    with several, a media type the body does not declare leaves the question open (None).
    """
    content = declared["body"]["content"] if declared["body"] else {}
    if media_type in content:
        return content[media_type]["schema"]
    if len(content) == 1:
        return next(iter(content.values()))["schema"]
    return None


def _unexpected(item: dict) -> set[str] | None:
    um = item.get("unexpected_methods")
    return set(um) if um else None


# ---------------------------------------------------------------------------------------------------------------------
# check
# ---------------------------------------------------------------------------------------------------------------------

def _modes(names: list[str]) -> list:
    from schemathesis.generation import GenerationMode

    return [GenerationMode(n) for n in names]


def check_item(item: dict, tier: str) -> Result:
    res = Result()
    if not _STABLE_IDS:
        init_worker()
    common.reset_schemathesis_caches()
    doc, declared = build(item)
    schema = common.load(doc)
    operation = schema[declared["path"]][declared["method"].upper()]
    stable_cache: dict = {}
    if item["level"] == "value":
        _check_values(res, item, tier, doc, declared, operation, stable_cache)
    else:
        _check_cases(res, item, tier, doc, declared, operation, stable_cache)
    return res


def _converted_schema(item: dict, operation: Any) -> dict:
    """The schema exactly as builder._iter_coverage_cases hands it to cover_schema_iter."""
    if item["loc"] == "body":
        bodies = list(operation.body)
        assert len(bodies) == 1
        return bodies[0].as_json_schema(operation, update_quantifiers=False)
    parameters = list(operation.iter_parameters())
    assert len(parameters) == 1
    return parameters[0].as_json_schema(operation, update_quantifiers=False)


def _check_values(res: Result, item: dict, tier: str, doc: dict, declared: dict, operation: Any, stable_cache: dict) -> None:
    from schemathesis.generation.coverage import CoverageContext, cover_schema_iter

    b = BOUNDS[tier]
    spec, loc = item["spec"], item["loc"]
    converted = _converted_schema(item, operation)
    decl_schema = item["schema"]
    exempt_schema = has_author_values(decl_schema)
    judged: dict[str, tuple] = {}
    if item["family"] in ("array_limits", "string_limits", "object_shapes"):
        res.count("items_of_family:" + item["family"])
    for mode_names in MODE_SETS:
        modes = _modes(mode_names)

        def run() -> list:
            ctx = CoverageContext(location=loc, generation_modes=list(modes))
            return list(cover_schema_iter(ctx, copy.deepcopy(converted)))

        valid = 0
        for ex, log, draw_kind in run_tree(run, tier, b["m"], b["d"], res, stable_cache):
            res.evaluations += 1
            res.outcomes.add("execution_" + ex.status)
            if ex.status == "error":
                # a crash of the generator yields no labelled value: not a statement of this property (counted, not judged)
                res.count("generator_raised:" + type(ex.error).__name__)
                continue
            if ex.status != "valid":
                continue
            valid += 1
            res.traces += 1
            if ex.deviations:
                res.count("deviating_executions_judged")
            for gv in ex.value:
                key = f"{mode_names}|{gv.generation_mode.value}|{gv.description}|{_vkey(gv.value)}"
                if key in judged:
                    continue
                judged[key] = ()
                _judge_value(res, item, doc, decl_schema, exempt_schema, mode_names, gv, ex.choices, log, converted, draw_kind)
        if valid == 0:
            res.count("trees_without_valid_execution")


def _judge_value(res: Result, item: dict, doc: dict, decl_schema: dict, exempt_schema: bool, mode_names: list[str], gv: Any,
                 choices: list[int], log: list, converted: dict, draw_kind: str) -> None:
    from schemathesis.generation import GenerationMode

    spec, loc = item["spec"], item["loc"]

    def alarm(signature: dict, det: dict) -> None:
        # "draws_kind": did every cached_draw of this execution answer with Hypothesis' all-simplest example (what the installed
        # Hypothesis tries first) or did at least one answer differ (simplest rejected by a filter, or another legal answer)
        res.violation(signature, {**det, "draws_kind": draw_kind})

    desc = gv.description
    dclass = desc_class(desc)
    label = gv.generation_mode
    res.count("values_judged")
    res.count("desc:" + dclass.split(":")[0][:48])
    detail = {"schema": decl_schema, "converted": converted, "spec": spec, "location": loc, "modes": mode_names, "label": label.value,
              "description": desc, "pointer": gv.location, "value": gv.value, "choices": choices, "draws": log}
    base = {"level": "value", "description": dclass}
    if label not in (GenerationMode.POSITIVE, GenerationMode.NEGATIVE):
        alarm({**base, "kind": "unknown_label"}, detail)
        return
    if label not in _modes(mode_names):
        alarm({**base, "kind": "label_outside_requested_modes", "label": label.value, "modes": "+".join(mode_names)}, detail)
    v = verdict(doc, decl_schema, gv.value, spec=spec)
    if label == GenerationMode.POSITIVE:
        res.count("positive_labels")
        if desc in ("Example value", "Default value") or (exempt_schema and v is not True):
            res.count("exempt_author_values")
            res.outcomes.add("exempt")
            return
        if v is None:
            res.count("undecided_values")
            res.outcomes.add("undecided")
            return
        res.nontriv([decl_schema, spec, loc, mode_names, label.value, desc, _vkey(gv.value)])
        if v is False:
            kws = common.failing_keywords(doc, decl_schema, gv.value, "body", spec)
            res.outcomes.add("positive_violates")
            if satisfiable(doc, decl_schema, spec) is False:
                alarm({"level": "value", "kind": "positive_value_for_unsatisfiable_schema"}, detail)
                return
            lschema, lvalue, ldesc = positive_leaf(doc, decl_schema, gv.value, desc, spec)
            kws = common.failing_keywords(doc, lschema, lvalue, "body", spec)
            if kws == ["oneOf"] and matches_several_oneof_branches(doc, lschema, lvalue, spec):
                alarm({"level": "value", "kind": "positive_value_violates_schema", "cause": "matches_several_oneOf_branches"}, detail)
            else:
                alarm({"level": "value", "kind": "positive_value_violates_schema", "description": desc_class(ldesc), "keywords": kws,
                               **schema_facts(lschema)}, detail)
        else:
            res.outcomes.add("positive_conforms")
        return
    res.count("negative_labels")
    if RX_OBJ.match(desc) or RX_ARR.match(desc):
        res.count("recursive_negative_descriptions")
    if v is None:
        res.count("undecided_values")
        res.outcomes.add("undecided")
        return
    res.nontriv([decl_schema, spec, loc, mode_names, label.value, desc, _vkey(gv.value)])
    lschema, lvalue, ldesc = negative_leaf(doc, decl_schema, gv.value, desc, spec)
    if v is True:
        res.outcomes.add("negative_conforms")
        if accepted_by_sibling_branch(doc, lschema, lvalue, spec):
            alarm({"level": "value", "kind": "negative_value_conforms_to_schema", "cause": "accepted_by_sibling_branch"}, detail)
        else:
            alarm({"level": "value", "kind": "negative_value_conforms_to_schema", "description": desc_class(ldesc),
                           **schema_facts(lschema)}, detail)
        return
    named = violates_named(doc, decl_schema, gv.value, desc, spec)
    if named is None:
        res.count("negative_description_undecided")
        res.outcomes.add("negative_violates_description_undecided")
    elif named:
        res.outcomes.add("negative_violates_as_described")
    else:
        kws = common.failing_keywords(doc, lschema, lvalue, "body", spec)
        res.outcomes.add("negative_violates_differently")
        alarm({"level": "value", "kind": "negative_value_violates_another_keyword", "description": desc_class(ldesc), "violated": kws,
                       **schema_facts(lschema)}, detail)
    if len(res.samples) < 2:
        res.samples.append({"level": "value", "schema": decl_schema, "location": loc, "spec": spec, "modes": mode_names, "label": label.value,
                            "description": desc, "value": gv.value, "choices": choices})


# ---- case level ----------------------------------------------------------------------------------------------------

def _container_verdict(doc: dict, declared: dict, location: str, container: Any, spec: str) -> tuple[bool | None, list[str], str | None]:
    """Validity of the object-of-parameters at ``location`` under string coercion.

    Returns (verdict, reasons, conforming_reading): the last says, for a valid container, whether every wire value conforms
    as the string it is ("wire_string_itself") or whether some value conforms only through a coerced reading.
    """
    params = [p for p in declared["params"] if p["in"] == location]
    container = container or {}
    if not hasattr(container, "items"):
        return None, ["not a mapping"], None
    reasons: list[str] = []
    result: bool | None = True
    conforming = "wire_string_itself"
    names = {p["name"] for p in params}
    for p in params:
        name = p["name"]
        if name not in container:
            if p["required"] or location == "path":
                reasons.append(f"missing:{name}")
                result = False
            continue
        if not isinstance(p["schema"], dict) or "type" not in p["schema"]:
            v = None  # a typeless schema accepts every wire string as a string: the coerced reading is left open
        else:
            v = common.param_verdict(doc, p["schema"], container[name], location, spec)
            if v is True and verdict(doc, p["schema"], container[name], spec=spec) is not True:
                conforming = "coerced_reading"
        if v is False:
            reasons.append(f"invalid:{name}")
            result = False
        elif v is None and result is True:
            result = None
    if result is True and any(k not in names for k in container):
        return None, ["undeclared parameter"], None
    return result, reasons, conforming


def _check_cases(res: Result, item: dict, tier: str, doc: dict, declared: dict, operation: Any, stable_cache: dict) -> None:
    from schemathesis.generation.hypothesis.builder import _iter_coverage_cases

    b = BOUNDS[tier]
    judged: set[str] = set()
    # the mode list is a list whose order must not matter: the small layouts are also run with it written the other way round
    mode_sets = MODE_SETS + ((["negative", "positive"],) if item.get("reversed_modes") else ())
    for mode_names in mode_sets:
        modes = _modes(mode_names)

        def run() -> list:
            return list(_iter_coverage_cases(operation, list(modes), _unexpected(item)))

        for ex, log, draw_kind in run_tree(run, tier, b["m_case"], b["d"], res, stable_cache):
            res.evaluations += 1
            res.outcomes.add("execution_" + ex.status)
            if ex.status == "error":
                res.count("generator_raised:" + type(ex.error).__name__)
                continue
            if ex.status != "valid":
                continue
            res.traces += 1
            if ex.deviations:
                res.count("deviating_executions_judged")
            for index, case in enumerate(ex.value):
                summary = _summary(case)
                key = digest([mode_names, summary])
                if key in judged:
                    continue
                judged.add(key)
                _judge_case(res, item, doc, declared, mode_names, case, summary, index, ex.choices, log, draw_kind)
    if tier == "quick" and item["companion"] != "none":
        return
    _check_attached(res, item, tier, doc, declared, operation, stable_cache)


def _summary(case: Any) -> dict:
    meta = case.meta
    data = meta.phase.data
    return {
        "method": case.method,
        "mode": meta.generation.mode.value,
        "components": {k.value: c.mode.value for k, c in meta.components.items()},
        "description": data.description, "pointer": data.location, "parameter": data.parameter,
        "parameter_location": data.parameter_location,
        **common.summarize_case(case),
    }


def _judge_case(res: Result, item: dict, doc: dict, declared: dict, mode_names: list[str], case: Any, summary: dict, index: int,
                choices: list[int], log: list, draw_kind: str) -> None:
    from schemathesis.core import NOT_SET

    spec = item["spec"]

    def alarm(signature: dict, det: dict) -> None:
        # "draws_kind": did every cached_draw of this execution answer with Hypothesis' all-simplest example (what the installed
        # Hypothesis tries first) or did at least one answer differ (simplest rejected by a filter, or another legal answer)
        res.violation(signature, {**det, "draws_kind": draw_kind})

    desc = summary["description"]
    dclass = desc_class(desc)
    res.count("cases_judged")
    res.count("casedesc:" + dclass.split(":")[0][:48])
    detail = {"item": {k: item[k] for k in ("spec", "loc", "schema", "required", "companion", "body", "methods", "family", "params", "bodies",
                                             "other_methods", "unexpected_methods", "path_level") if k in item},
              "modes": mode_names, "case_index": index, "case": summary, "choices": choices, "draws": log}
    modes_key = "+".join(m for m in ("positive", "negative") if m in mode_names)  # a fact of the set, not of its writing order
    if item.get("params") is not None:
        res.count("layout_cases_judged:" + item["family"].split(":")[0])
        if mode_names == ["negative", "positive"]:
            res.count("cases_judged_with_the_mode_list_reversed")
        if declared["body"] and summary["media_type"] is not None and summary["media_type"] != next(iter(declared["body"]["content"])):
            res.count("cases_of_a_later_media_type")
    mode = summary["mode"]
    components = summary["components"]
    under_test = summary["parameter_location"] or "none"
    under_test_kind = "body" if under_test == "body" else common.CONTAINER.get(under_test)
    base = {"level": "case", "description": dclass, "under_test": under_test}
    # -- (1) the case-level label: NEGATIVE exactly when a part is invalid / required removed / duplicated / unknown method
    reasons = []
    if any(m == "negative" and kind == under_test_kind for kind, m in components.items()):
        reasons.append("component_under_test_negative")
    if any(m == "negative" and kind != under_test_kind for kind, m in components.items()):
        reasons.append("other_component_negative")
    removed = []
    for p in declared["params"]:
        if p["required"] and p["in"] != "path":
            container = summary[common.CONTAINER[p["in"]]]
            if container is None or p["name"] not in container:
                removed.append(p["name"])
    if removed:
        reasons.append("required_parameter_removed")
    described_as_missing = desc.startswith("Missing `")
    if described_as_missing and not removed:
        alarm({**base, "kind": "description_says_missing_but_parameter_present"}, detail)
    named = RX_CASE_MISSING.match(desc)
    if named and removed:
        # "violates it in the way its description says": the parameter the description names is a declared required one of that
        # location and it is the one that is absent (another removed parameter does not make this description true)
        nname, nloc = named.group(1), named.group(2)
        container = summary[common.CONTAINER[nloc]] if nloc in common.CONTAINER else None
        is_required = any(p["name"] == nname and p["in"] == nloc and p["required"] for p in declared["params"])
        res.count("missing_descriptions_checked_by_name")
        if nloc not in common.CONTAINER or not is_required or (container is not None and nname in container):
            alarm({**base, "kind": "description_names_another_parameter_than_the_removed_one"}, detail)
    duplicated = desc.startswith("Duplicate ")
    if duplicated:
        reasons.append("parameter_duplicated")
        name = summary["parameter"]
        value = (summary["query"] or {}).get(name)
        if not (isinstance(value, list) and len(value) == 2 and json_equal(value[0], value[1])):
            alarm({**base, "kind": "description_says_duplicate_but_value_is_not_doubled"}, detail)
        named = RX_CASE_DUPLICATE.match(desc)
        if named and named.group(1) != name:
            value = (summary["query"] or {}).get(named.group(1))
            res.count("duplicate_descriptions_naming_another_parameter")
            if not (isinstance(value, list) and len(value) == 2 and json_equal(value[0], value[1])):
                alarm({**base, "kind": "description_names_another_parameter_than_the_duplicated_one"}, detail)
    unknown_method = case.method.lower() not in declared["methods"]
    if unknown_method:
        reasons.append("unspecified_method")
    if desc.startswith("Unspecified HTTP method") != unknown_method:
        alarm({**base, "kind": "description_disagrees_with_method"}, detail)
    named = RX_CASE_METHOD.match(desc)
    if named:
        res.count("method_descriptions_checked_by_name")
        if _unexpected(item) is not None:
            res.count("unexpected_method_cases_of_a_custom_set")
        if named.group(1).upper() != str(case.method).upper():
            alarm({**base, "kind": "description_names_another_method_than_the_one_used"}, detail)
    if mode not in mode_names:
        alarm({**base, "kind": "case_label_outside_requested_modes", "label": mode, "modes": modes_key}, detail)
    expected_negative = bool(reasons)
    res.nontriv([item["family"], item["loc"], item["spec"], item["required"], item["companion"], item["body"], mode_names, summary])
    label_facts = {"level": "case", "reasons": reasons, "modes": modes_key, "under_test": under_test, "first_case_of_the_run": index == 0,
                   "described_as_missing": described_as_missing}
    if expected_negative and mode != "negative":
        res.outcomes.add("case_label_too_positive")
        alarm({**label_facts, "kind": "case_labelled_positive_but_part_is_negative"}, detail)
    elif not expected_negative and mode != "positive":
        res.outcomes.add("case_label_too_negative")
        alarm({**label_facts, "kind": "case_labelled_negative_without_negative_part", "description": dclass}, detail)
    else:
        res.outcomes.add("case_label_" + mode)
    # -- (2) every component label agrees with the validity of its container
    author = any(has_author_values(p["schema"]) for p in declared["params"]) or has_author_values(declared["body"])
    for kind, label in components.items():
        conforming = None
        sibling = False
        if kind == "body":
            # the body is judged against the schema declared for the media type the case says it has
            bschema = _body_schema(declared, summary["media_type"])
            if declared["body"] is None or case.body is NOT_SET:
                v, why = None, []
            elif bschema is None:
                res.count("body_of_an_undeclared_media_type")
                v, why = None, []
            else:
                v = verdict(doc, bschema, case.body, spec=spec)
                why = [] if v is not False else common.failing_keywords(doc, bschema, case.body, "body", spec)
                if v is True and label == "negative":
                    lschema, lvalue, _ = negative_leaf(doc, bschema, case.body, desc, spec)
                    sibling = accepted_by_sibling_branch(doc, lschema, lvalue, spec)
            location = "body"
        else:
            location = {v: k for k, v in common.CONTAINER.items()}[kind]
            if duplicated and location == "query":
                # the property names duplication as a reason of its own: the doubled container is negative by definition
                res.count("containers_negative_by_duplication")
                continue
            v, why, conforming = _container_verdict(doc, declared, location, summary[kind], spec)
        if v is None:
            res.count("containers_undecided")
            continue
        res.count("containers_judged")
        is_under_test = under_test == location
        # a component that is not under test carries the template (= first generated) values of its parameters
        facts = {"level": "case", "description": dclass if is_under_test else "(template value)",
                 "declared_type": _declared_type(declared, location, summary["parameter"]) if is_under_test else "(template)"}
        if is_under_test:
            leaf = dclass.split(": ")[-1]
            facts["leaf_description"] = leaf
        if label == "negative" and v is True:
            res.outcomes.add("negative_component_valid")
            if conforming is not None:
                facts["conforming_reading"] = conforming
            if sibling:
                facts["cause"] = "accepted_by_sibling_branch"
            alarm({**facts, "kind": "negative_component_but_container_valid"}, detail | {"component": kind})
        elif label == "positive" and v is False:
            if author:
                res.count("exempt_author_values")
                continue
            res.outcomes.add("positive_component_invalid")
            alarm({**facts, "kind": "positive_component_but_container_invalid", "why": sorted(set(r.split(":")[0] for r in why)),
                           "modes": modes_key}, detail | {"component": kind, "why": why})
        else:
            res.outcomes.add("component_" + label + "_agrees")
    if len(res.samples) < 2:
        res.samples.append({"level": "case", "modes": mode_names, "case": summary, "choices": choices})


def _declared_type(declared: dict, location: str, name: Any) -> str:
    if location == "body":
        schema = _body_schema(declared, name)  # body cases name their media type
        if schema is None:
            schema = next(iter(declared["body"]["content"].values()))["schema"] if declared["body"] else {}
    else:
        found = [p["schema"] for p in declared["params"] if p["in"] == location and p["name"] == name]
        if not found:
            return "(several)"
        schema = found[0]
    t = schema.get("type") if isinstance(schema, dict) else None
    return t if isinstance(t, str) else ("none" if t is None else "list")


def _check_attached(res: Result, item: dict, tier: str, doc: dict, declared: dict, operation: Any, stable_cache: dict) -> None:
    """Observation point 3: the cases attached by add_coverage as explicit examples carry the labels _iter_coverage_cases gave."""
    from schemathesis.generation.hypothesis import builder

    mode_names = ["positive", "negative"]
    modes = _modes(mode_names)
    got: dict[str, Any] = {}

    def run() -> Any:
        def test(case: Any) -> None:  # pragma: no cover - never called
            pass

        direct = [_summary(c) for c in builder._iter_coverage_cases(operation, list(modes), _unexpected(item))]
        attached = builder.add_coverage(test, operation, list(modes), None, {}, _unexpected(item))
        examples = list(getattr(attached, "hypothesis_explicit_examples", []))
        got["direct"] = direct
        got["attached"] = [_summary(e.kwargs["case"]) for e in examples]
        return None

    for ex, _log, _kind in run_tree(run, tier, 1, 0, res, stable_cache):
        res.evaluations += 1
        if ex.status != "valid":
            res.count("attached_not_run")
            return
    res.traces += 1
    res.count("attached_cases", len(got["attached"]))
    direct = sorted(digest(s) for s in got["direct"])
    attached = sorted(digest(s) for s in got["attached"])
    if direct != attached:
        res.violation({"level": "attached", "kind": "attached_examples_differ_from_generated_cases"},
                      {"item": item, "direct": len(direct), "attached": len(attached)})
    else:
        res.outcomes.add("attached_equal")


def vacuity(total: Result, tier: str) -> list[str]:
    c = total.counters
    out = []
    need = {
        "draws": "the cached_draw seam was never hit",
        "draws_memoised": "no draw was answered from the per-execution memo",
        "deviating_executions_judged": "no execution with a non-default draw answer was judged",
        "positive_labels": "no POSITIVE value seen",
        "negative_labels": "no NEGATIVE value seen",
        "recursive_negative_descriptions": "no recursive (array items / object property) negative description seen",
        "exempt_author_values": "the example/default exemption was never exercised",
        "cases_judged": "no case judged",
        "containers_judged": "no container judged",
        "attached_cases": "add_coverage attached no case",
        "casedesc:Missing `*` at *": "no 'required parameter removed' case seen",
        "casedesc:Duplicate `*` query parameter": "no 'duplicate parameter' case seen",
        "casedesc:Unspecified HTTP method": "no 'unspecified method' case seen",
        "casedesc:Only required properties": "no parameter-combination case seen",
        # review round 2
        "layout_cases_judged:order": "no case of a written-out parameter layout (order / position / three parameters) judged",
        "layout_cases_judged:samename": "no case of an operation with one parameter name in two locations judged",
        "layout_cases_judged:media": "no case of an operation with several media types judged",
        "layout_cases_judged:methods": "no case of the path-item / unexpected_methods layouts judged",
        "cases_of_a_later_media_type": "no case carrying the second or third media type of a request body seen",
        "cases_judged_with_the_mode_list_reversed": "no case generated with the mode list [negative, positive]",
        "unexpected_method_cases_of_a_custom_set": "no unspecified-method case generated from a custom unexpected_methods set",
        "missing_descriptions_checked_by_name": "no 'Missing `x` at l' description checked against the removed parameter",
        "method_descriptions_checked_by_name": "no 'Unspecified HTTP method: M' description checked against the method used",
        "items_of_family:array_limits": "no array schema with two length limits / nested arrays enumerated",
        "items_of_family:string_limits": "no string schema with minLength == maxLength >= 2 enumerated",
        "items_of_family:object_shapes": "no object schema of the review-round-2 shapes enumerated",
        "desc:Object with all required and a subset of optiona": "no object with three optional properties (subset values) seen",
    }
    for key, msg in need.items():
        if not c.get(key):
            out.append(msg)
    for d in ("Value greater than maximum", "Value smaller than minimum", "String smaller than minLength", "String larger than maxLength",
              "Incorrect type", "Invalid enum value", "Missing required property", "Non-multiple of *", "Non-unique items",
              "Value not matching the '*' pattern", "Value not matching the '*' format", "Object with unexpected properties",
              "Array with invalid items", "Object with invalid '*' value"):
        if not c.get("desc:" + d[:48]):
            out.append(f"negative description never produced: {d}")
    for o in ("positive_conforms", "negative_violates_as_described", "case_label_positive", "case_label_negative",
              "component_positive_agrees", "component_negative_agrees"):
        if o not in total.outcomes:
            out.append(f"outcome class never seen: {o}")
    return out
