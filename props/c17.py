"""C17 - every example in the schema is sent, verbatim, in the examples phase.

E2 enumerates small one-operation documents (placements x counts x values of examples over <=2 parameters and <=2 body
media types, OpenAPI 3.0 / 2.0 / 3.1).  Each document is run through the REAL engine with ``phases=["examples"]`` against
the in-process scripted API (every request logged).  The only nondeterminism of that phase - the fill-in values drawn by
``generate_one`` (Hypothesis) for the parts without an example - is owned by E1: ``generate_one`` is replaced by an
enumerator over the real strategy's choice tree; the default path and every single deviation are executed as separate
engine runs.  The oracle is the independent walker ``oracles/examples_walker.py`` over the RAW document.
"""

from __future__ import annotations

import json
from typing import Any
from urllib.parse import parse_qsl

from mc import c17_extra as extra
from mc import engine
from mc.choicetree import Alphabet, Divergence, Stats, draw_strategy, explore
from mc.runner import Result, digest, jsonable
from oracles import examples_walker as walker
from oracles.jsonschema_mini import json_equal, verdict
from props import common

ID = "C17"
LEVEL = "model_checking"
ENGINES = ["E2", "E1"]
RULE = (
    "work item = one-operation OpenAPI document from a placement grammar: per slot (<=2 parameters in query/header/path/cookie, "
    "<=2 body media types) a number of examples in {0,1,2} given through example / examples.value / examples.$ref / schema.example "
    "/ schema.examples (3.1) / x-example(s) (2.0) / schema-level examples on properties, in anyOf|oneOf|allOf branches, on items, "
    "with values over a small alphabet (0, 1, '', 'x', 'a b&c', objects, unsendable header strings); each document = one real "
    "engine run of the examples phase per fill-in choice path (default path + every single deviation of every generate_one call); "
    "a run is non-trivial when the walker lists >=1 example; distinct = distinct (document, fill-in path). "
    "Review round 2 (families F8-F13, mc/c17_extra.py): the object carrying the examples written at the path-item level / behind a $ref "
    "(parameters, request body) / overriding a shared parameter; two parameters with the same name in different locations; 3 and 4 "
    "examples on a slot, three parameters, 4 parameter examples against 2+1 body examples in both media-type orders; falsy and empty "
    "values (false, null, [], {}, '') and URL-significant parameter values ('a%20b', '50%', 'é?#', 'a;b=c'); Swagger 2.0 formData "
    "x-example(s); example and examples on one object; an externalValue example next to value examples (both orders)"
)
BOUNDS = {
    "quick": {"parameters": 2, "media_types": 2, "examples_per_slot": 2, "fill_in_deviations": 1, "fill_in_chars": ["a", "0"],
              "max_candidates_per_fill_in": 12, "specs": ["3.0", "2.0", "3.1 (schema.examples only)"],
              "round2": {"parameters": 3, "examples_per_slot": 4, "form_data_fields": 2}},
    "thorough": {"parameters": 2, "media_types": 2, "examples_per_slot": 2, "fill_in_deviations": 1, "fill_in_chars": ["a", "0", " ", "/"],
                 "max_candidates_per_fill_in": 16, "specs": ["3.0", "2.0", "3.1"],
                 "round2": {"parameters": 3, "examples_per_slot": 4, "form_data_fields": 2}},
}
BUDGET_S = {"quick": 140, "thorough": 3000}
CHUNK = 4
ASSUMPTIONS = [
    "fill-in nondeterminism is owned through the E1 seam: schemathesis.generation.hypothesis.examples.generate_one (used by add_examples and by "
    "_generate_single_example for required properties) is replaced by an enumerator over the real strategy's choice tree; candidate 0 = first "
    "valid execution in depth-first order (all-default answers when valid), candidates 1.. = the other distinct values with <=1 deviation; "
    "Hypothesis' own search (and its derandomize setting) plays no role in this check",
    "parameters are default-style primitives (integer / string); arrays and objects in query/header/path/cookie (style decoding) are C06's subject",
    "body media types: application/json, application/vnd.v+json, application/x-www-form-urlencoded (objects of primitives), text/plain (strings)",
    "fill-in draws (generate_one) are enumerated over the stated character alphabet with at most one non-default answer per engine run; "
    "several fill-ins deviating in the same run are not explored",
    "engine.phases.unit.WORKER_TIMEOUT (poll interval of the event queue, 0.1 s) is lowered to 5 ms: it only shortens the idle wait at the end of a phase",
    "not walked: externalValue (network), parameter.content, multipart formData, response examples, null / array example values in string-only locations",
    "Swagger 2.0 formData parameters (urlencoded only) are walked by the supplement mc/c17_extra.py: every field is one property of the payload, "
    "its x-example / x-examples.{n}.value must arrive under the field's name; the fields without an example are judged as fill-ins",
    "externalValue: specs.openapi.examples.load_external_example is replaced by a stub that raises requests.ConnectionError (network unreachable, "
    "no socket is ever opened); the externalValue example itself is not judged, its `value` siblings are",
    "an example counts as 'cannot be sent over HTTP' only for header/cookie values with CR, LF, NUL or non-latin-1 characters (judged by own code)",
]
TECHNIQUE = (
    "exhaustive small-scope enumeration of example placements, each executed by the real engine (examples phase) per fill-in choice "
    "path (E1: default + every single deviation of the real strategies behind generate_one), judged against an independent walker of the raw document"
)
LEVEL_TEXT = (
    "Every document of the placement grammar within the bounds is run through the real examples phase; every fill-in choice path with "
    "<=1 deviation is a separate real run; every walker entry must be recovered verbatim from the logged traffic. The property is a "
    "for-all over placements and over the round-robin combination logic - enumeration decides it within the bounds, sampling cannot."
)
LEVEL_NOTE = (
    "Trusted: the walker oracles/examples_walker.py (own code), the in-process HTTP seam, the mini schema evaluator for fill-ins. "
    "Not covered: placements outside the grammar (style-serialised parameters, multipart, the content of externalValue), >1 simultaneous fill-in deviation."
)

JSON = "application/json"
VND = "application/vnd.v+json"
FORM = "application/x-www-form-urlencoded"
TEXT = "text/plain"

# ---------------------------------------------------------------------------------------------------------------------
# E2: the placement grammar

PARAM_PLACEMENTS_3X = {
    # name: number of examples
    "none": 0, "example": 1, "examples1": 1, "ref1": 1, "schema_example": 1, "schema_ref_example": 1,
    "examples2": 2, "ref_value": 2, "ref2": 2, "anyOf2": 2, "oneOf2": 2, "allOf2": 2, "both": 2,
}
PARAM_PLACEMENTS_31 = {"schema_examples1": 1, "schema_examples2": 2}
PARAM_PLACEMENTS_20 = {"none": 0, "x-example": 1, "x-examples1": 1, "x-examples2": 2}
# review round 2 (families F8-F13, enumerated in mc/c17_extra.py)
PARAM_PLACEMENTS_EXTRA_3X = {"examples3": 3, "examples4": 4, "anyOf3": 3, "example_and_examples": 2, "external_first": 1, "external_last": 1}
PARAM_PLACEMENTS_EXTRA_20 = {"x-examples3": 3, "x_both": 2}
BODY_PLACEMENTS_EXTRA = {"examples3": 3, "example_and_examples": 2, "x_both": 2, "external_first": 1, "external_last": 1}
EXTERNAL_URL = "http://verif.invalid/example"  # never fetched: see init_worker

BODY_PLACEMENTS_3X = {
    "none": 0, "example": 1, "examples1": 1, "ref1": 1, "schema_example": 1, "prop1": 1, "prop1_req": 1, "items": 1, "items_prop": 1,
    "prop_prop": 1, "prop_items": 1, "ref_prop1": 1, "prop_ref": 1, "prop_allOf_req2": 1, "prop_allOf_req3": 1, "items_allOf_req2": 1,
    "examples2": 2, "ref_value": 2, "ref2": 2, "both": 2, "anyOf2": 2, "oneOf2": 2, "allOf2": 2, "prop1_1": 2, "prop2": 2,
    "prop_in_anyOf": 2, "prop_in_oneOf": 2, "prop_in_allOf": 2,
    "prop2_1": 3, "prop2_1_req": 3,
}
BODY_PLACEMENTS_31 = {"schema_examples1": 1, "schema_examples2": 2, "prop_examples2_1": 3}
BODY_PLACEMENTS_20 = {
    "none": 0, "x-example": 1, "x-examples1": 1, "schema_example": 1, "prop1": 1, "prop1_req": 1, "items": 1, "prop_prop": 1, "ref_prop1": 1, "prop_allOf_req2": 1,
    "x-examples2": 2, "x_and_schema": 2, "allOf2": 2, "prop1_1": 2, "prop_in_allOf": 2, "prop2_1_req": 3,
}
FORM_PLACEMENTS = {"none": 0, "example": 1, "prop1": 1, "prop1_req": 1, "examples2": 2, "prop1_1": 2}
TEXT_PLACEMENTS = {"none": 0, "example": 1, "schema_example": 1, "examples2": 2}

# (type, v1, v2) for parameters
PVALS = {
    "i01": ("integer", 0, 1), "i10": ("integer", 1, 0), "s_amp": ("string", "a b&c", ""), "s_empty": ("string", "", "x"),
    "s_x": ("string", "x", "a b&c"), "s_int": ("string", 0, "x"),
    "b_ft": ("boolean", False, True), "b_tf": ("boolean", True, False),
    "s_pct": ("string", "a%20b", "50%"), "s_url": ("string", "é?#", "a;b=c"),
    "h_nl": ("string", "a\nb", "x"), "h_uni": ("string", "é€", "x"), "h_x_nl": ("string", "x", "a\nb"),
}
# third and fourth example value of a parameter (placements examples3 / examples4 / anyOf3 / x-examples3)
PVALS_MORE = {"integer": [2, 3], "string": ["y", "z z"], "boolean": [True, False]}
# whole-body values (v1, v2; whole3 = third value for examples3) and property-level values (p1, p2, p3)
BVALS = {
    "obj": {"whole": [{"k": 0}, {"k": 1}], "prop": [1, "x", "a b&c"], "ptype": "integer", "whole3": {"k": 2}},
    "mixed": {"whole": [0, "a b&c"], "prop": [0, "", "x"], "ptype": "integer", "whole3": 1},
    "str": {"whole": ["", {"k": {"j": "a b&c"}}], "prop": ["a b&c", 0, 1], "ptype": "string", "whole3": "x"},
    # falsy / empty values (review round 2)
    "falsy": {"whole": [None, []], "prop": [False, None, []], "ptype": "boolean", "whole3": False},
    "falsy2": {"whole": [{}, ""], "prop": [None, {}, ""], "ptype": "string", "whole3": 0},
}
FORM_VALS = {"whole": [{"k": 0}, {"k": "a b&c"}], "prop": [1, "x", "a b&c"], "ptype": "integer", "whole3": {"k": 1}}
TEXT_VALS = {"whole": ["a b&c", "x"], "prop": [], "ptype": "string", "whole3": "y"}

PNAMES = {"query": "q", "header": "X-P", "path": "p", "cookie": "c"}


def _other(typ: str) -> str:
    return "string" if typ == "integer" else "integer"


def param_object(spec: str, idx: int, p: dict, components: dict) -> dict:
    """Build one Parameter Object from its description {loc, required, placement, vals}."""
    loc, placement = p["loc"], p["placement"]
    typ, v1, v2 = PVALS[p["vals"]]
    name = p.get("name") or f"{PNAMES[loc]}{idx}"
    v3, v4 = PVALS_MORE[typ]
    out: dict[str, Any] = {"name": name, "in": loc, "required": bool(p["required"]) or loc == "path"}
    if spec == "2.0":
        out["type"] = typ
        if placement == "x-examples3":
            out["x-examples"] = {"e1": {"value": v1}, "e2": {"value": v2}, "e3": {"value": v3}}
        elif placement == "x_both":
            out["x-example"] = v1
            out["x-examples"] = {"e1": {"value": v2}}
        elif placement == "x-example":
            out["x-example"] = v1
        elif placement == "x-examples1":
            out["x-examples"] = {"e1": {"value": v1}}
        elif placement == "x-examples2":
            out["x-examples"] = {"e1": {"value": v1}, "e2": {"value": v2}}
        elif placement != "none":
            raise ValueError(placement)
        return out
    schema: dict[str, Any] = {"type": typ}
    ex = components.setdefault("examples", {})
    r1, r2 = f"P{idx}E1", f"P{idx}E2"
    if placement == "none":
        pass
    elif placement == "example":
        out["example"] = v1
    elif placement == "examples1":
        out["examples"] = {"e1": {"value": v1}}
    elif placement == "examples2":
        out["examples"] = {"e1": {"value": v1}, "e2": {"value": v2}}
    elif placement == "ref1":
        ex[r1] = {"value": v1}
        out["examples"] = {"e1": {"$ref": f"#/components/examples/{r1}"}}
    elif placement == "ref_value":
        ex[r1] = {"value": v1}
        out["examples"] = {"e1": {"$ref": f"#/components/examples/{r1}"}, "e2": {"value": v2}}
    elif placement == "ref2":
        ex[r1] = {"value": v1}
        ex[r2] = {"summary": "second", "value": v2}
        out["examples"] = {"e1": {"$ref": f"#/components/examples/{r1}"}, "e2": {"$ref": f"#/components/examples/{r2}"}}
    elif placement == "schema_example":
        schema["example"] = v1
    elif placement == "schema_ref_example":
        components.setdefault("schemas", {})[f"P{idx}S"] = {"type": typ, "example": v1}
        schema = {"$ref": f"#/components/schemas/P{idx}S"}
    elif placement == "schema_examples1":
        schema["examples"] = [v1]
    elif placement == "schema_examples2":
        schema["examples"] = [v1, v2]
    elif placement in ("anyOf2", "oneOf2"):
        schema = {placement[:-1]: [{"type": typ, "example": v1}, {"type": _other(typ), "example": v2}]}
    elif placement == "allOf2":
        schema = {"allOf": [{"type": typ, "example": v1}, {"description": "d", "example": v2}]}
    elif placement == "both":
        out["example"] = v1
        schema["example"] = v2
    elif placement == "examples3":
        out["examples"] = {"e1": {"value": v1}, "e2": {"value": v2}, "e3": {"value": v3}}
    elif placement == "examples4":
        out["examples"] = {"e1": {"value": v1}, "e2": {"value": v2}, "e3": {"value": v3}, "e4": {"value": v4}}
    elif placement == "anyOf3":
        schema = {"anyOf": [{"type": typ, "example": v1}, {"type": _other(typ), "example": v2}, {"type": typ, "example": v3}]}
    elif placement == "example_and_examples":
        out["example"] = v1
        out["examples"] = {"e1": {"value": v2}}
    elif placement == "external_first":
        out["examples"] = {"e0": {"externalValue": EXTERNAL_URL}, "e1": {"value": v1}}
    elif placement == "external_last":
        out["examples"] = {"e1": {"value": v1}, "e0": {"externalValue": EXTERNAL_URL}}
    else:
        raise ValueError(placement)
    out["schema"] = schema
    return out


def body_media(spec: str, idx: int, b: dict, components: dict) -> dict:
    """Build one Media Type Object (3.x) / the pieces of a body parameter (2.0: keys schema + x-example(s))."""
    mt, placement = b["mt"], b["placement"]
    vals = FORM_VALS if mt == FORM else TEXT_VALS if mt == TEXT else BVALS[b["vals"]]
    w1, w2 = vals["whole"]
    pv = vals["prop"]
    pt = vals["ptype"]
    whole_schema: dict[str, Any] = {"type": "string"} if mt == TEXT else {"type": "object", "properties": {"k": {"type": "integer"}}}
    base_obj = {"type": "object", "properties": {"a": {"type": pt}, "r": {"type": "string"}}, "required": ["r"]}
    media: dict[str, Any] = {}
    ex = components.setdefault("examples", {})
    schemas = components.setdefault("schemas", {})
    sprefix = "#/definitions/" if spec == "2.0" else "#/components/schemas/"
    r1, r2 = f"B{idx}E1", f"B{idx}E2"

    def prop(v: Any, t: str | None = None) -> dict:
        return {"type": t or pt, "example": v}

    if placement == "none":
        media["schema"] = {"type": "string", "minLength": 1} if mt == TEXT else base_obj
    elif placement in ("example", "x-example"):
        media["schema"] = whole_schema
        media[placement] = w1
    elif placement in ("examples1", "x-examples1"):
        media["schema"] = whole_schema
        media[placement[:-1]] = {"e1": {"value": w1}}
    elif placement in ("examples2", "x-examples2"):
        media["schema"] = whole_schema
        media[placement[:-1]] = {"e1": {"value": w1}, "e2": {"value": w2}}
    elif placement == "ref1":
        media["schema"] = whole_schema
        ex[r1] = {"value": w1}
        media["examples"] = {"e1": {"$ref": f"#/components/examples/{r1}"}}
    elif placement == "ref_value":
        media["schema"] = whole_schema
        ex[r1] = {"value": w1}
        media["examples"] = {"e1": {"$ref": f"#/components/examples/{r1}"}, "e2": {"value": w2}}
    elif placement == "ref2":
        media["schema"] = whole_schema
        ex[r1] = {"value": w1}
        ex[r2] = {"value": w2}
        media["examples"] = {"e1": {"$ref": f"#/components/examples/{r1}"}, "e2": {"$ref": f"#/components/examples/{r2}"}}
    elif placement == "schema_example":
        media["schema"] = {**whole_schema, "example": w1}
    elif placement == "schema_examples1":
        media["schema"] = {**whole_schema, "examples": [w1]}
    elif placement == "schema_examples2":
        media["schema"] = {**whole_schema, "examples": [w1, w2]}
    elif placement == "both":
        media["schema"] = {**whole_schema, "example": w2}
        media["example"] = w1
    elif placement == "x_and_schema":
        media["schema"] = {**whole_schema, "example": w2}
        media["x-example"] = w1
    elif placement == "examples3":
        media["schema"] = whole_schema
        media["examples"] = {"e1": {"value": w1}, "e2": {"value": w2}, "e3": {"value": vals["whole3"]}}
    elif placement == "example_and_examples":
        media["schema"] = whole_schema
        media["example"] = w1
        media["examples"] = {"e1": {"value": w2}}
    elif placement == "x_both":
        media["schema"] = whole_schema
        media["x-example"] = w1
        media["x-examples"] = {"e1": {"value": w2}}
    elif placement == "external_first":
        media["schema"] = whole_schema
        media["examples"] = {"e0": {"externalValue": EXTERNAL_URL}, "e1": {"value": w1}}
    elif placement == "external_last":
        media["schema"] = whole_schema
        media["examples"] = {"e1": {"value": w1}, "e0": {"externalValue": EXTERNAL_URL}}
    elif placement == "prop1":
        media["schema"] = {"type": "object", "properties": {"a": prop(pv[0])}}
    elif placement == "prop1_req":
        media["schema"] = {"type": "object", "properties": {"a": prop(pv[0]), "r": {"type": "integer"}, "o": {"type": "string"}}, "required": ["r"]}
    elif placement == "prop1_1":
        media["schema"] = {"type": "object", "properties": {"a": prop(pv[0]), "b": prop(pv[1], "string")}}
    elif placement == "prop2":
        media["schema"] = {"type": "object", "properties": {"a": {"anyOf": [prop(pv[0]), prop(pv[1], _other(pt))]}}}
    elif placement in ("prop2_1", "prop2_1_req"):
        a = {"anyOf": [prop(pv[0]), prop(pv[1], _other(pt))]} if spec != "2.0" else {"allOf": [prop(pv[0]), {"description": "d", "example": pv[1]}]}
        s: dict[str, Any] = {"type": "object", "properties": {"a": a, "b": prop(pv[2], "string")}}
        if placement.endswith("_req"):
            s["properties"]["r"] = {"type": "integer"}
            s["required"] = ["r"]
        media["schema"] = s
    elif placement == "prop_examples2_1":
        media["schema"] = {"type": "object", "properties": {"a": {"type": pt, "examples": [pv[0], pv[1]]}, "b": {"type": "string", "examples": [pv[2]]}}}
    elif placement in ("anyOf2", "oneOf2"):
        media["schema"] = {placement[:-1]: [{**whole_schema, "example": w1}, {"type": "integer", "example": w2}]}
    elif placement == "allOf2":
        media["schema"] = {"allOf": [{**whole_schema, "example": w1}, {"properties": {"j": {"type": "string"}}, "example": w2}]}
    elif placement == "items":
        media["schema"] = {"type": "array", "items": prop(pv[0])}
    elif placement == "items_prop":
        media["schema"] = {"type": "array", "items": {"type": "object", "properties": {"a": prop(pv[0])}}}
    elif placement == "prop_prop":
        media["schema"] = {"type": "object", "properties": {"n": {"type": "object", "properties": {"a": prop(pv[0])}}}}
    elif placement == "prop_items":
        media["schema"] = {"type": "object", "properties": {"l": {"type": "array", "items": prop(pv[0])}}}
    elif placement in ("prop_in_anyOf", "prop_in_oneOf", "prop_in_allOf"):
        comb = placement[len("prop_in_"):]
        media["schema"] = {comb: [{"type": "object", "properties": {"a": prop(pv[0])}}, {"type": "object", "properties": {"b": prop(pv[1], "string")}}]}
    elif placement in ("prop_allOf_req2", "prop_allOf_req3", "items_allOf_req2"):
        # an example on a property of an allOf-composed object whose *other* branches declare required properties
        # without examples: the fill-in must still honour every branch's `required`
        branches = [{"type": "object", "properties": {"a": prop(pv[0])}, "required": ["a"]},
                    {"type": "object", "properties": {"r": {"type": "integer"}}, "required": ["r"]}]
        if placement == "prop_allOf_req3":
            branches.append({"type": "object", "properties": {"s": {"type": "string", "maxLength": 2}}, "required": ["s"]})
        composed = {"allOf": branches}
        if placement == "items_allOf_req2":
            media["schema"] = {"type": "array", "items": composed, "minItems": 1}
        else:
            media["schema"] = {"type": "object", "properties": {"n": composed}, "required": ["n"]}
    elif placement == "ref_prop1":
        schemas[f"B{idx}S"] = {"type": "object", "properties": {"a": prop(pv[0])}}
        media["schema"] = {"$ref": f"{sprefix}B{idx}S"}
    elif placement == "prop_ref":
        schemas[f"B{idx}A"] = prop(pv[0])
        media["schema"] = {"type": "object", "properties": {"a": {"$ref": f"{sprefix}B{idx}A"}}}
    else:
        raise ValueError(placement)
    return media


def build(item: dict) -> dict:
    spec = item["spec"]
    two = spec == "2.0"
    components: dict[str, Any] = {}
    pref = "#/parameters/" if two else "#/components/parameters/"
    op_params: list[dict] = []
    shared_params: list[dict] = []  # written at the path-item level
    named_params: dict[str, dict] = {}  # written under components.parameters (2.0: #/parameters) and referenced
    path_names: list[str] = []
    form = [{**f, "loc": "formData"} for f in item.get("form") or []]
    for i, p in enumerate(list(item["params"]) + form):
        obj = param_object(spec, i + 1, p, components)
        if obj["in"] == "path":
            path_names.append(obj["name"])
        at = p.get("at", "op")
        if at == "overriding":
            # a shared parameter with the same (name, in) and another example: the operation-level one replaces it
            shadow = {k: v for k, v in obj.items() if k not in ("example", "examples", "x-example", "x-examples")}
            shadow["x-example" if two else "example"] = "shadowed" if PVALS[p["vals"]][0] == "string" else 9
            shared_params.append(shadow)
        if at in ("ref", "shared_ref"):
            named_params[f"P{i + 1}"] = obj
            obj = {"$ref": f"{pref}P{i + 1}"}
        (shared_params if at in ("shared", "shared_ref") else op_params).append(obj)
    path = "/t" + "".join("/{%s}" % name for name in path_names)
    op: dict[str, Any] = {"responses": {"200": {"description": "OK"}}}
    bodies = item["bodies"]
    body_at = item.get("body_at", "inline")
    method = "post" if bodies or form else "get"
    if two:
        if bodies:
            media = body_media(spec, 1, bodies[0], components)
            bp = {"name": "body", "in": "body", "required": bool(item.get("body_required")), **media}
            if body_at == "shared":
                shared_params.append(bp)
            elif body_at == "ref":
                named_params["B"] = bp
                op_params.append({"$ref": f"{pref}B"})
            else:
                op_params.append(bp)
            op["consumes"] = [b["mt"] for b in bodies]
        elif form:
            op["consumes"] = [FORM]
        op["parameters"] = op_params
        doc: dict[str, Any] = {"swagger": "2.0", "info": {"title": "t", "version": "1"}, "paths": {path: {method: op}}}
        if components.get("schemas"):
            doc["definitions"] = components["schemas"]
        if named_params:
            doc["parameters"] = named_params
    else:
        op["parameters"] = op_params
        if bodies:
            rb = {"required": bool(item.get("body_required")),
                  "content": {b["mt"]: body_media(spec, i + 1, b, components) for i, b in enumerate(bodies)}}
            if body_at == "ref":
                components["requestBodies"] = {"B": rb}
                rb = {"$ref": "#/components/requestBodies/B"}
            op["requestBody"] = rb
        doc = {"openapi": "3.0.2" if spec == "3.0" else "3.1.0", "info": {"title": "t", "version": "1"}, "paths": {path: {method: op}}}
        if named_params:
            components["parameters"] = named_params
        comp = {k: v for k, v in components.items() if v}
        if comp:
            doc["components"] = comp
    if shared_params:
        doc["paths"][path]["parameters"] = shared_params
    if item.get("decoy"):
        decoy_param = {"name": "d", "in": "query", "required": True}
        decoy_param.update({"type": "integer"} if spec == "2.0" else {"schema": {"type": "integer"}})
        doc["paths"]["/other"] = {"get": {"parameters": [decoy_param], "responses": {"200": {"description": "OK"}}}}
    return doc


def _p(loc: str, placement: str, vals: str, required: bool = False) -> dict:
    return {"loc": loc, "placement": placement, "vals": vals, "required": required}


def _b(mt: str, placement: str, vals: str = "obj") -> dict:
    return {"mt": mt, "placement": placement, "vals": vals}


def items(tier: str, seed: int) -> list[dict]:
    thorough = tier == "thorough"
    out: list[dict] = []
    seen: set[str] = set()

    def add(family: str, spec: str, params: list[dict], bodies: list[dict], body_required: bool = False, decoy: bool = False,
            more: dict | None = None) -> None:
        # unsendable header values only make sense in headers; "" / "/" cannot be a path segment
        for p in params:
            typ, v1, v2 = PVALS[p["vals"]]
            if p["vals"].startswith("h_") and p["loc"] != "header":
                return
            if p["loc"] == "path" and any(v == "" for v in (v1, v2)):
                return
            if spec == "2.0" and p["loc"] == "cookie":
                return
        item = {"family": family, "spec": spec, "params": params, "bodies": bodies, "body_required": body_required, "decoy": decoy}
        item.update(more or {})  # review round 2: form / body_at (absent in the items of F1-F7)
        key = digest(item)
        if key not in seen:
            seen.add(key)
            out.append(item)

    locs = ["query", "header", "path", "cookie"]
    specs3 = ["3.0", "3.1"] if thorough else ["3.0"]
    pvals_main = ["i01", "s_amp", "s_empty", "s_x", "i10", "s_int"] if thorough else ["i01", "s_amp", "s_empty", "s_x"]

    # F1: one parameter, every placement
    for spec in specs3:
        placements = dict(PARAM_PLACEMENTS_3X)
        if spec == "3.1":
            placements.update(PARAM_PLACEMENTS_31)
        for loc in locs:
            for placement in placements:
                for vals in pvals_main + (["h_nl", "h_uni", "h_x_nl"] if loc == "header" else []):
                    if vals.startswith("h_") and not thorough and placement not in ("example", "examples2", "schema_example", "anyOf2"):
                        continue
                    for required in ([True] if loc == "path" or placement != "none" and not thorough else [True, False]):
                        add("one_param", spec, [_p(loc, placement, vals, required)], [])
    if not thorough:
        for loc in ("query", "header"):
            for placement in PARAM_PLACEMENTS_31:
                for vals in ("i01", "s_amp"):
                    add("one_param", "3.1", [_p(loc, placement, vals, True)], [])
    for loc in ("query", "header", "path"):
        for placement in PARAM_PLACEMENTS_20:
            for vals in pvals_main:
                for required in ([True] if loc == "path" else [True, False]):
                    add("one_param", "2.0", [_p(loc, placement, vals, required)], [])

    # F2: two parameters, numbers of examples (c1, c2) in {0,1,2}^2 through representative placements
    reps3 = {0: ["none"], 1: ["example", "ref1", "schema_example"] if thorough else ["example", "schema_example"],
             2: ["examples2", "ref_value", "anyOf2"] if thorough else ["examples2", "anyOf2"]}
    reps2 = {0: ["none"], 1: ["x-example"], 2: ["x-examples2"]}
    loc_pairs = [("query", "query"), ("query", "header"), ("path", "query"), ("header", "cookie"), ("header", "header"), ("cookie", "query")]
    if thorough:
        loc_pairs += [("path", "path"), ("cookie", "cookie"), ("path", "header")]
    for spec in specs3 + ["2.0"]:
        reps = reps2 if spec == "2.0" else reps3
        for l1, l2 in loc_pairs:
            for c1 in (0, 1, 2):
                for c2 in (0, 1, 2):
                    for pl1 in reps[c1]:
                        for pl2 in reps[c2]:
                            reqs = [(True, True), (False, True), (True, False)] if 0 in (c1, c2) else [(True, False)]
                            for r1, r2 in reqs:
                                for v1, v2 in ([("s_x", "i10"), ("i01", "s_amp")] if thorough else [("s_x", "i10")]):
                                    add("two_params", spec, [_p(l1, pl1, v1, r1), _p(l2, pl2, v2, r2)], [])
    # an unsendable header example next to a sendable example of another parameter
    for pl in ("example", "examples2"):
        for vals in ("h_nl", "h_uni", "h_x_nl"):
            add("two_params", "3.0", [_p("header", pl, vals, True), _p("query", "example", "i10", True)], [])

    # F3: one body media type, every placement
    for spec in specs3:
        placements = dict(BODY_PLACEMENTS_3X)
        if spec == "3.1":
            placements.update(BODY_PLACEMENTS_31)
        for placement in placements:
            for vals in (["obj", "mixed", "str"] if thorough else ["obj", "mixed"]):
                for required in (True, False):
                    add("one_body", spec, [], [_b(JSON, placement, vals)], required)
        for placement in FORM_PLACEMENTS:
            add("one_body", spec, [], [_b(FORM, placement)], True)
        for placement in TEXT_PLACEMENTS:
            add("one_body", spec, [], [_b(TEXT, placement)], True)
        for placement in ("example", "examples2", "prop2_1_req"):
            add("one_body", spec, [], [_b(VND, placement)], True)
    if not thorough:
        for placement in BODY_PLACEMENTS_31:
            add("one_body", "3.1", [], [_b(JSON, placement, "obj")], True)
    for placement in BODY_PLACEMENTS_20:
        for vals in ("obj", "mixed"):
            for required in (True, False):
                add("one_body", "2.0", [], [_b(JSON, placement, vals)], required)

    # F4: two media types, (c1, c2) through representative placements
    breps = {0: ["none"], 1: ["example", "prop1_req"], 2: ["examples2", "prop_in_anyOf"], 3: ["prop2_1"]}
    for spec in specs3:
        for c1 in (0, 1, 2, 3):
            for c2 in (0, 1, 2):
                for pl1 in breps[c1]:
                    for mt2, table in ((VND, breps), (FORM, {0: ["none"], 1: ["example"], 2: ["examples2"]}), (TEXT, {0: ["none"], 1: ["example"], 2: ["examples2"]})):
                        for pl2 in table[c2]:
                            for required in ((True, False) if c1 == 0 and c2 == 0 else (True,)):
                                add("two_bodies", spec, [], [_b(JSON, pl1, "obj"), _b(mt2, pl2, "mixed")], required)
    for pl in ("none", "x-example", "x-examples2", "prop1_req"):
        add("two_bodies", "2.0", [], [_b(JSON, pl, "obj"), _b(VND, "none")], True)

    # F5: parameter x body
    for spec in specs3 + ["2.0"]:
        preps = ["none", "x-example", "x-examples2"] if spec == "2.0" else ["none", "example", "examples2", "ref_value", "schema_example"]
        bodyreps = (["none", "x-example", "x-examples2", "prop1_req", "prop2_1_req", "allOf2"] if spec == "2.0"
                    else ["none", "example", "examples2", "prop1_req", "prop2_1", "anyOf2", "items", "ref2"])
        for loc in ("query", "header", "path"):
            for pl in preps:
                for bpl in bodyreps:
                    for preq, breq in ([(True, True)] if not thorough else [(True, True), (False, False)]):
                        add("param_body", spec, [_p(loc, pl, "s_x" if loc != "query" else "i10", preq)], [_b(JSON, bpl, "obj")], breq)

    # F6: two parameters x two media types, counts {0,1,2}^4
    one = {0: "none", 1: "example", 2: "examples2"}
    for spec in specs3:
        for c1 in (0, 1, 2):
            for c2 in (0, 1, 2):
                for c3 in (0, 1, 2):
                    for c4 in (0, 1, 2):
                        add("two_params_two_bodies", spec, [_p("query", one[c1], "s_x", True), _p("header", one[c2], "i10", c2 == 0)],
                            [_b(JSON, one[c3], "obj"), _b(VND, one[c4], "mixed")], True)

    # F7: an operation with examples next to an operation without any (must stay silent and be reported as skipped)
    for spec in ("3.0", "2.0"):
        for pl in (["none", "x-example", "x-examples2"] if spec == "2.0" else ["none", "example", "examples2", "anyOf2"]):
            add("decoy", spec, [_p("query", pl, "i10", True)], [], decoy=True)
        add("decoy", spec, [], [_b(JSON, "prop1_req", "obj")], True, decoy=True)

    # F8-F13 (review round 2): indirection, same name in two locations, 3-4 examples / three parameters, falsy and URL-significant
    # values, Swagger 2.0 formData, example+examples / externalValue siblings - enumerated in mc/c17_extra.py
    for it in extra.extra_items(tier):
        add(it["family"], it["spec"], it["params"], it["bodies"], it["body_required"], more=it["extra"])
    return out


# ---------------------------------------------------------------------------------------------------------------------
# E1: owning the fill-in draws

class Plan:
    """One engine run: which candidate every generate_one call takes (all 0 = default path; one deviation at most)."""

    def __init__(self, deviation: tuple[int, int] | None, tier: str) -> None:
        self.deviation = deviation
        self.tier = tier
        self.counts: list[int] = []
        self.kinds: list[str] = []
        self.nodes = 0
        self.edges = 0
        self.executions = 0
        self.unresolved = 0
        self.capped = False
        self.exhausted_all = True


_PLAN: list[Plan | None] = [None]


def _alphabet(tier: str) -> Alphabet:
    return Alphabet(chars=list(BOUNDS[tier]["fill_in_chars"]), max_extra_len=1, small_range=4)


def _value_key(value: Any) -> str:
    if hasattr(value, "path_parameters") and hasattr(value, "media_type"):
        return "case:" + digest(jsonable(common.summarize_case(value)))
    return "value:" + digest(jsonable(value))


def e1_generate_one(strategy: Any) -> Any:
    """Replacement of schemathesis.generation.hypothesis.examples.generate_one: no PRNG, candidates from the real strategy's choice tree."""
    import hypothesis.errors

    plan = _PLAN[0]
    assert plan is not None, "generate_one called outside a planned engine run"
    idx = len(plan.counts)
    want = plan.deviation[1] if plan.deviation is not None and plan.deviation[0] == idx else 0
    full = plan.deviation is None
    limit = BOUNDS[plan.tier]["max_candidates_per_fill_in"]
    cands: list[tuple[str, Any]] = []
    keys: set[str] = set()
    exhausted = False
    for max_dev in (1, 2, 3):
        stats = Stats()
        for ex in explore(draw_strategy(strategy), _alphabet(plan.tier), max_dev, max_executions=300, stats=stats):
            plan.executions += 1
            if ex.status == "valid":
                key = _value_key(ex.value)
                if key not in keys:
                    keys.add(key)
                    cands.append(("value", ex.value))
            elif ex.status == "error":
                key = "error:" + type(ex.error).__name__ + ":" + str(ex.error)[:80]
                if key not in keys:
                    keys.add(key)
                    cands.append(("error", ex.error))
            if len(cands) >= limit:
                plan.capped = True
                break
            if not full and len(cands) > want:
                break
        plan.nodes += stats.nodes
        plan.edges += stats.edges
        exhausted = stats.exhausted
        if cands or exhausted:
            break
    if full and not exhausted:
        plan.exhausted_all = False
    if not cands:
        plan.counts.append(0)
        plan.kinds.append("unsatisfiable" if exhausted else "unresolved")
        if not exhausted:
            plan.unresolved += 1
        raise hypothesis.errors.Unsatisfiable("no valid draw in the explored choice tree")
    if want >= len(cands):
        raise Divergence(f"generate_one call {idx}: candidate {want} requested, {len(cands)} available")
    plan.counts.append(len(cands))
    kind, payload = cands[want]
    plan.kinds.append(kind)
    if kind == "error":
        raise payload
    return payload


_EXTERNAL_FETCHES: list[str] = []


def no_network_external_example(url: str) -> bytes:
    """Replacement of specs.openapi.examples.load_external_example: the network is unreachable (never a socket)."""
    import requests

    _EXTERNAL_FETCHES.append(url)
    raise requests.ConnectionError(f"no network in this check: {url}")


def init_worker() -> None:
    import schemathesis.engine.phases.unit as unit
    import schemathesis.specs.openapi.examples as oexamples
    from schemathesis.generation.hypothesis import examples as hexamples

    hexamples.generate_one = e1_generate_one
    oexamples.load_external_example = no_network_external_example
    unit.WORKER_TIMEOUT = 0.005


def execute(doc: dict, plan: Plan) -> Any:
    from schemathesis.generation.hypothesis import examples as hexamples

    if hexamples.generate_one is not e1_generate_one:
        init_worker()
    common.reset_schemathesis_caches()
    _PLAN[0] = plan
    try:
        schema = engine.load_schema(doc)
        config = engine.make_config(phases=["examples"], workers=1)
        return engine.run_engine(schema, config)
    finally:
        _PLAN[0] = None


# ---------------------------------------------------------------------------------------------------------------------
# oracle

def value_class(v: Any) -> str:
    if isinstance(v, bool):
        return "bool"
    if v is None:
        return "null"
    if isinstance(v, int):
        return "int0" if v == 0 else "int"
    if isinstance(v, str):
        if v == "":
            return "str_empty"
        if any(c in v for c in "\r\n\x00"):
            return "str_ctl"
        try:
            v.encode("latin-1")
        except UnicodeEncodeError:
            return "str_non_latin1"
        return "str_special" if any(c in v for c in " &") else "str"
    if isinstance(v, dict):
        return "object"
    if isinstance(v, list):
        return "array"
    return type(v).__name__


def ptr_shape(ptr: list) -> str:
    return ".".join(step[0] for step in ptr)


def nesting_facts(source: str) -> dict:
    """Where below the slot's schema the example sits, from the walker's keyword chain: e.g. ``schema.anyOf.property.example``
    -> nesting "branch.property", combinator "anyOf".  Parameter / media-type level examples have nesting "" ."""
    parts = source.split(".")
    if not parts[0].startswith("schema"):
        return {"nesting": "", "combinator": None, "on_items_schema": False}
    chain = [p.replace("($ref)", "") for p in parts[1:-1]]
    combs = [p for p in chain if p in ("anyOf", "oneOf", "allOf")]
    shape = ["branch" if p in ("anyOf", "oneOf", "allOf") else p for p in chain]
    return {"nesting": ".".join(shape), "combinator": combs[0] if combs else None, "on_items_schema": bool(shape) and shape[-1] == "items"}


def sendable(entry: dict) -> bool | None:
    """Can the example travel over HTTP in its slot at all?  None = the texts leave it open (never judged)."""
    v = entry["value"]
    if entry["kind"] == "body":
        mt = entry["media_type"]
        if mt == FORM:
            return True if isinstance(v, dict) and not entry["ptr"] and all(walker.wire_strings(x) is not None for x in v.values()) \
                else (True if entry["ptr"] and walker.wire_strings(v) is not None else None)
        if mt == TEXT:
            return True if isinstance(v, str) and not entry["ptr"] else None
        return True
    if entry["ptr"]:
        return None
    ws = walker.wire_strings(v)
    if ws is None:
        return None
    s = ws[0]
    loc = entry["in"]
    if loc in ("header", "cookie"):
        if any(c in s for c in "\r\n\x00"):
            return False
        try:
            s.encode("latin-1")
        except UnicodeEncodeError:
            return False
        if s != s.strip() or (loc == "cookie" and any(c in s for c in ';,"')):
            return None
        return True
    if loc == "path":
        if s in ("", ".", "..") or "/" in s or "+" in s:
            return None
        return True
    return True if "+" not in s else None


def media_base(content_type: str | None) -> str | None:
    if content_type is None:
        return None
    return content_type.split(";")[0].strip().lower()


def decode_body(req: dict) -> tuple[str, Any]:
    """("json" | "form" | "text" | "none" | "opaque", decoded)"""
    body = req["body"]
    mt = media_base(req["content_type"])
    if body is None:
        return "none", None
    if mt is not None and (mt == JSON or mt.endswith("+json")):
        try:
            return "json", json.loads(body.decode("utf-8"))
        except (ValueError, UnicodeDecodeError):
            return "opaque", body
    if mt == FORM:
        out: dict[str, Any] = {}
        for k, v in parse_qsl(body.decode("utf-8"), keep_blank_values=True):
            out[k] = v if k not in out else ([*out[k], v] if isinstance(out[k], list) else [out[k], v])
        return "form", out
    if mt == TEXT:
        try:
            return "text", body.decode("utf-8")
        except UnicodeDecodeError:
            return "opaque", body
    return "opaque", body


def same(wire: Any, value: Any, stringly: bool) -> bool:
    if not stringly:
        return json_equal(wire, value)
    if isinstance(value, dict):
        return isinstance(wire, dict) and set(wire) == set(value) and all(same(wire[k], value[k], True) for k in value)
    ws = walker.wire_strings(value)
    return ws is not None and isinstance(wire, str) and wire in ws


def match(wire: Any, ptr: list, value: Any, stringly: bool) -> bool:
    if not ptr:
        return same(wire, value, stringly)
    step = ptr[0]
    if step[0] == "prop":
        return isinstance(wire, dict) and step[1] in wire and match(wire[step[1]], ptr[1:], value, stringly)
    if step[0] == "item":
        return isinstance(wire, list) and any(match(el, ptr[1:], value, stringly) for el in wire)
    return False


def param_wire_values(req: dict, loc: str, name: str) -> list[str] | None:
    """None = the parameter is absent from the request."""
    if loc == "query":
        return req["query"].get(name)
    if loc == "header":
        v = req["header"].get(name.lower())
        return None if v is None else [v]
    if loc == "cookie":
        v = req["cookie"].get(name)
        return None if v is None else [v]
    if loc == "path":
        if req["path"] is None or name not in req["path"]:
            return None
        return [req["path"][name]]
    return None


def recovered(req: dict, entry: dict) -> bool:
    if entry["kind"] == "param":
        if entry["ptr"]:
            return False
        values = param_wire_values(req, entry["in"], entry["name"])
        ws = walker.wire_strings(entry["value"])
        return values is not None and ws is not None and any(v in ws for v in values)
    kind, decoded = decode_body(req)
    if kind in ("none", "opaque"):
        return False
    if entry["media_type"] is not None and media_base(req["content_type"]) != entry["media_type"].lower():
        return False
    return match(decoded, entry["ptr"], entry["value"], stringly=kind != "json")


def judge(res: Result, item: dict, doc: dict, entries: list[dict], run: Any, plan: Plan, fill: dict) -> None:
    spec = item["spec"]
    doc_facts = {"spec": spec}
    detail_base = {"document": doc, "fill_in_path": fill, "events": [engine.event_summary(e) for e in run.events if type(e).__name__ in
                                                                      ("ScenarioFinished", "NonFatalError", "FatalError")]}
    crash = None
    if run.error is not None:
        crash = type(run.error).__name__
    for e in run.of_type("FatalError"):
        crash = crash or type(e.exception).__name__
    for path, method, _item, _op in walker.operations(doc):
        op_label = walker.label(path, method)
        mine = [e for e in entries if e["op"] == op_label]
        reqs = []
        for x in run.exchanges:
            if x.method.upper() != method.upper():
                continue
            req = walker.decode_request(x.url, x.headers, x.body, path)
            if req["path_matched"]:
                req["_exchange"] = x
                reqs.append(req)
        errors = [e for e in run.of_type("NonFatalError") if e.label == op_label]
        error_names = sorted({type(e.value).__name__ for e in errors})
        finished = [e for e in run.of_type("ScenarioFinished") if e.label == op_label]
        statuses = sorted({e.status.name for e in finished})
        detail = {**detail_base, "operation": op_label, "requests": [r["_exchange"].as_json() for r in reqs][:6],
                  "errors": [f"{type(e.value).__name__}: {str(e.value)[:300]}" for e in errors], "statuses": statuses}
        res.traces += 1
        declared = walker.declared_inputs(doc, path, method)
        if declared["body"] is None:
            form_body = extra.formdata_body(doc, path, method)  # Swagger 2.0 formData parameters = properties of the payload
            if form_body is not None:
                declared = {**declared, "body": form_body}
        facts = dict(doc_facts)
        if extra.same_name_in_two_locations(declared["parameters"]):
            facts["same_name_in_two_locations"] = True  # only written when true: the signatures of all other documents are unchanged
        if not mine:
            res.count("operations_without_examples")
            if reqs:
                res.violation({**facts, "kind": "requests_sent_without_examples", "crash": crash}, detail)
            if statuses != ["SKIP"]:
                res.violation({**facts, "kind": "no_examples_not_reported_as_skipped", "statuses": statuses, "errors": error_names, "crash": crash}, detail)
            else:
                res.outcomes.add("skipped")
        else:
            unsendable_here = any(sendable(e) is False for e in mine)
            for e in mine:
                res.count("entries_judged")
                s = sendable(e)
                hit = any(recovered(r, e) for r in reqs)
                src = e["source"]
                where = e["in"] if e["kind"] == "param" else "body"
                if s is None:
                    res.count("entries_undecided_sendability")
                    res.outcomes.add("undecided")
                    continue
                if hit:
                    res.outcomes.add("sent")
                    res.count("entries_recovered")
                    res.count("recovered:" + src)
                    res.count("recovered_value:" + value_class(e["value"]))
                    if e["kind"] == "param" and isinstance(e["value"], str) and any(c in e["value"] for c in "%?#;"):
                        res.count("recovered_url_significant:" + where)
                    if e["kind"] == "body":
                        res.count("recovered_media_type_examples")
                        if e["ptr"]:
                            res.count("recovered_nested_examples")
                    continue
                if s is False:
                    if errors:
                        res.outcomes.add("reported_unsendable")
                        res.count("unsendable_reported")
                    else:
                        res.violation({**facts, "kind": "unsendable_example_neither_sent_nor_reported", "where": where, "source": src,
                                       "value": value_class(e["value"])}, {**detail, "entry": e})
                    continue
                sig = {**facts, "kind": "example_not_sent", "where": where, "source": src, **nesting_facts(src),
                       "value": value_class(e["value"]), "errors": error_names, "crash": crash, "unsendable_sibling": unsendable_here}
                res.violation(sig, {**detail, "entry": e})
        # every request: required inputs present, fill-ins conform
        for req in reqs:
            judge_request(res, facts, detail, doc, spec, declared, mine, req)
    if entries:
        res.nontriv([doc, fill])


def judge_request(res: Result, facts: dict, detail: dict, doc: dict, spec: str, declared: dict, mine: list[dict], req: dict) -> None:
    rdetail = {**detail, "request": req["_exchange"].as_json()}
    res.count("requests_judged")
    for p in declared["parameters"]:
        loc, name = p["in"], p["name"]
        values = param_wire_values(req, loc, name)
        slot_entries = [e for e in mine if e["kind"] == "param" and e["in"] == loc and e["name"] == name]
        if values is None:
            if p["required"]:
                res.violation({**facts, "kind": "required_parameter_missing", "where": loc, "slot_has_examples": bool(slot_entries)}, rdetail)
            continue
        if loc == "path" and values == [""]:
            res.violation({**facts, "kind": "required_parameter_missing", "where": loc, "slot_has_examples": bool(slot_entries), "empty_segment": True}, rdetail)
            continue
        is_example = any((ws := walker.wire_strings(e["value"])) is None or any(v in ws for v in values) for e in slot_entries)
        if is_example:
            continue
        res.count("fill_ins_judged")
        res.count("fill_ins_judged_parameter")
        value: Any = values[0] if len(values) == 1 else values
        v = common.param_verdict(doc, p["schema"], value, loc, spec)
        if v is False:
            res.violation({**facts, "kind": "fill_in_violates_schema", "where": loc, "slot_has_examples": bool(slot_entries),
                           "keywords": common.failing_keywords(doc, p["schema"], value, loc, spec)}, {**rdetail, "value": value})
        elif v is None:
            res.count("fill_ins_undecided")
    body = declared["body"]
    kind, decoded = decode_body(req)
    if body is None:
        if kind != "none":
            res.count("bodies_without_definition_not_judged")  # the property says nothing about it (C06's subject)
        return
    if kind == "none":
        if body["required"]:
            res.violation({**facts, "kind": "required_body_missing"}, rdetail)
        return
    mt = media_base(req["content_type"])
    by_lower = {k.lower(): k for k in body["content"]}
    if mt not in by_lower:
        res.count("bodies_with_undeclared_media_type_not_judged")  # no declared schema to judge the fill-in against
        return
    declared_mt = by_lower[mt]
    schema = body["content"][declared_mt]
    slot_entries = [e for e in mine if e["kind"] == "body" and e["media_type"] in (None, declared_mt)]
    if kind == "opaque":
        res.count("bodies_opaque")
        return
    stringly = kind != "json"
    if any(not e["ptr"] and same(decoded, e["value"], stringly) for e in slot_entries):
        return  # a whole-body example, sent as given: nothing was filled in
    if not slot_entries:
        res.count("fill_ins_judged")
        res.count("fill_ins_judged_body")
        v = verdict(doc, schema, decoded, spec=spec) if kind == "json" else (None if kind == "form" else verdict(doc, schema, decoded, spec=spec))
        if kind == "form":
            check_constructed(res, facts, rdetail, doc, spec, schema, decoded, [], [], stringly=True, whole_generated=True)
        if v is False:
            res.violation({**facts, "kind": "fill_in_violates_schema", "where": "body", "slot_has_examples": False, "media_type": declared_mt,
                           "keywords": common.failing_keywords(doc, schema, decoded, "body", spec)}, {**rdetail, "value": decoded})
        elif v is None:
            res.count("fill_ins_undecided")
        return
    check_constructed(res, facts, rdetail, doc, spec, schema, decoded, [], slot_entries, stringly=stringly, whole_generated=False)


def check_constructed(res: Result, facts: dict, rdetail: dict, doc: dict, spec: str, schema: Any, value: Any, prefix: list,
                      slot_entries: list[dict], *, stringly: bool, whole_generated: bool, depth: int = 0) -> None:
    """A body assembled from nested examples: required properties are present, the parts without an example conform."""
    schema = walker.deref(doc, schema)
    if not isinstance(schema, dict) or depth > 6 or any(k in schema for k in ("anyOf", "oneOf", "not")):
        return
    for branch in schema.get("allOf", []) or []:
        # every allOf branch constrains the same value: its `required` and its properties apply as well
        check_constructed(res, facts, rdetail, doc, spec, branch, value, prefix, slot_entries, stringly=stringly,
                          whole_generated=whole_generated, depth=depth + 1)
    if isinstance(value, dict) and isinstance(schema.get("properties"), dict):
        for name in schema.get("required", []) or []:
            sub_prefix = prefix + [["prop", name]]
            if name not in value:
                res.violation({**facts, "kind": "required_property_missing_in_assembled_body", "ptr": ptr_shape(sub_prefix)}, {**rdetail, "value": value})
        for name, sub in schema["properties"].items():
            if name not in value:
                continue
            sub_prefix = prefix + [["prop", name]]
            beneath = [e for e in slot_entries if e["ptr"][: len(sub_prefix)] == sub_prefix]
            if beneath:
                check_constructed(res, facts, rdetail, doc, spec, sub, value[name], sub_prefix, slot_entries, stringly=stringly,
                                  whole_generated=whole_generated, depth=depth + 1)
                continue
            res.count("fill_ins_judged")
            res.count("fill_ins_judged_property")
            v = common.param_verdict(doc, sub, value[name], "query", spec) if stringly else verdict(doc, sub, value[name], spec=spec)
            if v is False:
                res.violation({**facts, "kind": "fill_in_violates_schema", "where": "body.property", "slot_has_examples": not whole_generated,
                               "keywords": common.failing_keywords(doc, sub, value[name], "query" if stringly else "body", spec)},
                              {**rdetail, "value": value, "property": name})
            elif v is None:
                res.count("fill_ins_undecided")
    elif isinstance(value, list) and isinstance(schema.get("items"), dict):
        for el in value:
            check_constructed(res, facts, rdetail, doc, spec, schema["items"], el, prefix + [["item"]], slot_entries, stringly=stringly,
                              whole_generated=whole_generated, depth=depth + 1)


# ---------------------------------------------------------------------------------------------------------------------

def check_item(item: dict, tier: str) -> Result:
    res = Result()
    doc = build(item)
    entries = walker.walk(doc) + extra.formdata_entries(doc)
    per_slot: dict[str, int] = {}
    for e in entries:
        key = json.dumps([e["kind"], e.get("in"), e.get("name"), e.get("media_type"), e["ptr"] if e["source"].startswith("formData") else None])
        per_slot[key] = per_slot.get(key, 0) + 1
    counts = sorted(per_slot.values())
    if counts and counts[-1] >= 3:
        res.count("docs_with_3_or_more_examples_on_a_slot")
    if len(item["params"]) >= 3:
        res.count("docs_with_three_parameters")
    for p in list(item["params"]) + list(item.get("form") or []):
        if p.get("at", "op") != "op":
            res.count("docs_parameter_written:" + p["at"])
    if item.get("body_at", "inline") != "inline":
        res.count("docs_body_written:" + item["body_at"])
    if item.get("form"):
        res.count("docs_with_form_data")
    if len(counts) >= 2 and counts[-1] >= 2 and 1 in counts:
        res.count("docs_with_2_and_1_examples")
    if any(e["ptr"] for e in entries):
        res.count("docs_with_nested_examples")
    if any(e["kind"] == "body" for e in entries):
        res.count("docs_with_media_type_examples")
    if not entries:
        res.count("docs_without_examples")
    res.count("docs:" + item["family"] + ":" + item["spec"])

    plan = Plan(None, tier)
    del _EXTERNAL_FETCHES[:]
    run = execute(doc, plan)
    res.evaluations += 1
    account(res, plan)
    if _EXTERNAL_FETCHES:
        res.count("external_value_fetches_cut_off", len(_EXTERNAL_FETCHES))
    if plan.unresolved:
        # a fill-in strategy produced no value within the explored part of its tree and the tree was not exhausted:
        # what the real generate_one would do is not decided by E1 here -> the document is not judged (and said so)
        res.count("docs_not_judged_fill_in_unresolved")
        res.outcomes.add("undecided")
        res.exhaustive = False
        return res
    judge(res, item, doc, entries, run, plan, {"deviation": None, "candidates": list(plan.counts)})
    if plan.capped:
        res.count("fill_in_candidate_lists_capped")
        res.exhaustive = False
    if len(res.samples) < 2 and entries:
        res.samples.append({"item": item, "entries": [{k: v for k, v in e.items() if k != "op"} for e in entries][:4],
                            "requests": [x.as_json()["url"] for x in run.exchanges][:4], "fill_in_candidates": list(plan.counts)})
    # every single deviation of every fill-in
    for call, n in enumerate(plan.counts):
        for cand in range(1, n):
            dev = Plan((call, cand), tier)
            run2 = execute(doc, dev)
            res.evaluations += 1
            res.count("deviation_runs")
            account(res, dev)
            if len(dev.counts) <= call:
                res.oracle_errors.append({"error": "fill-in call sequence diverged under a deviation", "item": item, "deviation": [call, cand]})
                continue
            if dev.unresolved:
                res.count("runs_not_judged_fill_in_unresolved")
                res.exhaustive = False
                continue
            judge(res, item, doc, entries, run2, dev, {"deviation": [call, cand], "candidates": list(plan.counts)})
    if plan.counts:
        res.count("docs_with_fill_in_calls")
        res.count("fill_in_calls", len(plan.counts))
        if plan.exhausted_all:
            res.count("docs_fill_in_trees_exhausted")
    return res


def account(res: Result, plan: Plan) -> None:
    res.states += plan.nodes + 1
    res.transitions += plan.edges
    res.count("e1_executions", plan.executions)


def vacuity(total: Result, tier: str) -> list[str]:
    c = total.counters
    out = []
    need = {
        "docs_with_2_and_1_examples": "no document with 2 examples on one slot and 1 on another (produce_combinations never exercised)",
        "docs_with_nested_examples": "no document with nested-property examples",
        "docs_with_media_type_examples": "no document with body / media-type examples",
        "docs_without_examples": "no document without examples (skip half of the property never exercised)",
        "entries_recovered": "no example was ever recovered from the traffic",
        "recovered_nested_examples": "no nested example was recovered",
        "recovered_media_type_examples": "no media-type example was recovered",
        "fill_ins_judged": "no fill-in value was judged",
        "fill_in_calls": "the generate_one seam was never hit",
        "deviation_runs": "no fill-in deviation was executed",
        "unsendable_reported": "no unsendable example was seen being reported",
        "operations_without_examples": "no operation without examples was judged",
    }
    need.update({
        "docs_with_3_or_more_examples_on_a_slot": "no document with >=3 examples on one slot",
        "docs_with_three_parameters": "no document with three parameters",
        "docs_parameter_written:shared": "no path-item level (shared) parameter",
        "docs_parameter_written:ref": "no $ref'd Parameter Object",
        "docs_parameter_written:overriding": "no operation-level parameter overriding a shared one",
        "docs_body_written:ref": "no $ref'd request body / body parameter",
        "docs_with_form_data": "no Swagger 2.0 formData document",
        "recovered_value:null": "no null example was recovered",
        "recovered_value:bool": "no boolean example was recovered",
        "recovered_value:array": "no array example was recovered",
        "recovered_value:str_empty": "no empty-string example was recovered",
        "recovered_url_significant:path": "no path example with URL-significant characters was recovered",
        "recovered_url_significant:query": "no query example with URL-significant characters was recovered",
        "external_value_fetches_cut_off": "no externalValue example was met (the no-network stub was never called)",
    })
    for key, msg in need.items():
        if not c.get(key):
            out.append(msg)
    for src in ("parameter.example", "parameter.examples.value", "parameter.examples.$ref", "media_type.example", "media_type.examples.value",
                "media_type.examples.$ref", "schema.example", "schema.property.example", "schema.items.property.example", "schema.anyOf.example",
                "schema.oneOf.example", "parameter.x-example", "parameter.x-examples.value", "body.x-example", "schema.examples",
                "formData.x-example", "formData.x-examples.value"):
        if not c.get("recovered:" + src):
            out.append(f"no example given through {src} was recovered")
    if "skipped" not in total.outcomes or "sent" not in total.outcomes:
        out.append("outcome classes 'sent' and 'skipped' were not both observed")
    return out
