"""Child process of C13(a): runs the real engine for a list of jobs under one hidden-entropy vector and prints the traffic.

Usage: PYTHONHASHSEED=<h> /venv/bin/python -m props.c13_child <spec.json>
spec = {"jobs": [{"doc":..., "seed":..., "phases":[...], "modes":[...]}], "rand": <int>, "warm": <bool>, "repeat": <int>,
        "time_offset": <float>}
"""

from __future__ import annotations

import json
import os
import random
import sys
import time

ROOT = os.path.dirname(os.path.dirname(os.path.abspath(__file__)))
sys.path.insert(0, ROOT)


def run_job(job: dict) -> dict:
    from mc import engine, httpseam
    from props import c13
    from schemathesis.generation import GenerationMode

    doc = c13.DOCS[job["doc"]]
    modes = [GenerationMode(m) for m in job.get("modes", ["positive"])]
    schema = engine.load_schema(doc)
    config = engine.make_config(phases=job["phases"], workers=job.get("workers", 1), max_examples=job.get("max_examples", 4),
                                seed=job["seed"], modes=modes, derandomize=False, stateful_step_count=3)
    marks: list[tuple[str, int]] = []
    state = {"log": None}

    def on_event(event, stream) -> None:
        if type(event).__name__ == "PhaseStarted":
            marks.append((event.phase.name.name, len(state["log"].exchanges)))

    # run_engine installs the seam itself; we need the live log for the phase marks
    from schemathesis.engine import from_schema

    events = []
    with httpseam.installed(c13.handler) as log:
        state["log"] = log
        for event in from_schema(schema, config=config).execute():
            events.append(event)
            on_event(event, None)
        exchanges = list(log.exchanges)
    per_phase: dict[str, list] = {}
    bounds = marks + [("END", len(exchanges))]
    for (name, start), (_, end) in zip(bounds, bounds[1:]):
        per_phase[name] = [list(map(_jsonable, x.key())) for x in exchanges[start:end]]
    failures = []
    for e in events:
        if type(e).__name__ == "ScenarioFinished":
            for cid, checks in e.recorder.checks.items():
                for c in checks:
                    if c.failure_info is not None:
                        failures.append([e.phase.name, e.label, c.name, type(c.failure_info.failure).__name__])
    return {"traffic": per_phase, "failures": sorted(failures),
            "statuses": [[type(e).__name__, getattr(getattr(e, "status", None), "name", None)] for e in events]}


def _jsonable(x):
    if isinstance(x, bytes):
        return x.decode("utf-8", "backslashreplace")
    if isinstance(x, tuple):
        return [_jsonable(i) for i in x]
    return x


def main() -> None:
    spec = json.load(open(sys.argv[1]))
    random.seed(spec.get("rand", 0))
    try:
        from hypothesis.internal.entropy import deterministic_PRNG  # noqa: F401
        import hypothesis.core

        hypothesis.core.global_force_seed = None
        hypothesis.core._hypothesis_global_random = random.Random(spec.get("rand", 0) + 17)
    except Exception:  # noqa: BLE001
        pass
    if spec.get("time_offset"):
        real_time = time.time
        offset = spec["time_offset"]
        time.time = lambda: real_time() + offset  # type: ignore[assignment]
    if spec.get("warm"):
        from props import c13

        run_job({"doc": c13.WARMUP_DOC, "seed": 99, "phases": ["examples", "coverage", "fuzzing", "stateful"]})
    out = []
    for job in spec["jobs"]:
        runs = [run_job(job) for _ in range(spec.get("repeat", 1))]
        out.append(runs)
    sys.stdout.write("C13RESULT" + json.dumps(out) + "\n")


if __name__ == "__main__":
    main()
