"""C05 - no failure or internal error is ever lost: it reaches the report and the exit code.

E4 enumerates single faults (stage x kind x occurrence x transient/persistent) injected through public extension points,
and API behaviours that make a check fail; E3 explores the schedules of the real engine for each; every execution's event
list is then fed through the real CLI layer (`ExecutionContext.on_event`, real handlers, `_execute`) to obtain the exit code.
"""

from __future__ import annotations

import contextlib
import io
from typing import Any

from mc.runner import Result
from props import engine_explore as ee

ID = "C05"
LEVEL = "fault_enumeration"
ENGINES = ["E4", "E3"]
RULE = (
    "work item = (document, phases, workers, continue_on_failure, max_failures, unique_inputs, generation modes, API behaviour, single fault = stage x "
    "exception kind x k-th occurrence x transient|persistent); every schedule with <=p pre-emptions is executed on the real engine and the "
    "yielded events are replayed through the real CLI event loop; distinct = distinct (item, event sequence); non-trivial = the fault "
    "actually fired or a check actually failed"
)
BOUNDS = {
    "quick": {"preemptions_worker_stages": 1, "preemptions_other": 0, "occurrence": [1, 2], "max_exec_per_item": 300},
    "thorough": {"preemptions_worker_stages": 2, "preemptions_other": 1, "occurrence": [1, 2, 3], "max_exec_per_item": 5000},
}
BUDGET_S = {"quick": 140, "thorough": 3300}
CHUNK = 2
ASSUMPTIONS = [
    "faults enter only through public extension points (hooks, custom checks, transport adapter, custom CLI handler)",
    "interrupted runs (KeyboardInterrupt / stop) are outside this property and are not injected here",
]
TECHNIQUE = "exhaustive single-fault enumeration (stage x kind x occurrence x persistence) combined with exhaustive schedule exploration of the real engine; report/exit-code predicate as oracle"
LEVEL_TEXT = (
    "Every single fault of the stated menu, at every stage of the per-operation pipeline, is injected into the real engine, under "
    "every worker schedule within the bound, and the resulting events are pushed through the real CLI loop to read the exit code."
)
LEVEL_NOTE = "Trusted: fault menu is representative of exception kinds; single faults only (no pairs); scheduler shims."

KINDS_QUICK = ["RuntimeError", "AssertionError", "ConnectionError", "InvalidArgument", "KeyError"]
KINDS_ALL = ["RuntimeError", "ValueError", "KeyError", "AttributeError", "AssertionError", "ConnectionError", "Timeout",
             "InvalidArgument", "PatternError"]
STAGES = ["iterate", "construct", "generate", "before_call", "transport", "after_call", "check"]
OPS = {"unit3": ["GET /a", "GET /b", "GET /c"], "unit2": ["GET /a", "GET /b"], "link": ["POST /users", "GET /users/{id}"],
       "one_a": ["GET /a"], "one_b": ["GET /b"],
       **{name: ["GET /a", "GET /b"] for name in ee.BROKEN_DOCS}}


def items(tier: str, seed: int) -> list[dict]:
    b = BOUNDS[tier]
    kinds = KINDS_QUICK if tier == "quick" else KINDS_ALL
    out: list[dict] = []

    def add(**kw: Any) -> None:
        base = {"doc": "unit2", "phases": ["fuzzing"], "workers": 1, "max_failures": None, "cof": False, "behaviour": "ok",
                "fault": None, "p": b["preemptions_other"], "e": 0, "max_examples": 2, "unique": False, "ctrl_c": False}
        base.update(kw)
        if base["workers"] > 1 and len(base["phases"]) > 1 and tier == "quick":
            base["p"] = 0  # several unit phases x 2 workers: every non-preemptive schedule only (pre-emptions: single-phase items)
        base["phases"] = ["probing"] + base["phases"]  # the CLI always enables the probing phase
        out.extend(ee.sharded(base, 4 if base["workers"] > 1 and base["p"] > 0 else 1))

    # fault-free runs: conforming API (converse direction) and failing API
    for phases in (["fuzzing"], ["examples", "coverage", "fuzzing"]):
        for workers in (1, 2):
            add(phases=phases, workers=workers, p=b["preemptions_worker_stages"] if workers > 1 else 0)
            add(phases=phases, workers=workers, behaviour="fail:/b", p=b["preemptions_worker_stages"] if workers > 1 else 0)
    add(behaviour="fail:/b", cof=True)
    # one operation failing in two different ways in two phases (example value vs generated values): both must reach the report
    add(phases=["examples", "coverage", "fuzzing"], behaviour="two_kinds:/a", extra_checks="status")
    add(phases=["examples", "fuzzing"], behaviour="two_kinds:/a", extra_checks="status", cof=True)
    add(behaviour="all500", max_failures=1, workers=2, p=b["preemptions_worker_stages"])
    add(behaviour="fail:/b", unique=True)
    # a defect of the document (unusable path item) before / between / after healthy operations of a conforming API
    for doc in ee.BROKEN_DOCS:
        if doc.startswith("hdr_example"):
            # the defect sits in an explicit example: it is met where examples are used
            for phases in (["examples"], ["examples", "coverage", "fuzzing"]):
                add(doc=doc, phases=phases)
            continue
        for phases in (["fuzzing"], ["examples", "coverage", "fuzzing"]):
            add(doc=doc, phases=phases)
        if tier != "quick" or doc == "unit2_broken_last":
            add(doc=doc, phases=["fuzzing"], workers=2, p=b["preemptions_worker_stages"])
    # two pre-emptions on the smallest runs (one worker): the consumer's queue time-out fires while the worker is active AND
    # the worker then finishes before the consumer looks at it - the events it queued in between must not be lost
    add(doc="one_b", behaviour="all500", p=2, max_examples=1)
    add(doc="one_b", behaviour="ok", p=2, max_examples=1)
    add(doc="one_a", behaviour="all500", p=2, max_examples=1)
    add(doc="link", phases=["stateful"], behaviour="ok")
    add(doc="link", phases=["stateful"], behaviour="fail_get_user")
    add(doc="link", phases=["examples", "coverage", "fuzzing", "stateful"], behaviour="fail_get_user")
    # single faults in unit phases
    for stage in STAGES:
        for kind in kinds:
            if stage == "transport" and kind == "AssertionError" and tier == "quick":
                continue
            for k in b["occurrence"]:
                for persistent in (False, True):
                    if k > 1 and persistent:
                        continue
                    if tier == "quick" and k > 1 and kind not in ("RuntimeError", "ConnectionError"):
                        continue
                    fault = {"stage": stage, "kind": kind, "path": "/a", "k": k, "persistent": persistent}
                    phases = ["examples", "coverage", "fuzzing"] if stage == "construct" else ["fuzzing"]
                    add(fault=fault, phases=phases)
                    if stage in ("iterate", "construct", "generate", "check") and k == 1 and not persistent and kind in ("RuntimeError", "InvalidArgument"):
                        add(fault=fault, phases=phases, workers=2, p=b["preemptions_worker_stages"])
    # faults in the stateful phase
    for stage in ("before_call", "transport", "after_call", "check"):
        for kind in (["RuntimeError", "ConnectionError"] if tier == "quick" else kinds):
            add(doc="link", phases=["stateful"], fault={"stage": stage, "kind": kind, "path": "/users", "k": 1, "persistent": False})
    add(doc="link", phases=["stateful"], fault={"stage": "iterate", "kind": "RuntimeError", "path": "/users", "k": 1, "persistent": True})
    _review_round_2(add, tier)
    # CLI event handling
    for kind in ("RuntimeError", "KeyError"):
        add(fault={"stage": "cli_handler", "kind": kind, "path": "", "k": 3, "persistent": False})
    return out


def _review_round_2(add: Any, tier: str) -> None:
    """Shapes the property quantifies over that the first version left out (one worker, no pre-emption unless the shape is
    about interleaving)."""
    all_unit = ["examples", "coverage", "fuzzing"]
    # -- API behaviours: WHICH response of an operation violates the check
    add(behaviour="nth:/a:1", max_examples=3)               # the first response fails, later ones would succeed
    add(behaviour="nth:/a:1", max_examples=3, cof=True)     # ... and the later ones DO succeed (continue_on_failure)
    add(behaviour="nth:/a:3", max_examples=3, cof=True)     # only the LAST response of the operation fails
    add(behaviour="even:/a", max_examples=4, cof=True)      # every second response fails
    add(behaviour="neg:/a", max_examples=3, phases=all_unit)  # one region of the input fails: reached by the last phase only
    add(behaviour="noquery:/a", phases=all_unit, cof=True)  # the boundary input (optional parameter left out) fails
    # a failing check only on the request the stateful phase can build (the id handed out by the API)
    add(doc="link", phases=["stateful"], behaviour="fail_linked_user")
    add(doc="link", phases=[*all_unit, "stateful"], behaviour="fail_linked_user")
    # a response with a documented status whose BODY violates the documented schema
    for phases in (["fuzzing"], ["stateful"], [*all_unit, "stateful"]):
        add(doc="link", phases=phases, behaviour="bad_body", extra_checks="schema")
    # -- configurations
    add(phases=all_unit, behaviour="fail:/b", unique=True)          # unique inputs, the same request in several phases
    add(phases=all_unit, behaviour="fail:/b", max_failures=1)       # limit reached by the last operation, a later phase is skipped
    add(phases=["coverage", "fuzzing"], behaviour="neg:/a", max_failures=1, max_examples=3)  # ... reached in the last phase
    add(phases=all_unit, max_failures=1, fault={"stage": "transport", "kind": "ConnectionError", "path": "/b", "k": 1, "persistent": True})
    add(phases=all_unit, behaviour="fail:/b", cof=True, workers=2)
    add(behaviour="fail:/a", max_examples=1)
    # -- generation modes: negative data only (an operation without parameters has nothing to negate: explicitly skipped), both
    add(modes=["negative"])
    add(modes=["negative"], phases=all_unit, behaviour="fail:/a")
    add(modes=["positive", "negative"], phases=["coverage"], behaviour="fail:/b", cof=True)
    # -- documents with ONE operation (with / without parameters); two workers: one of them finds nothing to do
    add(doc="one_a", phases=all_unit)
    add(doc="one_a", phases=all_unit, behaviour="fail:/a")
    add(doc="one_b", phases=all_unit)
    add(doc="one_b", behaviour="fail:/b", workers=2, p=1)
    add(doc="one_b", workers=2, p=1)
    # -- single faults on the operation WITHOUT parameters
    for stage in ("before_call", "transport", "after_call", "check"):
        add(fault={"stage": stage, "kind": "RuntimeError", "path": "/b", "k": 1, "persistent": False})
    # -- single faults met in the examples / coverage phase rather than while fuzzing
    for phase, stages in (("examples", ("transport", "check")), ("coverage", ("before_call", "transport", "check"))):
        for stage in stages:
            add(phases=[phase], fault={"stage": stage, "kind": "RuntimeError", "path": "/a", "k": 1, "persistent": False})
    add(phases=all_unit, fault={"stage": "check", "kind": "RuntimeError", "path": "/a", "k": 2, "persistent": False})
    # -- single faults on the SECOND step of a stateful sequence (the linked operation)
    for stage, kind in (("before_call", "RuntimeError"), ("transport", "RuntimeError"), ("transport", "ConnectionError"),
                        ("after_call", "RuntimeError"), ("check", "RuntimeError")):
        add(doc="link", phases=["stateful"], fault={"stage": stage, "kind": kind, "path": "/users/", "k": 1, "persistent": False})


def _phase_name(event: Any) -> str:
    ph = event.phase
    inner = getattr(ph, "name", ph)
    return getattr(inner, "name", str(inner))


def cli_exit_code(item: dict, events: list) -> tuple[Any, str]:
    """Feed the recorded events through the real CLI loop; returns (exit code | exception, console output)."""
    from schemathesis.cli.commands.run import executor
    from schemathesis.cli.commands.run.handlers.base import EventHandler
    from schemathesis.core.output import OutputConfig
    from schemathesis.filters import FilterSet

    from mc import engine

    fault = item.get("fault") or {}
    saved_handlers = list(executor.CUSTOM_HANDLERS)
    if fault.get("stage") == "cli_handler":
        counter = {"n": 0}

        class Faulty(EventHandler):
            def __init__(self, *a: Any, **kw: Any) -> None:
                pass

            def handle_event(self, ctx: Any, event: Any) -> None:
                counter["n"] += 1
                if counter["n"] == fault["k"]:
                    raise ee.make_exception(fault["kind"])

        executor.CUSTOM_HANDLERS.append(Faulty)
    config = executor.RunConfig(
        location="http://verif.local/openapi.json", base_url=None, filter_set=FilterSet(),
        engine=engine.make_config(phases=item["phases"], workers=item["workers"]), wait_for_schema=None, rate_limit=None,
        output=OutputConfig(), report=None, args=[], params={},
    )
    from schemathesis.cli.commands.run.events import LoadingFinished, LoadingStarted

    schema = engine.load_schema(ee.DOCS[item["doc"]])
    started = LoadingStarted(location=config.location)
    finished = LoadingFinished(location=config.location, start_time=started.timestamp, base_url=schema.get_base_url(),
                               specification=schema.specification, statistic=schema.statistic, schema=schema.raw_schema,
                               base_path=schema.base_path)
    buf = io.StringIO()
    try:
        with contextlib.redirect_stdout(buf), contextlib.redirect_stderr(buf):
            executor._execute(iter([started, finished, *events]), config)
        code: Any = "no SystemExit"
    except SystemExit as exc:
        code = exc.code
    except BaseException as exc:  # noqa: BLE001 - an exception out of the CLI loop is a non-zero exit with a traceback
        code = exc
    finally:
        executor.CUSTOM_HANDLERS[:] = saved_handlers
    return code, buf.getvalue()


def judge(item: dict, run: Any, r: Any, fault_state: Any, res: Result, current_item: dict) -> None:
    events = r.events
    names = [type(e).__name__ for e in events]
    fault = item.get("fault") or {}
    stage = fault.get("stage")
    detail = {"item": item, "schedule": ee.schedule_brief(run), "events": ee.events_brief(events),
              "worker_errors": [(n, repr(e)[:200]) for n, e in r.worker_errors]}
    base = {"stage": stage, "fault": fault.get("kind"), "persistent": fault.get("persistent"), "k": fault.get("k"),
            "stateful": "stateful" in item["phases"], "workers_gt1": item["workers"] > 1}
    if item["doc"] in ee.BROKEN_DOCS:
        base["schema_defect"] = item["doc"]
    if item.get("unique"):
        base["unique_inputs"] = True
    code, console = cli_exit_code(item, events)
    nonzero = not (code == 0 or code is None)

    def bad(kind: str, **facts: Any) -> None:
        res.violation({**base, "kind": kind, **{k: v for k, v in facts.items() if k in ("phase",)}},
                      detail | facts | {"exit_code": repr(code), "console_tail": console[-600:]}, current_item)

    # every distinct check failure the engine recorded must be present in the CLI's statistic (the source of the FAILURES
    # section, the summary counts and the JUnit report) once all events went through the real ExecutionContext
    from schemathesis.cli.commands.run.context import ExecutionContext

    cli_ctx = ExecutionContext()
    try:
        for e in events:
            cli_ctx.on_event(e)
        recorded = set()
        for e, n in zip(events, names):
            if n == "ScenarioFinished":
                for cs in e.recorder.checks.values():
                    for c in cs:
                        if c.failure_info is not None:
                            recorded.add(c.failure_info.failure)
        reported = {f for groups in cli_ctx.statistic.failures.values() for g in groups.values() for f in g.failures}
        lost = recorded - reported
        if lost:
            bad("recorded_check_failure_missing_from_cli_statistic", lost=sorted(type(f).__name__ + ":" + str(getattr(f, "title", "")) for f in lost),
                reported=len(reported), recorded=len(recorded))
        if len(recorded) >= 2:
            res.count("runs_with_two_or_more_distinct_failures")
    except Exception as exc:  # noqa: BLE001 - a crash while the CLI context consumes events is judged by C16
        res.count("cli_context_raised:" + type(exc).__name__)
    fired = bool(fault_state and fault_state.fired) and stage != "cli_handler"
    if stage == "cli_handler":
        if not nonzero:
            bad("cli_handler_error_lost")
        res.nontriv([item, "cli"])
        return
    # which operations had a failing check because of the API's behaviour
    failing_paths = set()
    op_paths = {op.split(" ", 1)[1] for op in OPS[item["doc"]]}
    for x in r.exchanges:
        # requests of the probing phase (OPTIONS/GET on the base path) are not operations of the document
        is_operation = x.path in op_paths or (item["doc"] == "link" and x.path.startswith("/users/"))
        if ee.is_violating(item["behaviour"], x) and is_operation:
            failing_paths.add(x.path)
    schema_defect = item["doc"] in ee.BROKEN_DOCS
    something_wrong = fired or bool(failing_paths) or bool(r.worker_errors) or schema_defect
    bad_scenarios = [e for e, n in zip(events, names) if n == "ScenarioFinished" and getattr(e.status, "name", "") in ("FAILURE", "ERROR")]
    errors = [e for e, n in zip(events, names) if n == "NonFatalError"]
    # coverage counters of the review-round-2 shapes (asserted in vacuity)
    enabled = [ph for ph in item["phases"] if ph != "probing"]
    if item["behaviour"] == "bad_body" and failing_paths:
        res.count("r2_body_violating_documented_status_answered")
    if item["behaviour"] == "fail_linked_user" and failing_paths and len(enabled) > 1 and {_phase_name(e) for e in bad_scenarios} == {"STATEFUL_TESTING"}:
        res.count("r2_failure_in_stateful_phase_only_after_clean_unit_phases")
    if item["behaviour"].startswith(("nth:", "even:")) and item["cof"]:
        statuses = [x.status for x in r.exchanges if x.path == item["behaviour"].split(":")[1]]
        if 500 in statuses and 200 in statuses[statuses.index(500):]:
            res.count("r2_failing_response_followed_by_passing_one_of_same_operation")
    if fired and enabled in (["examples"], ["coverage"]):
        res.count("r2_fault_fired_in_" + enabled[0] + "_phase")
    if fired and fault.get("path") == "/users/":
        res.count("r2_fault_fired_on_second_stateful_step")
    if fired and fault.get("path") == "/b":
        res.count("r2_fault_fired_on_operation_without_parameters")
    if item["doc"] in ("one_a", "one_b"):
        res.count("r2_single_operation_document_runs")
    if item.get("modes"):
        res.count("r2_runs_with_generation_modes:" + "+".join(item["modes"]))
    if something_wrong:
        res.nontriv([item, ee.events_brief(events)])
        if not nonzero:
            bad("exit_code_zero_although_fault_or_failure", fired=fired, failing_paths=sorted(failing_paths))
        if not bad_scenarios and not errors:
            bad("nothing_reported_although_fault_or_failure", fired=fired, failing_paths=sorted(failing_paths))
        # the phase in which it happened must be reported as failed/errored
        phases_bad = {_phase_name(e) for e in bad_scenarios} | {_phase_name(e) for e in errors}
        for e, n in zip(events, names):
            if n == "PhaseFinished" and _phase_name(e) in phases_bad and getattr(e.status, "name", "") not in ("FAILURE", "ERROR"):
                # (with max_failures reached in an earlier phase nothing else can be bad; INTERRUPTED is not in scope)
                bad("phase_not_failed_although_scenario_failed", phase=_phase_name(e), status=getattr(e.status, "name", ""))
        # failing checks are recorded with the request that caused them
        for e in bad_scenarios:
            if getattr(e.status, "name", "") != "FAILURE":
                continue
            rec = e.recorder
            failed_checks = [(cid, c) for cid, cs in rec.checks.items() for c in cs if getattr(c.status, "name", "") == "FAILURE"]
            if not failed_checks:
                bad("failed_scenario_without_recorded_check_failure", phase=_phase_name(e))
            for cid, c in failed_checks:
                info = c.failure_info
                inter = rec.interactions.get(cid)
                if info is None or not getattr(info, "code_sample", None) or inter is None or inter.request is None:
                    bad("check_failure_without_request", phase=_phase_name(e))
        # attribution: the failing operation is named
        if failing_paths and not fired and "stateful" not in item["phases"] and item.get("max_failures") is None:
            # (with a failure limit the run stops at the limit by design - C12 - and later failures are not reported)
            labels = {getattr(e, "label", None) for e in bad_scenarios} | {getattr(e, "label", None) for e in errors}
            for path in failing_paths:
                if not any(lab and lab.endswith(" " + path) for lab in labels):
                    bad("failing_operation_not_named", path=path)
        if fired and fault.get("path") and "stateful" not in item["phases"] and stage != "iterate":
            # (an error raised while the operations are being iterated precedes any scenario: nothing to attribute it to)
            labels = {getattr(e, "label", None) for e in bad_scenarios} | {getattr(e, "label", None) for e in errors}
            if labels and not any(lab and fault["path"] in lab for lab in labels):
                bad("faulted_operation_not_named")
    else:
        # converse: exit code zero and every operation tested or explicitly skipped in every enabled phase
        if nonzero:
            bad("non_zero_exit_without_fault_or_failure")
        if bad_scenarios or errors:
            bad("failure_reported_without_fault_or_failure")
        unit_phases = {"examples": "EXAMPLES", "coverage": "COVERAGE", "fuzzing": "FUZZING"}
        for ph in item["phases"]:
            if ph not in unit_phases:
                continue
            for op in OPS[item["doc"]]:
                ok = any(n == "ScenarioFinished" and _phase_name(e) == unit_phases[ph] and e.label == op
                         and getattr(e.status, "name", "") in ("SUCCESS", "SKIP") for e, n in zip(events, names))
                if not ok:
                    bad("selected_operation_neither_tested_nor_skipped", phase=unit_phases[ph], operation=op)
        res.count("fault_free_runs")


def check_item(item: dict, tier: str) -> Result:
    res = Result()
    cap = BOUNDS[tier]["max_exec_per_item"]
    last_stats = None
    for run, fault_state, stats in ee.explore_item(item, max_executions=cap):
        last_stats = stats
        current_item = item if "replay_choices" in item else {**item, "replay_choices": run.choices}
        res.evaluations += 1
        r = run.outcome
        if r is None or run.aborted:
            res.violation({"kind": f"no_termination_{run.aborted}", "stage": (item.get("fault") or {}).get("stage")},
                          {"item": item, "schedule": ee.schedule_brief(run)}, current_item)
            continue
        if r.error is not None:
            # the event stream itself raised: the CLI turns that into FatalError / a traceback - non-zero exit, not lost
            res.count("event_stream_raised")
            res.outcomes.add("stream_raised")
            continue
        res.traces += 1
        judge(item, run, r, fault_state, res, current_item)
        res.outcomes.add((len(r.events), bool(fault_state and fault_state.fired)))
        if len(res.samples) < 1 and fault_state and fault_state.fired:
            res.samples.append({"item": item, "events": ee.events_brief(r.events)})
    if last_stats is not None:
        res.states += len(last_stats.states)
        res.transitions += last_stats.points
        if last_stats.capped:
            res.exhaustive = False
            res.count("items_capped")
            res.count("capped:" + "+".join(item["phases"]) + f":w{item['workers']}:p{item['p']}:" + str((item.get("fault") or {}).get("stage")))
    return res


def vacuity(total: Result, tier: str) -> list[str]:
    out = []
    if len(total.nontrivial) < 20:
        out.append("fewer than 20 distinct executions with a fired fault or failing check")
    if not total.counters.get("fault_free_runs"):
        out.append("no fault-free conforming run (converse direction never judged)")
    for key in ("r2_body_violating_documented_status_answered", "r2_failure_in_stateful_phase_only_after_clean_unit_phases",
                "r2_failing_response_followed_by_passing_one_of_same_operation", "r2_fault_fired_in_examples_phase",
                "r2_fault_fired_in_coverage_phase", "r2_fault_fired_on_second_stateful_step",
                "r2_fault_fired_on_operation_without_parameters", "r2_single_operation_document_runs",
                "r2_runs_with_generation_modes:negative", "r2_runs_with_generation_modes:positive+negative"):
        if not total.counters.get(key):
            out.append(f"review-round-2 shape never exercised: {key}")
    return out
