"""C16 - report files (VCR cassette, HAR, JUnit) are well-formed and faithful to the traffic; reporting never aborts the run.

Part (a) "contents" (E2): hand-built real ``ScenarioRecorder`` + ``Case`` + ``requests.PreparedRequest`` + ``Response``
objects are delivered as real ``ScenarioFinished`` events (inside the engine's brackets) to the real ``CassetteWriter``
(VCR and HAR, preserve_bytes on/off, sanitisation off) and ``JunitXMLHandler``; the product slot x content x position x
metadata shape x response present/absent x 1-2 interactions is enumerated; the files are re-read with independent
parsers (``yaml.safe_load``, ``json.loads``, ``ElementTree``) and compared with what was fed.

Part (a2) "shapes" (E2, review round 2): value-independent shapes of a scenario enumerated in ``mc/c16_extra.py`` (response
Content-Type x body, multi-valued response headers, exchange sequences N/E/U, check-result lists, request shapes) are built
from JSON specs into the same real objects, written by the same five handlers at once and judged by the same oracles; the 15
boundary contents of ``SMALL_CONTENTS`` run through part (a) "light" in every slot, and the slot ``label`` puts every content
into the scenario label (JUnit test-case name).

Part (b) "histories" (E5): BFS over protocol-conforming event histories; every history is closed into a complete engine
stream and driven through the REAL ``executor._execute`` loop (real ``ExecutionContext``, JUnit + VCR + HAR handlers and
the console ``OutputHandler``, stdout captured) with a supplied event stream.

Part (c) "engine": two runs of the real engine (in-process HTTP) whose real event stream is driven through the same
``_execute`` loop: shows that the history shapes of part (b) are emitted by the engine itself.

Determinism: the cassette writers own a real thread + queue; every run calls ``shutdown`` and then joins the thread
completely and closes the ``LazyFile`` (what process exit does) before a file is read.  Files live in a per-run
temporary directory that is removed.
"""

from __future__ import annotations

import base64
import contextlib
import datetime
import io
import json
import os
import shutil
import sys
import tempfile
import threading
import traceback
import warnings
from pathlib import Path
from typing import Any, Iterator

from mc import c16_extra as extra
from mc.runner import Result

ID = "C16"
LEVEL = "model_checking"
ENGINES = ["E2", "E5"]
RULE = (
    "(a) work item = (slot, content class); inside it every position {alone, infix} x metadata shape {none, generate, explicit, "
    "coverage} x response {present, network error} x {1, 2} interactions x channel {vcr, vcr+bytes, har, har+bytes, junit} is "
    "executed on the real handlers and re-parsed; a case is non-trivial when the content is realisable in that slot (passes "
    "requests' own validation / is latin-1 where the wire is latin-1 / is an identifier for check names) and reaches a file; "
    "distinct = (slot, content, position, meta, response, interactions). (b) work item = (first phase, first letter); BFS over "
    "histories of letters {scenario(label, status, failures), non-fatal error, operation error, next phase}, each history "
    "closed into a complete protocol-conforming stream and executed by the real executor._execute; states merged by "
    "canon = (phase, statistic.failures, unique failures, JUnit labels, console error keys). (a-light, review round 2) the 15 "
    "boundary contents of mc/c16_extra.SMALL_CONTENTS in every slot: alone x {generate, none} x response {present, network error} x 1 "
    "interaction. (a2, review round 2) work item = a slice of one shape family of mc/c16_extra.py (response Content-Type x body, "
    "multi-valued response headers, exchange sequences, check-result lists, request shapes): every shape is written by all five "
    "writers at once and judged by the same oracles; distinct = (family, shape name)"
)
BOUNDS = {
    "quick": {"positions": 2, "meta_shapes": 4, "interactions": [1, 2], "history_depth": 4, "unmerged_depth": 2,
              "shape_families": {k: len(v) for k, v in extra.shape_families().items()}, "light_contents": len(extra.SMALL_CONTENTS)},
    "thorough": {"positions": 2, "meta_shapes": 4, "interactions": [1, 2], "history_depth": 5, "unmerged_depth": 3,
                 "shape_families": {k: len(v) for k, v in extra.shape_families().items()}, "light_contents": len(extra.SMALL_CONTENTS)},
}
BUDGET_S = {"quick": 150, "thorough": 2400}
CHUNK = 1
ASSUMPTIONS = [
    "contents outside the listed classes and longer than 4 characters are not enumerated; multi-valued headers only as the listed "
    "response shapes (values of one name adjacent; a request cannot carry a name twice through `requests`)",
    "response Content-Type shapes: a declared charset is only paired with bodies it can represent (what `lossless` means when the "
    "body contradicts the declared charset is left open); HAR `queryString` is compared with a hand-decoded query of the sent URL and "
    "left undecided for `+`, `;`, blank pieces, malformed escapes and non-UTF-8; HAR cookies / mimeType / sizes / dates are not judged "
    "(the property names method, URL, headers, status, body)",
    "a JUnit test-case name is demanded verbatim only when the label has no C0/C1 control, DEL, surrogate or noncharacter (XML cannot "
    "carry or normalises them); otherwise exactly one test case and a parsable file are demanded",
    "the VCR interaction `status` is demanded in two cases only: FAILURE when a recorded check failed, SUCCESS when checks were recorded "
    "and none failed",
    "only realisable slot/content pairs are judged: URL text goes through requests' own quoting, request headers through requests' "
    "validation, response headers/reason are latin-1 without CR/LF/edge whitespace, check names are Python identifiers, failure "
    "titles are the fixed built-in ones or `Custom check failed: `name``",
    "bodies that are not valid UTF-8 are only compared when preserve_bytes is on (the property says lossless for UTF-8 text otherwise)",
    "HAR has no place for check results and JUnit none for request details: checks are demanded of VCR (name + status) and of JUnit "
    "(failure listed under the scenario label) only",
    "histories: Interrupted/FatalError and Suite re-starts inside the stateful phase are not in the alphabet (handlers ignore Suite events)",
    "merged BFS states are assumed to have equal futures (argument in the comment above `canon`); the unmerged enumeration to "
    "`unmerged_depth` does not rely on it",
    "the 1 s join timeout of the writer thread is not modelled: the harness joins without limit before reading",
    "\"valid YAML\" is alarmed only when libyaml and PyYAML's pure-Python parser both reject the cassette; where they disagree (a lone "
    "surrogate in a coverage description/location/parameter is written as the escape \\uD800, which libyaml rejects and PyYAML accepts) the "
    "case is counted (`yaml_parsers_disagree`) and left undecided",
    "quick tier: the second operation (POST /b) of the history alphabet has the letters {pass, fail F1, error} only; thorough has the full set",
]
TECHNIQUE = (
    "small-scope exhaustive enumeration of report contents through the real handlers with independent re-parsing (E2) + explicit-state "
    "BFS over engine event histories executed by the real CLI loop `_execute` (E5)"
)
LEVEL_TEXT = (
    "Every slot x content x shape combination within the stated alphabet is written by the real writers and re-read by independent "
    "parsers; every event history up to the stated depth over the stated alphabet (modulo the documented state merge) is executed by "
    "the real `_execute` loop with all built-in handlers."
)
LEVEL_NOTE = (
    "Trusted: PyYAML / json / ElementTree as independent parsers, requests' request preparation as the definition of what is sent. Not "
    "covered: contents outside the alphabet, wall-clock behaviour of the writer thread's join timeout, sanitisation (C15)."
)

BASE = "http://h.local"

# --------------------------------------------------------------------------------------------------------------------
# alphabets
# --------------------------------------------------------------------------------------------------------------------

CONTENTS: dict[str, Any] = {
    "single_quote": "'",
    "double_quote": '"',
    "backslash": "\\",
    "colon": ":",
    "hash": "#",
    "lbrace": "{",
    "newline": "\n",
    "tab": "\t",
    "nul": "\x00",
    "nel_x85": "\x85",
    "e_acute": "é",
    "emoji": "😀",
    "latin1_ff": b"\xff",
    "invalid_utf8": b"\xc3\x28",
    "empty": "",
    "tilde": "~",
    "null_word": "null",
    "leading_space": " x",
    # two more members of the classes the property names ("control characters", "surrogates")
    "del_x7f": "\x7f",
    "lone_surrogate": "\ud800",
    # valid UTF-8 text outside YAML's printable set (c-printable ends at U+FFFD): must be escaped by a hand-written emitter
    "nonchar_ffff": "\uffff",
    "nonchar_fffe": "\ufffe",
}
# review round 2: very small boundary contents, run "light" (alone, metadata {generate, none}, one interaction)
CONTENTS.update(extra.SMALL_CONTENTS)
LIGHT = set(extra.SMALL_CONTENTS)
# characters XML 1.0 cannot carry at all, normalises inside an attribute value, or "discourages" (2.2: U+007F-U+009F, which junit_xml
# drops from attribute values): a test-case name holding one is not demanded verbatim (the property asks for valid XML)
_XML_UNFAITHFUL = set(map(chr, range(0x20))) | set(map(chr, range(0x7F, 0xA0))) | {"\ufffe", "\uffff"} | set(map(chr, range(0xD800, 0xE000)))
SLOTS = [
    "url_path", "url_query", "req_header", "resp_header", "req_header_name", "resp_header_name", "req_body", "resp_body", "reason",
    "check_name", "check_title", "check_message", "cov_description", "cov_location", "cov_parameter", "argv",
    "label",  # review round 2: the scenario label (operation label = METHOD + path template of the schema) -> JUnit test-case name
]
POSITIONS = ["alone", "infix"]
METAS = ["none", "generate", "explicit", "coverage"]
CHANNELS = [("junit", None), ("vcr", False), ("vcr", True), ("har", False), ("har", True)]
RESPONSE_SLOTS = {"resp_header", "resp_header_name", "resp_body", "reason", "check_name", "check_title", "check_message"}

DOC = {
    "openapi": "3.0.2",
    "info": {"title": "t", "version": "1"},
    "paths": {
        "/a": {"get": {"operationId": "getA", "responses": {"200": {"description": "ok"}}}},
        "/b": {"post": {"operationId": "postB", "responses": {"201": {"description": "ok", "links": {"A": {"operationId": "getA"}}}}}},
    },
}

_FX: dict[str, Any] = {}
_THREAD_ERRORS: list[dict] = []


def init_worker() -> None:
    warnings.simplefilter("ignore")

    def hook(args: Any) -> None:  # a crashing writer thread is an observation, not noise on stderr
        tb = traceback.extract_tb(args.exc_traceback)
        where = "?"
        for frame in reversed(tb):
            if "/schemathesis/" in frame.filename or "/harfile/" in frame.filename:
                where = f"{os.path.basename(frame.filename)}:{frame.name}"
                break
        _THREAD_ERRORS.append({"thread": args.thread, "error": type(args.exc_value).__name__, "where": where,
                               "message": str(args.exc_value)[:200]})

    threading.excepthook = hook


def fx() -> dict:
    if not _FX:
        import schemathesis
        from requests.adapters import HTTPAdapter

        from mc import engine as mce

        warnings.simplefilter("ignore")
        schema = schemathesis.openapi.from_dict(json.loads(json.dumps(DOC))).configure(base_url=BASE)
        _FX["schema"] = schema
        _FX["ops"] = {"GET /a": schema["/a"]["GET"], "POST /b": schema["/b"]["POST"]}
        _FX["adapter"] = HTTPAdapter()
        _FX["engine_config"] = mce.make_config()
        if threading.excepthook is threading.__excepthook__:
            init_worker()
    return _FX


# --------------------------------------------------------------------------------------------------------------------
# building real objects
# --------------------------------------------------------------------------------------------------------------------


def make_meta(shape: str, cov: dict | None = None) -> Any:
    from schemathesis.generation import GenerationMode
    from schemathesis.generation.meta import (CaseMetadata, ComponentInfo, ComponentKind, ExplicitPhaseData, GenerationInfo,
                                              PhaseInfo, TestPhase)

    if shape == "none":
        return None
    if shape == "generate":
        phase = PhaseInfo.generate()
    elif shape == "explicit":
        phase = PhaseInfo(name=TestPhase.EXPLICIT, data=ExplicitPhaseData())
    else:
        c = {"description": "Maximum length", "location": "/q", "parameter": "q", "parameter_location": "query"}
        c.update(cov or {})
        phase = PhaseInfo.coverage(**c)
    return CaseMetadata(
        generation=GenerationInfo(time=0.25, mode=GenerationMode.POSITIVE),
        components={ComponentKind.QUERY: ComponentInfo(mode=GenerationMode.POSITIVE)},
        phase=phase,
    )


def make_case(op_label: str, case_id: str, meta: Any) -> Any:
    case = fx()["ops"][op_label].Case(meta=meta)
    case.id = case_id
    return case


def make_prepared(method: str, url: str, headers: dict | None = None, params: Any = None, data: Any = None) -> Any:
    import requests

    return requests.Request(method, url, headers=headers or {}, params=params, data=data).prepare()


def make_response(prepared: Any, status: int, reason: str, headers: list, body: bytes) -> Any:
    from urllib3 import HTTPResponse
    from urllib3._collections import HTTPHeaderDict

    from schemathesis.core.transport import Response

    hdrs = HTTPHeaderDict()
    for k, v in headers:
        hdrs.add(k, v)
    raw = HTTPResponse(body=io.BytesIO(body), headers=hdrs, status=status, version=11, reason=reason, preload_content=False,
                       decode_content=False, request_method=prepared.method)
    resp = fx()["adapter"].build_response(prepared, raw)
    resp.elapsed = datetime.timedelta(milliseconds=125)
    return Response.from_requests(resp, verify=True)


def _wrap(value: Any, pos: str) -> Any:
    if pos == "alone":
        return value
    return b"a" + value + b"b" if isinstance(value, bytes) else "a" + value + "b"


def _latin1_text(raw: Any) -> str | None:
    """How `raw` arrives in a place the wire defines as latin-1 (response header value, reason phrase)."""
    if isinstance(raw, bytes):
        return raw.decode("latin-1")
    try:
        raw.encode("latin-1")
        return raw
    except UnicodeEncodeError:
        try:
            return raw.encode("utf-8").decode("latin-1")
        except UnicodeEncodeError:
            return None


def build_exchange(slot: str, cname: str, pos: str, meta_shape: str, with_response: bool, case_id: str) -> dict | None:
    """Build one real case + interaction with the content placed into the slot.

    Returns None when the content is not realisable in that slot (e.g. requests itself refuses the header value).
    The returned dict holds the real objects and `fed`: the facts the oracle compares against, taken from the
    PreparedRequest / the values handed to the Response, never from the recorder or the writers.
    """
    import requests

    from schemathesis.core.failures import Failure

    raw = CONTENTS[cname] if cname != "benign" else "x"
    is_bytes = isinstance(raw, bytes)
    url = BASE + "/b"
    params: Any = {"q": "1"}
    req_headers = {"X-T": "v", "Content-Type": "application/json"}
    req_body: Any = b'{"k": "v"}'
    status, reason = 500, "Internal Server Error"
    resp_headers = [("Content-Type", "application/json; charset=utf-8"), ("X-R", "v")]
    resp_body = b'{"r": 1}'
    check_name = "my_check"
    title = "Undocumented HTTP status code"
    message = "Received: 500\nDocumented: 201"
    cov: dict = {}
    argv = None
    label = "POST /b"
    try:
        if slot == "label":
            # the label of a unit scenario is `METHOD path-template`; the template is a key of the schema's `paths` (any JSON string)
            if is_bytes:
                return None
            label = "POST /b/" + _wrap(raw, pos)
        elif slot == "url_path":
            text = "".join(f"%{b:02X}" for b in raw) if is_bytes else raw
            text = _wrap(text, pos)
            text.encode("utf-8")
            url = BASE + "/b/" + text
        elif slot == "url_query":
            value = _wrap(raw, pos)
            if not is_bytes:
                value.encode("utf-8")
            params = {"q": value}
        elif slot == "req_header":
            text = raw.decode("latin-1") if is_bytes else raw
            text = _wrap(text, pos)
            text.encode("latin-1")
            req_headers["X-T"] = text
        elif slot in ("resp_header", "reason"):
            text = _latin1_text(raw)
            if text is None:
                return None
            text = _wrap(text, pos)
            if "\r" in text or "\n" in text or text != text.strip(" \t"):
                return None
            if slot == "reason":
                reason = text
            else:
                resp_headers[1] = ("X-R", text)
        elif slot in ("req_header_name", "resp_header_name"):
            # http.client accepts exactly the printable ASCII characters except ":" and " " in a field name (email.feedparser
            # headerRE, [\041-\071\073-\176]); requests' own validation of request header names is weaker than that
            if is_bytes or raw == "" or any(not ("\x21" <= ch <= "\x7e") or ch == ":" for ch in raw):
                return None
            name = "X-" + _wrap(raw, pos)
            if slot == "req_header_name":
                del req_headers["X-T"]
                req_headers[name] = "v"
            else:
                resp_headers[1] = (name, "v")
        elif slot in ("req_body", "resp_body"):
            data = raw if is_bytes else raw.encode("utf-8")
            data = _wrap(data, pos)
            if slot == "req_body":
                req_body = data
            else:
                resp_body = data
        elif slot in ("check_name", "check_title"):
            if is_bytes:
                return None
            name = _wrap(raw, pos)
            if not name.isidentifier():
                return None
            if slot == "check_name":
                check_name = name
            else:
                title = f"Custom check failed: `{name}`"
        elif slot == "check_message":
            if is_bytes:
                return None
            message = _wrap(raw, pos)
        elif slot.startswith("cov_"):
            if is_bytes:
                return None
            cov[slot[4:]] = _wrap(raw, pos)
        elif slot == "argv":
            text = os.fsdecode(raw) if is_bytes else raw
            text = _wrap(text, pos)
            if "\x00" in text or cname == "lone_surrogate":
                return None  # the OS cannot pass NUL; decoding argv yields only U+DC80..U+DCFF escapes, never U+D800
            argv = ["st", "run", text, BASE + "/openapi.json"]
        prepared = make_prepared("POST", url, req_headers, params, req_body)
    except (UnicodeError, requests.RequestException, ValueError):
        return None
    body = prepared.body
    if isinstance(body, str):
        body = body.encode("utf-8")
    meta = make_meta(meta_shape, cov)
    case = make_case("POST /b", case_id, meta)
    fed: dict[str, Any] = {
        "id": case_id, "method": prepared.method, "url": prepared.url, "req_headers": dict(prepared.headers), "req_body": body,
        "has_response": with_response, "checks": [],
    }
    out: dict[str, Any] = {"case": case, "prepared": prepared, "response": None, "fed": fed, "argv": argv, "failing": [], "label": label}
    if with_response:
        out["response"] = make_response(prepared, status, reason, resp_headers, resp_body)
        fed.update({"status": status, "reason": reason, "resp_headers": resp_headers, "resp_body": resp_body})
        fed["checks"] = [("not_a_server_error", "SUCCESS"), (check_name, "FAILURE")]
        out["failing"] = [(check_name, Failure(operation="POST /b", title=title, message=message))]
        fed["failure_title"] = title
    return out


def build_recorder(label: str, exchanges: list[dict]) -> Any:
    from schemathesis.engine.recorder import ScenarioRecorder

    rec = ScenarioRecorder(label=label)
    for ex in exchanges:
        case = ex["case"]
        rec.record_case(parent_id=None, transition=None, case=case)
        if ex["response"] is not None:
            rec.record_response(case_id=case.id, response=ex["response"])
            failing = list(ex["failing"])  # recorded in the order of the fed list (successes and failures interleaved as given)
            for name, status in ex["fed"]["checks"]:
                if status == "SUCCESS":
                    rec.record_check_success(name=name, case_id=case.id)
                else:
                    fname, failure = failing.pop(0)
                    assert fname == name
                    rec.record_check_failure(name=name, case_id=case.id, code_sample=f"curl -X POST {BASE}/b", failure=failure)
            assert not failing
        else:
            rec.record_request(case_id=case.id, request=ex["prepared"])
    return rec


# --------------------------------------------------------------------------------------------------------------------
# running the real handlers (part a: the executor's order, per-handler attribution)
# --------------------------------------------------------------------------------------------------------------------


def _where(exc: BaseException) -> str:
    tb = traceback.extract_tb(exc.__traceback__)
    for frame in reversed(tb):
        if "/schemathesis/" in frame.filename:
            return f"{os.path.basename(frame.filename)}:{frame.name}"
    return "?"


@contextlib.contextmanager
def tempdir() -> Iterator[str]:
    path = tempfile.mkdtemp(prefix=f"verif-c16-{os.environ.get('VERIF_C16_RUN', os.getpid())}-")
    try:
        yield path
    finally:
        shutil.rmtree(path, ignore_errors=True)


def finish_cassette_handlers(handlers: list) -> dict:
    """After `shutdown`: join the writer threads completely, close the lazy files (= process exit), collect thread crashes."""
    from schemathesis.cli.commands.run.handlers.cassettes import CassetteWriter
    from schemathesis.cli.commands.run.handlers.junitxml import JunitXMLHandler

    out: dict[int, dict] = {}
    for idx, h in enumerate(handlers):
        info: dict[str, Any] = {"alive": False, "thread_error": None}
        if isinstance(h, CassetteWriter):
            h.worker.join(20)
            info["alive"] = h.worker.is_alive()
            for err in _THREAD_ERRORS:
                if err["thread"] is h.worker:
                    info["thread_error"] = {k: v for k, v in err.items() if k != "thread"}
            if not info["alive"]:
                with contextlib.suppress(Exception):
                    h.path.close()
        elif isinstance(h, JunitXMLHandler):
            with contextlib.suppress(Exception):
                h.file_handle.close()
        out[idx] = info
    _THREAD_ERRORS.clear()
    return out


def run_contents(recorder: Any, status: Any, phase_name: Any, argv: list | None) -> dict:
    """Deliver one scenario to JUnit + 4 cassette writers the way executor._execute does; returns observations per channel."""
    from click.utils import LazyFile

    from schemathesis.cli.commands.run.context import ExecutionContext
    from schemathesis.cli.commands.run.handlers.cassettes import CassetteWriter
    from schemathesis.cli.commands.run.handlers.junitxml import JunitXMLHandler
    from schemathesis.cli.commands.run.reports import ReportFormat
    from schemathesis.cli.ext.fs import open_file
    from schemathesis.core.output import OutputConfig
    from schemathesis.engine import Status, events
    from schemathesis.engine.phases import Phase

    obs: dict[Any, dict] = {}
    old_argv = sys.argv
    with tempdir() as tmp:
        if argv is not None:
            sys.argv = argv
        try:
            ctx = ExecutionContext(output_config=OutputConfig(), seed=1)
            handlers = []
            paths = []
            for n, (channel, preserve) in enumerate(CHANNELS):
                ext = {"junit": "xml", "vcr": "yaml", "har": "json"}[channel]
                path = LazyFile(os.path.join(tmp, f"{n}.{ext}"), mode="w", encoding="utf-8")
                open_file(path)
                paths.append(path.name)
                if channel == "junit":
                    handlers.append(JunitXMLHandler(path))
                else:
                    fmt = ReportFormat.VCR if channel == "vcr" else ReportFormat.HAR
                    handlers.append(CassetteWriter(format=fmt, path=path, sanitize_output=False, preserve_bytes=bool(preserve)))
            raised: dict[int, dict] = {}
            for h in handlers:
                h.start(ctx)
            phase = Phase(name=phase_name, is_supported=True, is_enabled=True)
            suite = events.SuiteStarted(phase=phase_name)
            started = events.ScenarioStarted(phase=phase_name, suite_id=suite.id, label=recorder.label)
            stream = [
                events.EngineStarted(), events.PhaseStarted(phase=phase), suite, started,
                events.ScenarioFinished(id=started.id, phase=phase_name, suite_id=suite.id, label=recorder.label, status=status,
                                        recorder=recorder, elapsed_time=0.5, skip_reason=None, is_final=False),
                events.SuiteFinished(id=suite.id, phase=phase_name, status=status),
                events.PhaseFinished(phase=phase, status=status, payload=None),
                events.EngineFinished(running_time=1.0),
            ]
            ctx_error = None
            for event in stream:
                try:
                    ctx.on_event(event)
                except Exception as exc:  # noqa: BLE001 - observation
                    ctx_error = {"error": type(exc).__name__, "where": _where(exc), "message": str(exc)[:200]}
                    break
                for idx, h in enumerate(handlers):
                    if idx in raised:
                        continue  # the real loop aborts at the first raise; we keep the other channels for attribution
                    try:
                        h.handle_event(ctx, event)
                    except Exception as exc:  # noqa: BLE001 - observation
                        raised[idx] = {"error": type(exc).__name__, "where": _where(exc), "message": str(exc)[:200],
                                       "event": type(event).__name__}
            for h in handlers:
                h.shutdown(ctx)
            fin = finish_cassette_handlers(handlers)
        finally:
            sys.argv = old_argv
        for idx, key in enumerate(CHANNELS):
            data = b""
            with contextlib.suppress(OSError):
                data = Path(paths[idx]).read_bytes()
            obs[key] = {"raised": raised.get(idx), "thread_error": fin[idx]["thread_error"], "alive": fin[idx]["alive"],
                        "data": data, "ctx_error": ctx_error}
    return obs


# --------------------------------------------------------------------------------------------------------------------
# oracles (independent parsers; expectations come from `fed`)
# --------------------------------------------------------------------------------------------------------------------


def _utf8(data: bytes | None) -> str | None:
    if data is None:
        return None
    try:
        return data.decode("utf-8")
    except UnicodeDecodeError:
        return None


def _snippet(data: bytes, n: int = 700) -> str:
    return data[:n].decode("utf-8", "backslashreplace")


def load_yaml(data: bytes, res: Result | None = None) -> Any:
    """Two independent YAML parsers: libyaml (fast path) and PyYAML's pure-Python one.  "Not valid YAML" is reported only when
    both reject the document; a disagreement is counted and left undecided (raises the pure parser's verdict either way)."""
    import yaml

    loader = getattr(yaml, "CSafeLoader", None)
    if loader is None:
        return yaml.safe_load(data)
    try:
        return yaml.load(data, Loader=loader)  # noqa: S506 - CSafeLoader is the safe constructor on the libyaml parser
    except Exception:  # noqa: BLE001
        doc = yaml.safe_load(data)  # raises when the second parser agrees
        if res is not None:
            res.count("yaml_parsers_disagree")
        return doc


def judge_vcr(data: bytes, feds: list[dict], preserve: bool, res: Result) -> list[tuple]:
    try:
        doc = load_yaml(data, res)
    except Exception as exc:  # noqa: BLE001 - any failure of the independent parsers is "not valid YAML"
        return [("unparsable", type(exc).__name__, " ".join(str(exc).split())[:300])]
    if not isinstance(doc, dict) or "http_interactions" not in doc:
        return [("structure", "http_interactions", repr(doc)[:200])]
    entries = doc["http_interactions"] or []
    if not isinstance(entries, list) or any(not isinstance(e, dict) for e in entries):
        return [("structure", "http_interactions", repr(entries)[:200])]
    out: list[tuple] = []
    got_ids = sorted(str(e.get("id")) for e in entries)
    if got_ids != sorted(f["id"] for f in feds):
        out.append(("exchanges", "ids", f"got {got_ids} expected {sorted(f['id'] for f in feds)}"))
    for fed in feds:
        mine = [e for e in entries if str(e.get("id")) == fed["id"]]
        if len(mine) != 1:
            continue
        e = mine[0]

        def diff(field: str, got: Any, want: Any) -> None:
            if got != want:
                out.append(("mismatch", field, f"got {got!r} expected {want!r}"[:300]))

        try:
            req = e["request"]
            diff("request.uri", req["uri"], fed["url"])
            diff("request.method", req["method"], fed["method"])
            got_req_headers = {str(k).lower(): v for k, v in req["headers"].items()} if isinstance(req["headers"], dict) else req["headers"]
            diff("request.headers", got_req_headers, {k.lower(): [v] for k, v in fed["req_headers"].items()})  # names are case-insensitive
            body = req.get("body")
            want = fed["req_body"]
            if preserve:
                got_bytes = base64.b64decode(body["base64_string"]) if body else b""
                diff("request.body", got_bytes, want or b"")
            elif _utf8(want) is not None:
                diff("request.body", body["string"] if body else "", _utf8(want))
            else:
                res.count("body_not_utf8_not_demanded")
            checks = [(c.get("name"), c.get("status")) for c in (e.get("checks") or [])]
            diff("checks", checks, [tuple(c) for c in fed["checks"]])
            # the interaction's own status summarises its check results: the two cases the property leaves no room for
            if any(st == "FAILURE" for _, st in fed["checks"]):
                diff("status", e.get("status"), "FAILURE")
            elif fed["checks"]:
                diff("status", e.get("status"), "SUCCESS")
            if fed.get("check_titles") and len(checks) == len(fed["checks"]):
                # which failure belongs to which check result (the cassette has the failure's title as `message`)
                got_titles = [c.get("message") for c, (_, st) in zip(e["checks"], fed["checks"]) if st == "FAILURE"]
                diff("checks.message", got_titles, [t for t in fed["check_titles"] if t is not None])
            if not fed["has_response"]:
                diff("response", e["response"], None)
                continue
            resp = e["response"]
            diff("response.status.code", str(resp["status"]["code"]), str(fed["status"]))
            diff("response.status.message", resp["status"]["message"], fed["reason"])
            want_headers: dict[str, list] = {}
            for k, v in fed["resp_headers"]:
                want_headers.setdefault(k.lower(), []).append(v)
            got_headers = {str(k).lower(): v for k, v in resp["headers"].items()} if isinstance(resp["headers"], dict) else resp["headers"]
            diff("response.headers", got_headers, want_headers)
            body = resp.get("body")
            want = fed["resp_body"]
            if preserve:
                got_bytes = base64.b64decode(body["base64_string"]) if body else b""
                diff("response.body", got_bytes, want)
            elif _utf8(want) is not None:
                # lossless for UTF-8 text: the recorded string, under the recorded encoding, is the body that was received
                if body is None:
                    diff("response.body", "", _utf8(want))
                else:
                    try:
                        diff("response.body", body["string"].encode(body["encoding"]), want)
                    except (LookupError, UnicodeError, AttributeError):
                        diff("response.body", body["string"], _utf8(want))
            else:
                res.count("body_not_utf8_not_demanded")
        except (KeyError, TypeError, AttributeError, ValueError) as exc:
            out.append(("structure", type(exc).__name__, str(exc)[:200]))
    return out


def independent_query(url: str) -> list[tuple[str, str]] | None:
    """The (name, value) pairs of the query component of `url`, decoded by hand (RFC 3986 percent-decoding, UTF-8).  None = leave
    undecided: no query, `+` (space in form encoding, literal plus in RFC 3986), `;`, blank pieces, malformed escapes, not UTF-8."""
    rest = url.split("#", 1)[0]
    if "?" not in rest:
        return []
    query = rest.split("?", 1)[1]
    if query == "":
        return []
    if "+" in query or ";" in query:
        return None
    out = []
    for piece in query.split("&"):
        if piece == "":
            return None
        name, _, value = piece.partition("=")
        decoded = []
        for part in (name, value):
            raw = bytearray()
            idx = 0
            while idx < len(part):
                ch = part[idx]
                if ch == "%":
                    hexdigits = part[idx + 1: idx + 3]
                    if len(hexdigits) != 2 or any(c not in "0123456789abcdefABCDEF" for c in hexdigits):
                        return None
                    raw.append(int(hexdigits, 16))
                    idx += 3
                else:
                    if ord(ch) > 0x7E or ord(ch) < 0x21:
                        return None
                    raw.append(ord(ch))
                    idx += 1
            try:
                decoded.append(raw.decode("utf-8"))
            except UnicodeDecodeError:
                return None
        out.append((decoded[0], decoded[1]))
    return out


def _har_headers(records: list, fed_headers: list) -> list[tuple[str, str]]:
    """HAR header records as (lower-case name, value).  Only when a name was received more than once: records are grouped by
    name in the order the names were first received (a mapping keeps no order between different names), and one record holding the
    values joined by ", " counts as all of them (RFC 9110 5.3; not for Set-Cookie, which has no list syntax)."""
    got = [(h["name"].lower(), h["value"]) for h in records]
    wanted: dict[str, list[str]] = {}
    for k, v in fed_headers:
        wanted.setdefault(k.lower(), []).append(v)
    if all(len(vs) == 1 for vs in wanted.values()):
        return got
    out: list[tuple[str, str]] = []
    for name, values in wanted.items():
        mine = [v for k, v in got if k == name]
        if len(values) > 1 and name != "set-cookie" and mine == [", ".join(values)]:
            mine = values
        out.extend((name, v) for v in mine)
    out.extend((k, v) for k, v in got if k not in wanted)
    return out  # comparable with the fed list as long as that lists the values of one name next to each other (the enumerator does)


def judge_har(data: bytes, feds: list[dict], preserve: bool, res: Result) -> list[tuple]:
    try:
        doc = json.loads(data)
    except Exception as exc:  # noqa: BLE001
        return [("unparsable", type(exc).__name__, str(exc)[:300])]
    try:
        entries = doc["log"]["entries"]
        assert isinstance(entries, list)
    except (KeyError, TypeError, AssertionError):
        return [("structure", "log.entries", repr(doc)[:200])]
    out: list[tuple] = []
    if len(entries) != len(feds):
        out.append(("exchanges", "count", f"got {len(entries)} expected {len(feds)}"))
        return out
    for e, fed in zip(entries, feds):

        def diff(field: str, got: Any, want: Any) -> None:
            if got != want:
                out.append(("mismatch", field, f"got {got!r} expected {want!r}"[:300]))

        try:
            req = e["request"]
            diff("request.uri", req["url"], fed["url"])
            diff("request.method", req["method"], fed["method"])
            diff("request.headers", [(h["name"].lower(), h["value"]) for h in req["headers"]],
                 [(k.lower(), v) for k, v in fed["req_headers"].items()])
            want_query = independent_query(fed["url"])
            if want_query is None:
                res.count("har_query_undecided")
            else:
                res.count("har_query_judged")
                diff("request.queryString", [(q["name"], q["value"]) for q in req["queryString"]], want_query)
            post = req.get("postData")
            want = fed["req_body"]
            if want is None:
                diff("request.body", post, None)
            elif preserve:
                diff("request.body", base64.b64decode(post["text"]), want)
            elif _utf8(want) is not None:
                diff("request.body", post["text"], _utf8(want))
            else:
                res.count("body_not_utf8_not_demanded")
            resp = e["response"]
            if not fed["has_response"]:
                diff("response", resp["status"], 0)
                continue
            diff("response.status.code", resp["status"], fed["status"])
            diff("response.status.message", resp["statusText"], fed["reason"])
            diff("response.headers", _har_headers(resp["headers"], fed["resp_headers"]), [(k.lower(), v) for k, v in fed["resp_headers"]])
            content = resp["content"]
            want = fed["resp_body"]
            text = content.get("text")
            if preserve:
                if want:
                    diff("response.body.encoding", content.get("encoding"), "base64")
                diff("response.body", base64.b64decode(text) if text else b"", want)
            elif _utf8(want) is not None:
                diff("response.body", text or "", _utf8(want))
            else:
                res.count("body_not_utf8_not_demanded")
        except (KeyError, TypeError, AttributeError, ValueError) as exc:
            out.append(("structure", type(exc).__name__, str(exc)[:200]))
    return out


def parse_junit(data: bytes) -> tuple[Any, tuple | None]:
    import xml.etree.ElementTree as ET

    try:
        return ET.parse(io.BytesIO(data)).getroot(), None
    except Exception as exc:  # noqa: BLE001
        return None, ("unparsable", type(exc).__name__, str(exc)[:300])


def judge_junit(data: bytes, label: str, feds: list[dict]) -> list[tuple]:
    root, err = parse_junit(data)
    if err is not None:
        return [err]
    cases = list(root.iter("testcase"))
    names = [c.get("name") for c in cases]
    if len(names) != 1:
        return [("exchanges", "testcases", f"got {names} expected {[label]}")]
    if names != [label] and not (set(label) & _XML_UNFAITHFUL):
        # a name with characters XML cannot carry (or normalises in attributes) is only demanded to yield ONE test case
        return [("exchanges", "testcases", f"got {names} expected {[label]}")]
    out = []
    titles = [f["failure_title"] for f in feds if f.get("failure_title")]
    text = " ".join((f.get("message") or "") + (f.text or "") for f in cases[0].findall("failure"))
    if titles:
        # the first failure of a scenario is new to the run: it must be listed under the scenario's test case
        if titles[0] not in text:
            out.append(("mismatch", "checks", f"title {titles[0]!r} not listed in {text[:200]!r}"))
    # shapes (review round 2): every failing check carries a failure of its own (distinct one-line message), so none of them is a
    # repetition of another one: each must be listed with its title and its message
    for fed in feds:
        for title, message in fed.get("distinct_failures", []):
            if title not in text or message not in text:
                out.append(("mismatch", "checks", f"failure {title!r} / {message!r} not listed in {text[:300]!r}"))
                break
    return out


# --------------------------------------------------------------------------------------------------------------------
# part (a)
# --------------------------------------------------------------------------------------------------------------------

_PHASE_FOR_META = {"none": "EXAMPLES", "generate": "FUZZING", "explicit": "EXAMPLES", "coverage": "COVERAGE"}


def run_combo(slot: str, cname: str, pos: str, meta: str, with_response: bool, n: int, res: Result) -> dict | None:
    """Returns {channel-key: [judgements]} for one combination, None if not realisable."""
    from schemathesis.engine import Status
    from schemathesis.engine.phases import PhaseName

    first = build_exchange(slot, cname, pos, meta, with_response, "c1")
    if first is None:
        return None
    exchanges = [first]
    if n == 2:
        second = build_exchange("none", "benign", "alone", "generate", True, "c2")
        assert second is not None
        # a network error (no response, no checks) FOLLOWS an exchange that has checks: per-exchange data must not carry over
        exchanges = [second, first] if not with_response else [first, second]
    recorder = build_recorder(first["label"], exchanges)
    status = Status.FAILURE if any(ex["failing"] for ex in exchanges) else Status.ERROR
    obs = run_contents(recorder, status, PhaseName[_PHASE_FOR_META[meta]], first["argv"])
    feds = [ex["fed"] for ex in exchanges]
    out: dict[Any, list] = {}
    for key in CHANNELS:
        channel, preserve = key
        o = obs[key]
        res.evaluations += 1
        res.traces += 1
        judgements: list[tuple] = []
        if o["ctx_error"] is not None:
            judgements.append(("context_raised", o["ctx_error"]["error"], o["ctx_error"]["where"] + ": " + o["ctx_error"]["message"]))
        elif o["raised"] is not None:
            judgements.append(("handler_raised", o["raised"]["error"], o["raised"]["where"] + ": " + o["raised"]["message"]))
        elif o["alive"]:
            judgements.append(("writer_thread_hangs", "alive_after_shutdown", ""))
        elif o["thread_error"] is not None:
            judgements.append(("writer_thread_crashed", o["thread_error"]["error"],
                               o["thread_error"]["where"] + ": " + o["thread_error"]["message"]))
        elif channel == "vcr":
            judgements = judge_vcr(o["data"], feds, bool(preserve), res)
        elif channel == "har":
            judgements = judge_har(o["data"], feds, bool(preserve), res)
        else:
            judgements = judge_junit(o["data"], first["label"], feds)
        out[key] = [(j, _snippet(o["data"])) for j in judgements]
        res.outcomes.add(f"{channel}:{judgements[0][0] if judgements else 'ok'}")
    return out


_BASELINE: dict[tuple, set] = {}


def baseline(meta: str, with_response: bool, n: int) -> set:
    """Judgements the same shape already gets with benign content: such alarms are not about the content."""
    key = (meta, with_response, n)
    if key not in _BASELINE:
        scratch = Result()
        got = run_combo("none", "benign", "alone", meta, with_response, n, scratch)
        assert got is not None
        _BASELINE[key] = {(ck, j[0][0], j[0][1]) for ck, js in got.items() for j in js}
    return _BASELINE[key]


def _collapse(values: list, universe: list) -> Any:
    vs = sorted(set(values), key=repr)
    if len(vs) == len(set(universe)) and len(vs) > 1:
        return "any"
    if len(vs) == 1:
        return vs[0]
    return "|".join(str(v) for v in vs)


def check_contents(item: dict, tier: str) -> Result:
    res = Result()
    fx()
    slot, cname = item["slot"], item["content"]
    is_baseline = slot == "baseline"
    light = cname in LIGHT
    metas = ["coverage"] if slot.startswith("cov_") else (["generate", "none"] if light else METAS)
    positions = ["alone"] if is_baseline or light else POSITIONS
    interactions = [1] if light else BOUNDS[tier]["interactions"]
    found: dict[tuple, list] = {}  # (channel, kind, field) -> [(combo, note, snippet)]
    judged: list[tuple] = []
    for pos in positions:
        for meta in metas:
            for with_response in (True, False):
                if not with_response and slot in RESPONSE_SLOTS:
                    continue
                for n in interactions:
                    got = run_combo("none" if is_baseline else slot, "benign" if is_baseline else cname, pos, meta, with_response, n, res)
                    if got is None:
                        res.count("not_realisable_combos")
                        continue
                    res.count("combos")
                    res.nontriv([slot, cname, pos, meta, with_response, n])
                    judged.append((pos, meta, with_response, n))
                    for (channel, preserve), js in got.items():
                        for (kind, field, note), snippet in js:
                            if not is_baseline and ((channel, preserve), kind, field) in baseline(meta, with_response, n):
                                res.count("masked_by_shape_defect")
                                continue
                            found.setdefault((channel, kind, field), []).append(((pos, meta, with_response, n, preserve), note, snippet))
    if len(res.samples) < 2 and judged:
        res.samples.append({"part": "contents", "slot": slot, "content": cname, "combos": len(judged)})
    for (channel, kind, field), hits in sorted(found.items()):
        combos = [h[0] for h in hits]
        sig = {
            "part": "contents", "channel": channel, "kind": kind, "field": field,
            "meta": _collapse([c[1] for c in combos], [j[1] for j in judged]),
            "response": _collapse(["present" if c[2] else "network_error" for c in combos],
                                  ["present" if j[2] else "network_error" for j in judged]),
        }
        if channel != "junit":
            sig["preserve_bytes"] = _collapse([c[4] for c in combos], [True, False])
        if is_baseline:
            sig["cause"] = "shape"
        else:
            sig["cause"] = "content"
            sig["slot"] = slot
            sig["content"] = cname
            sig["position"] = _collapse([c[0] for c in combos], [j[0] for j in judged])
        combo, note, snippet = hits[0]
        res.violation(sig, {"first_combo": {"position": combo[0], "meta": combo[1], "response_present": combo[2],
                                            "interactions": combo[3], "preserve_bytes": combo[4]},
                            "combos_violating": len(combos), "combos_judged": len(judged), "note": note,
                            "content_repr": repr(CONTENTS.get(cname, "x")), "z_file_head": snippet})
    return res


# --------------------------------------------------------------------------------------------------------------------
# part (a2), review round 2: value-independent SHAPES of a scenario (mc/c16_extra.py), same handlers, same oracles
# --------------------------------------------------------------------------------------------------------------------

_DEFAULT_CHECKS = [["not_a_server_error", "SUCCESS"], ["my_check", "FAILURE"]]


def build_spec_exchange(spec: dict, case_id: str) -> dict:
    """One real case + interaction from an enumerated spec; `fed` comes from the PreparedRequest / the values handed to the Response."""
    from schemathesis.core.failures import Failure

    method = spec.get("method", "POST")
    path = spec.get("path", "/b")
    query = spec.get("query", [["q", "1"]])
    req_headers = dict(spec.get("req_headers", [["X-T", "v"], ["Content-Type", "application/json"]]))
    body_spec = spec.get("req_body", {"hex": b'{"k": "v"}'.hex()})
    data: Any = None
    if body_spec is not None:
        if "hex" in body_spec:
            data = bytes.fromhex(body_spec["hex"])
        elif "form" in body_spec:
            data = [tuple(p) for p in body_spec["form"]]  # requests form-encodes it: PreparedRequest.body is a `str`
        else:
            data = body_spec["text"]
    prepared = make_prepared(method, BASE + path, req_headers, [tuple(p) for p in query] if query else None, data)
    body = prepared.body
    if isinstance(body, str):
        body = body.encode("utf-8")
    op_label = "GET /a" if path == "/a" else "POST /b"
    case = make_case(op_label, case_id, make_meta(spec.get("meta", "generate")))
    fed: dict[str, Any] = {"id": case_id, "method": prepared.method, "url": prepared.url, "req_headers": dict(prepared.headers),
                           "req_body": body, "has_response": spec.get("response") is not None, "checks": []}
    out: dict[str, Any] = {"case": case, "prepared": prepared, "response": None, "fed": fed, "argv": None, "failing": [], "label": "POST /b"}
    resp = spec.get("response")
    if resp is not None:
        resp_headers = [tuple(h) for h in resp["headers"]]
        resp_body = bytes.fromhex(resp["body"])
        out["response"] = make_response(prepared, resp["status"], resp["reason"], resp_headers, resp_body)
        fed.update({"status": resp["status"], "reason": resp["reason"], "resp_headers": resp_headers, "resp_body": resp_body})
        checks = spec.get("checks", _DEFAULT_CHECKS)
        if checks is not None:
            fed["checks"] = [tuple(c) for c in checks]
            fed["check_titles"] = []
            fed["distinct_failures"] = []
            for idx, (name, status) in enumerate(checks):
                if status == "FAILURE":
                    title, message = f"Custom check failed: `{name}`", f"message {case_id} {idx}"
                    out["failing"].append((name, Failure(operation="POST /b", title=title, message=message)))
                    fed["check_titles"].append(title)
                    fed["distinct_failures"].append((title, message))
                else:
                    fed["check_titles"].append(None)
    return out


def check_shapes(item: dict, tier: str) -> Result:
    from schemathesis.engine import Status
    from schemathesis.engine.phases import PhaseName

    res = Result()
    fx()
    family = item["family"]
    shapes = extra.shape_families()[family][item["start"]: item["stop"]]
    found: dict[tuple, list] = {}  # (tag, channel, kind, field) -> [(shape name, preserve, note, snippet)]
    judged: dict[str, list] = {}
    for shape in shapes:
        exchanges = [build_spec_exchange(spec, f"c{idx + 1}") for idx, spec in enumerate(shape["exchanges"])]
        label = shape.get("label", "POST /b")
        recorder = build_recorder(label, exchanges)
        if any(ex["failing"] for ex in exchanges):
            status = Status.FAILURE
        elif any(ex["response"] is None for ex in exchanges):
            status = Status.ERROR
        else:
            status = Status.SUCCESS
        obs = run_contents(recorder, status, PhaseName.FUZZING, None)
        feds = [ex["fed"] for ex in exchanges]
        res.count("shapes")
        res.count(f"shapes_{family}")
        res.nontriv(["shape", family, shape["name"]])
        judged.setdefault(shape["tag"], []).append(shape["name"])
        for key in CHANNELS:
            channel, preserve = key
            o = obs[key]
            res.evaluations += 1
            res.traces += 1
            if o["ctx_error"] is not None:
                judgements = [("context_raised", o["ctx_error"]["error"], o["ctx_error"]["where"] + ": " + o["ctx_error"]["message"])]
            elif o["raised"] is not None:
                judgements = [("handler_raised", o["raised"]["error"], o["raised"]["where"] + ": " + o["raised"]["message"])]
            elif o["alive"]:
                judgements = [("writer_thread_hangs", "alive_after_shutdown", "")]
            elif o["thread_error"] is not None:
                judgements = [("writer_thread_crashed", o["thread_error"]["error"], o["thread_error"]["where"] + ": " + o["thread_error"]["message"])]
            elif channel == "vcr":
                judgements = judge_vcr(o["data"], feds, bool(preserve), res)
            elif channel == "har":
                judgements = judge_har(o["data"], feds, bool(preserve), res)
            else:
                judgements = judge_junit(o["data"], label, feds)
            res.outcomes.add(f"{channel}:{judgements[0][0] if judgements else 'ok'}")
            for kind, field, note in judgements:
                found.setdefault((shape["tag"], channel, kind, field), []).append((shape["name"], preserve, note, _snippet(o["data"], 1500)))
    if shapes:
        res.samples.append({"part": "shapes", "family": family, "shapes": [sh["name"] for sh in shapes][:6]})
    for (tag, channel, kind, field), hits in sorted(found.items()):
        sig = {"part": "shapes", "family": family, "shape": tag, "channel": channel, "kind": kind, "field": field}
        if channel != "junit":
            sig["preserve_bytes"] = _collapse([h[1] for h in hits], [True, False])
        name, preserve, note, snippet = hits[0]
        res.violation(sig, {"first_shape": name, "shapes_violating": sorted({h[0] for h in hits}), "shapes_judged_with_this_tag": judged[tag],
                            "preserve_bytes": preserve, "note": note,
                            "spec": next(sh for sh in shapes if sh["name"] == name)["exchanges"], "z_file_head": snippet})
    return res


# --------------------------------------------------------------------------------------------------------------------
# part (b): histories through the real `_execute`
# --------------------------------------------------------------------------------------------------------------------

PHASES = ["EXAMPLES", "COVERAGE", "FUZZING", "STATEFUL_TESTING"]
UNIT_LABELS = ["GET /a", "POST /b"]
STATEFUL_LABEL = "Stateful tests"
_ORDER = {"SUCCESS": 0, "FAILURE": 1, "ERROR": 2}


def letters_for(phase: str, tier: str) -> list[list]:
    """The alphabet available in a phase.  Failure names: F1/F2 = two distinct failures of the scenario's own operation;
    a repeated "F1" inside one scenario is F1' (a second, equal object on another case); F1a/F2a/F1b name the operation
    (stateful scenarios touch several operations)."""
    out: list[list] = []
    if phase != "STATEFUL_TESTING":
        for label in UNIT_LABELS:
            reduced = tier == "quick" and label != UNIT_LABELS[0]  # quick: the second operation only needs to exist, pass, fail, err
            out.append(["sf", label, "SUCCESS", []])
            if not reduced:
                out.append(["sf", label, "SKIP", []])
            for fs in (["F1"], ["F2"], ["F1", "F2"], ["F1", "F1"]):
                if not reduced or fs == ["F1"]:
                    out.append(["sf", label, "FAILURE", fs])
            if not reduced:
                out.append(["sf", label, "ERROR", []])
            if tier == "thorough":
                out.append(["sf", label, "ERROR", ["F1"]])
            out.append(["nfe", label])
            if not reduced:
                out.append(["opfail", label])
        out.append(["nfe", "-"])
    else:
        out.append(["sf", STATEFUL_LABEL, "SUCCESS", []])
        out.append(["sf", STATEFUL_LABEL, "SKIP", []])
        for fs in (["F1a"], ["F2a"], ["F1b"], ["F1a", "F2a"], ["F1a", "F1a"], ["F1a", "F1b"]):
            out.append(["sf", STATEFUL_LABEL, "FAILURE", fs])
        out.append(["sf", STATEFUL_LABEL, "ERROR", []])
        out.append(["nfe", STATEFUL_LABEL])
    for later in PHASES[PHASES.index(phase) + 1:]:
        out.append(["phase", later])
    return out


def _failure(name: str, own_label: str) -> Any:
    from schemathesis.core.failures import Failure

    operation = {"a": "GET /a", "b": "POST /b"}.get(name[2:3], own_label)
    return Failure(operation=operation, title="Undocumented HTTP status code", message=f"message of {name[:2]}")


def _plain_exchange(op_label: str, case_id: str, with_response: bool = True) -> dict:
    method, path = op_label.split(" ")
    prepared = make_prepared(method, BASE + path, {"X-T": "v"})
    case = make_case(op_label, case_id, make_meta("generate"))
    response = None
    if with_response:
        response = make_response(prepared, 500, "Internal Server Error", [("Content-Type", "application/json")], b"{}")
    return {"case": case, "prepared": prepared, "response": response}


def build_stream(history: list) -> tuple[list, dict]:
    """history = [first phase, letter, ...] -> (complete protocol-conforming event list, expectations of the oracle)."""
    from schemathesis.cli.commands.run.events import LoadingFinished, LoadingStarted
    from schemathesis.core.result import Ok
    from schemathesis.engine import Status, events
    from schemathesis.engine.phases import Phase, PhaseName, PhaseSkipReason
    from schemathesis.engine.phases.probes import NullByteInHeader, ProbeOutcome, ProbePayload, ProbeRun
    from schemathesis.engine.recorder import ScenarioRecorder

    schema = fx()["schema"]
    out: list = []
    expect: dict[str, Any] = {"labels": [], "interaction_ids": [], "scenarios": []}
    loading = LoadingStarted(location=BASE + "/openapi.json")
    out.append(loading)
    out.append(LoadingFinished(location=loading.location, start_time=loading.timestamp, base_url=BASE, base_path="/",
                               specification=schema.specification, statistic=schema.statistic, schema=schema.raw_schema))
    out.append(events.EngineStarted())
    probing = Phase(name=PhaseName.PROBING, is_supported=True, is_enabled=True)
    out.append(events.PhaseStarted(phase=probing))
    out.append(events.PhaseFinished(phase=probing, status=Status.SUCCESS,
                                    payload=Ok(ProbePayload(probes=[ProbeRun(NullByteInHeader(), ProbeOutcome.SUCCESS)]))))
    state: dict[str, Any] = {"phase": None, "phase_obj": None, "suite": None, "worst": None}

    def label_seen(label: str) -> None:
        if label not in expect["labels"]:
            expect["labels"].append(label)

    def bump(status: str) -> None:
        if status in _ORDER and (state["worst"] is None or _ORDER[status] > _ORDER[state["worst"]]):
            state["worst"] = status

    def close_phase() -> None:
        status = Status[state["worst"]] if state["worst"] else Status.SKIP
        out.append(events.SuiteFinished(id=state["suite"].id, phase=PhaseName[state["phase"]], status=status))
        out.append(events.PhaseFinished(phase=state["phase_obj"], status=status, payload=None))

    def skip_phases(names: list[str]) -> None:
        for name in names:
            disabled = Phase(name=PhaseName[name], is_supported=True, is_enabled=False, skip_reason=PhaseSkipReason.DISABLED)
            out.append(events.PhaseStarted(phase=disabled))
            out.append(events.PhaseFinished(phase=disabled, status=Status.SKIP, payload=None))

    def open_phase(name: str) -> None:
        state.update(phase=name, phase_obj=Phase(name=PhaseName[name], is_supported=True, is_enabled=True), worst=None)
        out.append(events.PhaseStarted(phase=state["phase_obj"]))
        state["suite"] = events.SuiteStarted(phase=PhaseName[name])
        out.append(state["suite"])

    skip_phases(PHASES[: PHASES.index(history[0])])
    open_phase(history[0])
    for step, letter in enumerate(history[1:], 1):
        kind = letter[0]
        phase_name = PhaseName[state["phase"]] if state["phase"] else None
        stateful = state["phase"] == "STATEFUL_TESTING"
        if kind == "phase":
            close_phase()
            skip_phases(PHASES[PHASES.index(state["phase"]) + 1: PHASES.index(letter[1])])
            open_phase(letter[1])
            continue
        label = letter[1]
        event_label = None if stateful else label
        if kind == "nfe" and (stateful or label == "-"):
            # bare error: unit worker `on_error` without an operation / stateful runner's inner error
            out.append(events.NonFatalError(error=RuntimeError("boom"), phase=phase_name, label=label, related_to_operation=False))
            label_seen(label)
            bump("ERROR")
            continue
        started = events.ScenarioStarted(phase=phase_name, suite_id=state["suite"].id, label=event_label)
        out.append(started)
        skip_reason = None
        is_final = False
        failures: list = []
        if kind == "opfail":
            # unit worker `on_error` with an operation: the recorder is labelled "Error"
            out.append(events.NonFatalError(error=RuntimeError("boom"), phase=phase_name, label=label, related_to_operation=True))
            label_seen("Error")
            label_seen(label)
            recorder = ScenarioRecorder(label="Error")
            status = "ERROR"
            is_final = True
        elif kind == "nfe":
            # run_test: an error without any executed case (e.g. Unsatisfiable)
            label_seen(label)
            out.append(events.NonFatalError(error=RuntimeError("boom"), phase=phase_name, label=label, related_to_operation=True))
            recorder = ScenarioRecorder(label=label)
            status = "ERROR"
        else:
            status, names = letter[2], letter[3]
            label_seen(label)
            recorder = ScenarioRecorder(label=label)
            if status == "SKIP":
                skip_reason = None if stateful else "No examples in schema"
            else:
                groups: list[list[str]] = [[n] for n in names]
                if len(names) == 2 and names[0] != names[1] and not stateful:
                    groups = [names]  # two distinct failures of one case
                if not groups:
                    groups = [[]]
                for j, group in enumerate(groups):
                    own = label if not stateful else {"a": "GET /a", "b": "POST /b"}.get((group or ["F1a"])[0][2:3], "GET /a")
                    network_error = status == "ERROR" and not group
                    ex = _plain_exchange(own, f"s{step}c{j}", with_response=not network_error)
                    recorder.record_case(parent_id=None, transition=None, case=ex["case"])
                    expect["interaction_ids"].append(ex["case"].id)
                    if network_error:
                        recorder.record_request(case_id=ex["case"].id, request=ex["prepared"])
                        continue
                    recorder.record_response(case_id=ex["case"].id, response=ex["response"])
                    if not group:
                        recorder.record_check_success(name="status_code_conformance", case_id=ex["case"].id)
                    for name in group:
                        failure = _failure(name, own)
                        failures.append((failure.operation, failure.message))
                        recorder.record_check_failure(name="status_code_conformance", case_id=ex["case"].id,
                                                      code_sample=f"curl -X GET {BASE}/a", failure=failure)
                if status == "ERROR":
                    out.append(events.NonFatalError(error=RuntimeError("boom"), phase=phase_name, label=label,
                                                    related_to_operation=not stateful))
        expect["scenarios"].append({"index": len(out), "label": recorder.label, "status": status, "failures": failures})
        out.append(events.ScenarioFinished(id=started.id, phase=phase_name, suite_id=state["suite"].id, label=event_label,
                                           status=Status[status], recorder=recorder, elapsed_time=0.25, skip_reason=skip_reason,
                                           is_final=is_final))
        if status != "SKIP":
            bump(status)
    close_phase()
    skip_phases(PHASES[PHASES.index(state["phase"]) + 1:])
    out.append(events.EngineFinished(running_time=1.0))
    return out, expect


def scenario_facts(stream: list, upto: int) -> dict:
    """Facts about the ScenarioFinished event at position `upto`, computed from the events alone (oracle side):
    is every failure it carries a repetition of one delivered earlier, and under which labels."""
    from schemathesis.engine import events

    def failures_of(event: Any) -> list:
        return [c.failure_info.failure for checks in event.recorder.checks.values() for c in checks if c.failure_info is not None]

    event = stream[upto]
    if not isinstance(event, events.ScenarioFinished):
        return {"event": type(event).__name__}
    seen: list[tuple] = []  # (failure, label) delivered before
    own_seen: set = set()
    for earlier in stream[:upto]:
        if isinstance(earlier, events.ScenarioFinished):
            for f in failures_of(earlier):
                seen.append((f, earlier.recorder.label))
    mine = failures_of(event)
    new = [f for f in mine if not any(f == g for g, _ in seen)]
    labels_of_repeats = {lbl for f in mine for g, lbl in seen if f == g}
    label = event.recorder.label
    label_has_new_failures_before = False
    acc: list = []
    for earlier in stream[:upto]:
        if isinstance(earlier, events.ScenarioFinished):
            for f in failures_of(earlier):
                if not any(f == g for g in acc):
                    acc.append(f)
                    if earlier.recorder.label == label:
                        label_has_new_failures_before = True
    del own_seen
    return {
        "event": "ScenarioFinished",
        "status": event.status.name,
        "label_kind": "stateful" if label == STATEFUL_LABEL else ("error" if label == "Error" else "operation"),
        "scenario_failures": "none" if not mine else ("all_seen_before" if not new else "some_new"),
        "repeats_seen_under": "-" if not labels_of_repeats else ("same_label" if labels_of_repeats == {label} else "other_label"),
        "label_recorded_failures_before": label_has_new_failures_before,
    }


class _Spy:
    """Last handler of the list: sees an event only when every built-in handler accepted it."""

    def __init__(self) -> None:
        self.ctx: Any = None
        self.events = 0
        self.shutdown_called = False

    def start(self, ctx: Any) -> None:
        self.ctx = ctx

    def handle_event(self, ctx: Any, event: Any) -> None:
        self.events += 1

    def shutdown(self, ctx: Any) -> None:
        self.shutdown_called = True


def drive_execute(stream: list) -> dict:
    """Run the real CLI loop `executor._execute` on the supplied event stream with JUnit + VCR + HAR + console handlers."""
    from schemathesis.cli.commands.run import executor
    from schemathesis.cli.commands.run.handlers.cassettes import CassetteWriter
    from schemathesis.cli.commands.run.handlers.junitxml import JunitXMLHandler
    from schemathesis.cli.commands.run.handlers.output import OutputHandler
    from schemathesis.cli.commands.run.reports import ReportConfig, ReportFormat
    from schemathesis.core.output import OutputConfig
    from schemathesis.filters import FilterSet

    spy = _Spy()
    captured: list = []
    original = executor.initialize_handlers

    def initialize(config: Any) -> list:
        handlers = original(config)
        captured.extend(handlers)
        handlers.append(spy)
        return handlers

    position = {"delivered": -1}

    def feed() -> Iterator:
        for idx, event in enumerate(stream):
            position["delivered"] = idx
            yield event

    obs: dict[str, Any] = {}
    console = io.StringIO()
    with tempdir() as tmp:
        report = ReportConfig(formats=[ReportFormat.JUNIT, ReportFormat.VCR, ReportFormat.HAR], directory=Path(tmp),
                              sanitize_output=False, preserve_bytes=False)
        config = executor.RunConfig(location=BASE + "/openapi.json", base_url=None, filter_set=FilterSet(),
                                    engine=fx()["engine_config"], wait_for_schema=None, rate_limit=None, output=OutputConfig(),
                                    report=report, args=[], params={})
        executor.initialize_handlers = initialize
        try:
            with contextlib.redirect_stdout(console), contextlib.redirect_stderr(console):
                try:
                    executor._execute(feed(), config)
                    obs["outcome"] = {"kind": "returned"}
                except SystemExit as exc:
                    obs["outcome"] = {"kind": "exit", "code": exc.code}
                except BaseException as exc:  # noqa: BLE001 - observation
                    obs["outcome"] = {"kind": "raise", "error": type(exc).__name__, "where": _where(exc), "message": str(exc)[:200]}
        finally:
            executor.initialize_handlers = original
        if not spy.shutdown_called and spy.ctx is not None:
            # the loop did not reach `shutdown` (judged below); release the writer threads ourselves so that the harness can go on
            for h in captured:
                with contextlib.suppress(Exception):
                    h.shutdown(spy.ctx)
        fin = finish_cassette_handlers(captured)
        obs["threads"] = [
            {"handler": f"{type(h).__name__}:{getattr(getattr(h, 'format', None), 'value', '')}", **fin[idx]}
            for idx, h in enumerate(captured) if isinstance(h, CassetteWriter)
        ]
        obs["files"] = {}
        for name in ("junit.xml", "vcr.yaml", "har.json"):
            data = b""
            with contextlib.suppress(OSError):
                data = (Path(tmp) / name).read_bytes()
            obs["files"][name] = data
    obs["delivered"] = position["delivered"]
    obs["spy_events"] = spy.events
    obs["shutdown_reached"] = spy.shutdown_called
    obs["console_tail"] = console.getvalue()[-600:]
    obs["console_built"] = any(isinstance(h, OutputHandler) for h in captured)
    obs["canon"] = None
    if spy.ctx is not None:
        st = spy.ctx.statistic
        junit = [h for h in captured if isinstance(h, JunitXMLHandler)]
        console_handler = [h for h in captured if isinstance(h, OutputHandler)]
        obs["canon"] = {
            "failures": sorted((label, sorted(sorted((f.operation, f.message) for f in g.failures) for g in groups.values()))
                               for label, groups in st.failures.items()),
            "unique": sorted((f.operation, f.message) for f in st.unique_failures_map),
            "junit_labels": sorted(junit[0].test_cases) if junit else [],
            "console_errors": sorted((e.label, type(e.value).__name__) for e in console_handler[0].errors) if console_handler else [],
        }
    return obs


def judge_history(stream: list, expect: dict, obs: dict) -> list[tuple[dict, dict]]:
    """-> [(signature facts, detail)]"""
    out: list[tuple[dict, dict]] = []
    outcome = obs["outcome"]
    aborted = outcome["kind"] != "exit"
    if aborted:
        facts = scenario_facts(stream, obs["delivered"]) if obs["delivered"] >= 0 else {}
        out.append(({"kind": "run_aborted", "error": outcome.get("error", outcome["kind"]), "raised_in": outcome.get("where", "-"), **facts},
                    {"outcome": outcome, "console_tail": obs["console_tail"]}))
    if not obs["shutdown_reached"]:
        out.append(({"kind": "shutdown_not_reached"}, {"outcome": outcome}))
    for t in obs["threads"]:
        if t["alive"]:
            out.append(({"kind": "writer_thread_hangs", "handler": t["handler"]}, {}))
        elif t["thread_error"] is not None:
            out.append(({"kind": "writer_thread_crashed", "handler": t["handler"], "error": t["thread_error"]["error"],
                         "raised_in": t["thread_error"]["where"]}, {"message": t["thread_error"]["message"]}))
    if aborted:
        return out  # the files of an aborted run are judged by the abort itself
    files = obs["files"]
    root, err = parse_junit(files["junit.xml"])
    if err is not None:
        out.append(({"kind": "unparsable", "channel": "junit", "error": err[1]}, {"note": err[2], "head": _snippet(files["junit.xml"])}))
    else:
        names = sorted(c.get("name") for c in root.iter("testcase"))
        if names != sorted(expect["labels"]):
            out.append(({"kind": "testcases", "channel": "junit"}, {"got": names, "expected": sorted(expect["labels"])}))
    try:
        doc = load_yaml(files["vcr.yaml"])
        ids = sorted(str(e["id"]) for e in (doc["http_interactions"] or []))
        if ids != sorted(expect["interaction_ids"]):
            out.append(({"kind": "exchanges", "channel": "vcr"}, {"got": ids, "expected": sorted(expect["interaction_ids"])}))
    except Exception as exc:  # noqa: BLE001
        out.append(({"kind": "unparsable", "channel": "vcr", "error": type(exc).__name__},
                    {"note": str(exc)[:300], "head": _snippet(files["vcr.yaml"])}))
    try:
        doc = json.loads(files["har.json"])
        n = len(doc["log"]["entries"])
        if n != len(expect["interaction_ids"]):
            out.append(({"kind": "exchanges", "channel": "har"}, {"got": n, "expected": len(expect["interaction_ids"])}))
    except Exception as exc:  # noqa: BLE001
        out.append(({"kind": "unparsable", "channel": "har", "error": type(exc).__name__},
                    {"note": str(exc)[:300], "head": _snippet(files["har.json"])}))
    return out


# canon(state): why merged states have equal futures with respect to this property's oracle
# ---------------------------------------------------------------------------------------
# The oracle asks, for every extension of a history: does any handler raise, do the three files parse, does every label /
# exchange appear exactly once.  What the handlers do with a *future* event depends on the past only through:
#   * `ctx.statistic.failures` (JUnit indexes it by label; console sums it) and `unique_failures_map` (decides whether a future
#     failure is "new", i.e. whether `failures[label]` comes into existence) - both are in canon, by (operation, message), which
#     is exactly `Failure.__eq__` for the base class used here; the other Statistic fields are counters that are only printed;
#   * `JunitXMLHandler.test_cases`: `setdefault(label)` - future behaviour depends on which labels exist (in canon); the
#     accumulated texts are concatenations of per-event texts, each of which was produced - and serialised at the end of a judged
#     run - when its event was first delivered, and XML escaping is per text node;
#   * the cassette writers: each interaction is formatted on its own (`current_id` is never read), no state is carried over;
#   * `OutputHandler`: progress managers are determined by the current phase (in canon), `errors` is a set keyed by
#     (label, exception type) (in canon), `warnings`/`skip_reasons` only grow from per-event data and are only printed;
#   * `ctx.exit_code` only selects the exit status, which the oracle does not judge.
# Case ids, timestamps and uuids differ between equal-canon histories but are never compared by any handler.
def canon_key(phase: str, canon: dict) -> str:
    return json.dumps([phase, canon], sort_keys=True)


def current_phase(history: list) -> str:
    phase = history[0]
    for letter in history[1:]:
        if letter[0] == "phase":
            phase = letter[1]
    return phase


def execute_history(history: list, res: Result) -> tuple[str | None, bool]:
    """-> (canon key or None when the run is an error state, violated?)"""
    stream, expect = build_stream(history)
    obs = drive_execute(stream)
    res.evaluations += 1
    res.traces += 1
    res.count("histories_executed")
    if obs["console_built"]:
        res.count("histories_with_console_handler")
    verdicts = judge_history(stream, expect, obs)
    res.outcomes.add("history:" + (verdicts[0][0]["kind"] if verdicts else f"exit{obs['outcome'].get('code')}"))
    if any(s["failures"] for s in expect["scenarios"]) or len(expect["labels"]) > 1:
        res.nontriv(history)
    for facts, detail in verdicts:
        res.violation({"part": "histories", **facts}, {"history": history, **detail})
    if len(res.samples) < 2 and len(history) >= 3:
        res.samples.append({"part": "histories", "history": history, "outcome": obs["outcome"], "canon": obs["canon"]})
    if verdicts or obs["canon"] is None:
        return None, bool(verdicts)
    return canon_key(current_phase(history), obs["canon"]), False


def check_histories(item: dict, tier: str) -> Result:
    """Expand one BFS state: execute and judge every one-letter extension of its representative history."""
    res = Result()
    fx()
    history = item["history"]
    res.states += 1
    res.count("states_expanded")
    res.count(f"states_expanded_depth_{len(history) - 1}")
    for letter in letters_for(current_phase(history), tier):
        res.transitions += 1
        key, _ = execute_history(history + [letter], res)
        if key is None:
            res.count("error_states")
    return res


def _plan_worker(history: list) -> str | None:
    fx()
    key, _ = execute_history(history, Result())
    return key


PLAN_STATS: dict[str, int] = {}


def plan_histories(tier: str) -> list[dict]:
    """The BFS itself (parent process, level by level, one global visited set): which states get expanded.

    A state is the history that reaches it.  Level k holds representatives of the states first reached by k letters; every
    representative becomes a work item whose children are executed and judged by `check_histories` in the runner's pool.
    To know which children are *new* states the plan executes them here as well (canon only, verdicts are ignored here and
    recomputed by the work item); the plan therefore costs the transitions up to depth D-1, about 1/|letters| of the check.
    Up to `unmerged_depth` nothing is merged: every history of that length is executed and judged.
    """
    import multiprocessing as mp

    bounds = BOUNDS[tier]
    depth, unmerged = bounds["history_depth"], bounds["unmerged_depth"]
    out: list[dict] = []
    frontier: list[list] = [[p0] for p0 in PHASES]
    visited: set = set()
    stats = {"plan_executions": 0, "plan_merged": 0, "plan_error_states": 0}
    # same worker policy as the shared runner (fair share when the box is loaded; --workers of the runner is not visible here)
    from mc import runner as _runner

    pick = getattr(_runner, "_default_workers", lambda: 16)
    workers = max(1, min(int(os.environ.get("VERIF_WORKERS", "0")) or pick(), os.cpu_count() or 1))
    for idx, arg in enumerate(sys.argv):
        if arg == "--workers" and idx + 1 < len(sys.argv) and sys.argv[idx + 1].isdigit():
            workers = max(1, int(sys.argv[idx + 1]))
    with mp.get_context("fork").Pool(workers, initializer=init_worker) as pool:
        for level in range(depth):
            out.extend({"part": "histories", "history": h} for h in frontier)
            if level == depth - 1:
                break
            children = [h + [letter] for h in frontier for letter in letters_for(current_phase(h), tier)]
            keys = pool.map(_plan_worker, children, chunksize=4)
            stats["plan_executions"] += len(children)
            nxt = []
            for child, key in zip(children, keys):
                if key is None:
                    stats["plan_error_states"] += 1  # a violating history is an error state: judged by its parent's item, not expanded
                    continue
                if level + 1 >= unmerged and key in visited:
                    stats["plan_merged"] += 1
                    continue
                visited.add(key)
                nxt.append(child)
            frontier = nxt
    stats["plan_states"] = len(visited)
    PLAN_STATS.clear()
    PLAN_STATS.update(stats)
    return out


# --------------------------------------------------------------------------------------------------------------------
# part (c): the real engine produces such histories
# --------------------------------------------------------------------------------------------------------------------


def check_engine(item: dict, tier: str) -> Result:
    from mc import engine as mce
    from mc import httpseam
    from schemathesis.cli.commands.run.events import LoadingFinished, LoadingStarted
    from schemathesis.engine import events

    res = Result()
    fx()
    schema = mce.load_schema(DOC)
    config = mce.make_config(phases=item["phases"], max_examples=3, stateful_step_count=3)

    def handler(exchange: Any) -> tuple:
        if exchange.path == "/a" and item["a_status"] != 200:
            return httpseam.json_response(item["a_status"], {})
        return httpseam.json_response(201 if exchange.method == "POST" else 200, {})

    run = mce.run_engine(schema, config, handler)
    if run.error is not None:
        res.oracle_errors.append({"error": f"engine run failed: {run.error!r}"})
        return res
    loading = LoadingStarted(location=httpseam.BASE_URL + "/openapi.json")
    stream = [loading, LoadingFinished(location=loading.location, start_time=loading.timestamp, base_url=httpseam.BASE_URL, base_path="/",
                                       specification=schema.specification, statistic=schema.statistic, schema=schema.raw_schema)]
    stream += run.events
    finished = [e for e in run.events if isinstance(e, events.ScenarioFinished)]
    labels = []
    for e in finished:
        if e.recorder.label not in labels:
            labels.append(e.recorder.label)
    for e in run.events:
        if isinstance(e, events.NonFatalError) and e.label not in labels:
            labels.append(e.label)
    expect = {"labels": labels, "interaction_ids": [cid for e in finished for cid in e.recorder.interactions],
              "scenarios": []}
    obs = drive_execute(stream)
    res.evaluations += 1
    res.traces += 1
    res.count("engine_events", len(run.events))
    res.count("engine_runs")
    res.count("engine_scenarios", len(finished))
    if any(e.recorder.label == STATEFUL_LABEL for e in finished):
        res.count("engine_stateful_scenarios")
    verdicts = judge_history(stream, expect, obs)
    res.outcomes.add("engine:" + (verdicts[0][0]["kind"] if verdicts else f"exit{obs['outcome'].get('code')}"))
    res.nontriv(["engine", item])
    for facts, detail in verdicts:
        res.violation({"part": "histories", **facts}, {"source": "real engine run", "item": item, **detail,
                                                      "events": [mce.event_summary(e) for e in run.events][:60]})
    return res


# --------------------------------------------------------------------------------------------------------------------
# contract
# --------------------------------------------------------------------------------------------------------------------


def items(tier: str, seed: int) -> list[dict]:
    os.environ["VERIF_C16_RUN"] = str(os.getpid())  # inherited by every forked worker: names this run's temporary directories
    out: list[dict] = plan_histories(tier)
    out.sort(key=lambda i: -len(i["history"]))
    # the CLI always enables probing (cli/commands/run/__init__.py: `[PhaseName.PROBING] + ...`); the console handler relies on it
    out.append({"part": "engine", "phases": ["probing", "fuzzing", "stateful"], "a_status": 500})
    out.append({"part": "engine", "phases": ["probing", "fuzzing", "stateful"], "a_status": 200})
    # review round 2: the same operation tested (and failing) in two unit phases and rediscovered in the stateful one, on the real engine
    out.append({"part": "engine", "phases": ["probing", "coverage", "fuzzing", "stateful"], "a_status": 500})
    out.extend(extra.shape_items())
    out.append({"part": "contents", "slot": "baseline", "content": "benign"})
    for slot in SLOTS:
        for cname in CONTENTS:
            out.append({"part": "contents", "slot": slot, "content": cname})
    return out


def finalize(total: Result, tier: str) -> None:
    for key, value in PLAN_STATS.items():
        total.counters[key] = value
    # workers killed by the runner's time cap cannot remove their directory: sweep what this run left behind
    import glob

    for leftover in glob.glob(os.path.join(tempfile.gettempdir(), f"verif-c16-{os.environ.get('VERIF_C16_RUN', os.getpid())}-*")):
        shutil.rmtree(leftover, ignore_errors=True)


def check_item(item: dict, tier: str) -> Result:
    if item["part"] == "contents":
        return check_contents(item, tier)
    if item["part"] == "histories":
        return check_histories(item, tier)
    if item["part"] == "shapes":
        return check_shapes(item, tier)
    return check_engine(item, tier)


def vacuity(total: Result, tier: str) -> list[str]:
    out = []
    c = total.counters
    if c.get("combos", 0) < 1000:
        out.append(f"only {c.get('combos', 0)} content combinations reached the writers")
    if not any(o.endswith(":ok") for o in total.outcomes):
        out.append("no channel ever produced a file that passed the oracle")
    for channel in ("vcr", "har", "junit"):
        if f"{channel}:ok" not in total.outcomes:
            out.append(f"channel {channel} never produced a correct file (oracle or harness broken)")
    if c.get("histories_executed", 0) < 500:
        out.append("fewer than 500 histories were executed through _execute")
    if c.get("histories_with_console_handler", 0) != c.get("histories_executed", 0):
        out.append("the console OutputHandler was not part of every _execute run")
    if not any(o.startswith("history:exit") for o in total.outcomes):
        out.append("no history ran to a normal exit")
    if c.get("plan_merged", 0) == 0:
        out.append("the state merge never fired")
    if c.get("states_expanded", 0) < 50:
        out.append("fewer than 50 BFS states were expanded")
    if c.get("engine_stateful_scenarios", 0) == 0:
        out.append("the real engine produced no stateful scenario")
    for family, shapes in extra.shape_families().items():
        if c.get(f"shapes_{family}", 0) != len(shapes):
            out.append(f"shape family {family}: {c.get(f'shapes_{family}', 0)} of {len(shapes)} shapes were written")
    if c.get("har_query_judged", 0) < 1000:
        out.append("the HAR queryString oracle decided fewer than 1000 entries")
    if len(total.outcomes) < 2:
        out.append("a single outcome class")
    return out
