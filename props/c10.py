"""C10 - stateful links pass exactly the data their expressions denote.

(a)  E2: every string of the runtime-expression grammar to a pointer depth, embedded forms, and every one-edit corruption
     (single deletion / single insertion from a syntax alphabet) of representative expressions, evaluated by the real
     ``expressions.evaluate`` on real ``Case``/``Response`` objects in 6 contexts and compared with ``oracles/rtexpr.py``;
     the same strings placed into real link definitions (parameters / requestBody / nested requestBody).
(b)  E5-style construction: every ordered response-key set x link placement x actual status; the real state machine class is
     built, a real ``StepOutput`` is added through Hypothesis' own ``_add_results_to_targets`` and the link rule's real
     precondition is read back.
(c)  E1: the real ``schema.as_state_machine()`` run through ``get_state_machine_test(...).hypothesis.inner_test`` with the
     choice-tree explorer owning every rule choice and data draw, 3 steps, scripted in-process API; the recorded traffic is
     judged against the reference evaluation of the link's expressions on the actual source exchange.
Review round 2 (enumerators in mc/c10_extra.py, record in detection/C10.md): names in another letter case, more pointer tokens,
a 7th context, statuses at the range limits and the 3.1 / Swagger 2.0 spellings in (b), constant / falsy link values and a header
key in another letter case in (c).
"""

from __future__ import annotations

import copy
import itertools
import json
import urllib.parse
import re
from typing import Any
from urllib.parse import parse_qsl, unquote, urlsplit

from mc import c10_extra, httpseam
from mc.choicetree import Alphabet, Stats, explore
from mc.runner import Result
from oracles import rtexpr
from oracles.rtexpr import ABSENT, UNRESOLVED, Exchange, Malformed, Undecided, Value
from props import common

ID = "C10"
LEVEL = "model_checking"
ENGINES = ["E2", "E1", "E5"]
RULE = (
    "(a) work item = chunk of strings: all ABNF-derivable runtime expressions (names {id,X-Id}, JSON pointers of <=depth tokens "
    "from a token alphabet with ~0/~1/~01 escapes, array indices 0/01/-1/-, '}' and empty tokens, regex extractors valid/invalid/"
    "two-group/zero-group), embedded {..} forms with prefix/suffix and pairs, and ALL single-character deletions and insertions "
    "(from the syntax alphabet . $ { } # / ~ x space) of representative expressions; each string is evaluated by the real "
    "evaluate() in 6 (request,response) contexts and is put into 3 real link positions. (b) work item = ordered response-key set "
    "x one or two links on its keys; all 10 statuses, 3 document spellings. (c) work item = link shape x response script (2 of 7 scripted responses) x "
    "generation modes; every choice path of the real state machine with <=d non-default answers, 3 steps. A case is non-trivial "
    "when the reference gives a verdict (value, unresolved or malformed - not undecided); distinct = distinct (string, context) / "
    "(key set, links, status) / (shape, script, choice path). Review round 2 (mc/c10_extra.py): names in another letter case, "
    "pointer tokens 1/2/3/10/11 and member names with space / non-ASCII / '.' / '#' / '$', a 7th context (falsy leaves under the "
    "response root, falsy whole request body, list-valued query, upper-case header names), statuses at the NXX limits and the "
    "OpenAPI 3.1 / Swagger 2.0 (x-links) spelling of every (b) document, constant and falsy link parameter / requestBody values."
)
BOUNDS = {
    "quick": {"pointer_depth": 2, "contexts": 7, "c_steps": 3, "c_deviations": 1, "c_max_exec_per_tree": 150, "c_scripts": 49,
              "c_extra_shapes": len(c10_extra.EXTRA_SHAPES), "c_extra_scripts": len(c10_extra.EXTRA_SCRIPTS),
              "b_keys": 6, "b_statuses": 10, "b_specs": 3},
    "thorough": {"pointer_depth": 3, "contexts": 7, "c_steps": 4, "c_deviations": 2, "c_max_exec_per_tree": 3000, "c_scripts": 49,
                 "c_extra_shapes": len(c10_extra.EXTRA_SHAPES), "c_extra_scripts": len(c10_extra.EXTRA_SCRIPTS),
                 "b_keys": 6, "b_statuses": 10, "b_specs": 3},
}
BUDGET_S = {"quick": 140, "thorough": 2400}
CHUNK = 1
TECHNIQUE = (
    "exhaustive small-scope enumeration of the expression grammar and its one-edit neighbourhood, of response-key sets and of "
    "link shapes (E2), explicit construction of the real state machine per key set (E5), and exhaustive deviation-bounded "
    "choice-tree exploration (E1) of the real Hypothesis state machine against a scripted in-process API; judged by an "
    "independent evaluator written from the OpenAPI 3.0.3 ABNF and RFC 6901"
)
LEVEL_TEXT = (
    "Every enumerated string/context, key-set/status and shape/script/choice-path is executed on the real code and compared "
    "with the reference; nothing is sampled. The state machine is the real class returned by schema.as_state_machine(), "
    "driven through Hypothesis' own stateful runner body with all randomness owned by the explorer."
)
LEVEL_NOTE = (
    "Trusted: oracles/rtexpr.py, mc/choicetree.py, mc/httpseam.py. Not covered: expressions outside the token/name alphabets, "
    "pointer depth beyond the bound, more than d non-default choices per scenario, scenarios longer than the step bound, "
    "non-JSON request bodies, style serialisation of non-primitive link values (C06)."
)
ASSUMPTIONS = [
    "cases the OpenAPI text leaves open are counted as undecided and never reported: '}' inside pointers/names (documented "
    "limitation), names with syntax characters, $response.query/path, the type of path/query/status values and of a lone "
    "'{expr}', stringification of non-string embedded values, null link values, NXX vs explicit code precedence, multi-valued headers",
    "header names (in `$request.header.X` / `$response.header.X` and in a link parameter key `header.X`) denote the same header in any "
    "letter case (RFC 7230 3.2, OpenAPI 'in: header'); query, path and cookie names are compared exactly",
    "raising at evaluation time for a derivable expression whose source value does not exist is accepted as 'unresolvable'",
    "(b) reads usability from the real rule precondition after Hypothesis' own _add_results_to_targets hook, not from a full run",
    "(c) the recorder's transition id is used to select which link definition the derived request is judged against; source and "
    "target operations named by it are cross-checked against the wire traffic and the document",
]

BASE = httpseam.BASE_URL
SENTINELS = ("Unresolvable", "UNRESOLVABLE", "NotSet", "NOT_SET")

# ======================================================================================================================
# (a) expressions
# ======================================================================================================================

NAMES = ["id", "X-Id"]
PTR_TOKENS_QUICK = ["a", "a~1b", "a~0b", "a~01b", "0", "", "x}", "-1", "01", "-", "b"]
PTR_TOKENS_THOROUGH = ["a", "a~1b", "a~0b", "a~01b", "0", "", "x}", "-1", "01", "-", "b"]
REGEXES = ["#regex:(\\d+)", "#regex:(\\d+", "#regex:(\\w)-(\\d+)", "#regex:\\d+"]
INSERT_CHARS = [".", "$", "{", "}", "#", "/", "~", "x", " "]
KEYS = ["a", "a/b", "a~b", "a~1b", "0", "", "x}", "x", "01", "-1", "-"] + c10_extra.EXTRA_KEYS  # (new keys appended: old leaves unchanged)

CORRUPTION_BASES = [
    "$url", "$method", "$statusCode", "$request.path.id", "$request.query.id", "$request.header.X-Id", "$response.header.X-Id",
    "$response.header.X-Id#regex:(\\d+)", "$request.query.id#regex:(\\d+)", "$request.body", "$response.body", "$request.body#/a",
    "$response.body#/a~1b/0", "$response.body#/a~0b", "{$response.body#/a}", "p_{$request.path.id}_s", "{$method}-{$statusCode}",
]
PAIR_BASES = [
    "$url", "$method", "$statusCode", "$request.path.id", "$request.query.id", "$request.header.X-Id", "$response.header.X-Id",
    "$response.header.X-Id#regex:(\\d+)", "$request.body", "$response.body#/a", "$response.body#/a~1b/0", "$response.body#/x}",
    "$response.body#/b",
]
EXTRA_STRINGS = [
    "", "plain", "{}", "{foo}", "foo$url", "$", "$$url", "$foo", "$Url", "$URL", "$status", "$request", "$response", "$request.",
    "$response.", "$request.cookie.id", "$request.body.a", "$request.body/a", "$request.body#a", "$request.body#/a~2b",
    "$request.body#/a~", "$response.body#a/b", "$url#/a", "$method#/a", "$statusCode#/a", "$url.x", "$method x", "$statusCode.",
    "$request.header.X-Id#/a", "$response.header.X-Id#/a", "$request.path.id#/a", "$request.header.", "$response.header.",
    "{{$url}}", "{$url", "$url}", "{$url}}", "a{b{$url}c}d", "}{", "{$url}{", "{ $url}", "{$url }", "{url}", "pre_$url",
]


def pointers(depth: int, tokens: list[str]) -> list[str]:
    out = [""]
    for n in range(1, depth + 1):
        for combo in itertools.product(tokens, repeat=n):
            out.append("/" + "/".join(combo))
    return out


def base_expressions(tier: str) -> list[str]:
    depth = BOUNDS[tier]["pointer_depth"]
    tokens = PTR_TOKENS_QUICK if tier == "quick" else PTR_TOKENS_THOROUGH
    out = ["$url", "$method", "$statusCode"]
    for side in ("request", "response"):
        for loc in ("header", "query", "path"):
            for name in NAMES:
                out.append(f"${side}.{loc}.{name}")
                for rx in REGEXES:
                    out.append(f"${side}.{loc}.{name}{rx}")
    for side in ("request", "response"):
        out.append(f"${side}.body")
        for ptr in pointers(depth, tokens):
            out.append(f"${side}.body#{ptr}")
    return out


def one_edits(text: str) -> list[str]:
    out = []
    for i in range(len(text)):
        out.append(text[:i] + text[i + 1 :])
    for i in range(len(text) + 1):
        for ch in INSERT_CHARS:
            out.append(text[:i] + ch + text[i:])
    return out


def all_strings(tier: str) -> list[str]:
    seen: dict[str, None] = {}

    def add(s: str) -> None:
        if s not in seen:
            seen[s] = None

    base = base_expressions(tier)
    for e in base:
        add(e)
    embed_from = base if tier == "thorough" else [e for e in base if e.count("/") <= 1]
    for e in embed_from:
        add("{" + e + "}")
        add("p_{" + e + "}")
        add("{" + e + "}_s")
        add("p_{" + e + "}_s")
    for e1 in PAIR_BASES:
        for e2 in PAIR_BASES:
            add("{" + e1 + "}-{" + e2 + "}")
    for s in EXTRA_STRINGS:
        add(s)
    for s in c10_extra.name_case_strings() + c10_extra.pointer_extra_strings():
        add(s)
    for e in CORRUPTION_BASES:
        for s in one_edits(e):
            add(s)
    return list(seen)


def _outer(prefix: str, leaf: Any) -> dict:
    return {k: leaf(f"{prefix}{k}") for k in KEYS}


def _inner_dict(prefix: str) -> dict:
    out: dict[str, Any] = {k: f"{prefix}|{k}" for k in KEYS}
    out["a"] = {k: f"{prefix}|a|{k}" for k in KEYS}  # a third level (pointer depth 3 in the thorough tier)
    out["0"] = [f"{prefix}|0[0]", [f"{prefix}|0[1][0]"]]
    return out


def _typed_inner(prefix: str) -> dict:
    vals = [1, None, False, 1.5, {"k": 1}, [1, "two"], "", 0, True, "s", -3]
    return {k: vals[i % len(vals)] for i, k in enumerate(KEYS)}


# Each context: plain data from which BOTH the reference Exchange and the real Case/Response are built.
CONTEXTS: list[dict] = [
    {  # 0: nested objects (request), object of arrays (response)
        "name": "objects",
        "path": {"id": 7, "X-Id": "px"}, "query": {"id": "q-5", "X-Id": "qx-6"}, "req_headers": {"X-Id": "r-42", "id": "rid-1"},
        "req_body": _outer("q:", _inner_dict), "status": 201,
        "resp_headers": [("X-Id", "s-43x7"), ("id", "sid-9")],
        "resp_body": _outer("r:", lambda p: [p + "[0]", 11, p + "[2]"]),
        "url": BASE + "/src/7/px?id=q-5&X-Id=qx-6",
    },
    {  # 1: top-level array (request), typed leaves (response)
        "name": "arrays_and_types",
        "path": {"id": "p8", "X-Id": 3}, "query": {"id": 5}, "req_headers": {"X-Id": "77"},
        "req_body": [_inner_dict("l0"), ["x0", "x1"], 5], "status": 200,
        "resp_headers": [("x-id", "lower-78")],
        "resp_body": _outer("t:", _typed_inner),
        "url": BASE + "/src/p8/3?id=5",
    },
    {  # 2: falsy values and scalars
        "name": "falsy",
        "path": {"id": 0, "X-Id": "z"}, "query": {"id": 0, "X-Id": ""}, "req_headers": {"X-Id": ""},
        "req_body": {"a": None, "0": 0, "": "", "a/b": False, "a~b": [], "a~1b": {}, "x}": 0.0}, "status": 204,
        "resp_headers": [("X-Id", "")],
        "resp_body": 5,
        "url": BASE + "/src/0/z?id=0&X-Id=",
    },
    {  # 3: everything missing
        "name": "missing",
        "path": {"id": 1, "X-Id": "y"}, "query": {}, "req_headers": {},
        "req_body": {}, "status": 404,
        "resp_headers": [],
        "resp_body": {},
        "url": BASE + "/src/1/y",
    },
    {  # 4: no request body, non-JSON response, lower-case header names
        "name": "no_body_non_json",
        "path": {"id": 2, "X-Id": "w"}, "query": {"id": "only"}, "req_headers": {"x-id": "lower-req-12"},
        "req_body": "$ABSENT", "status": 500,
        "resp_headers": [("x-id", "lower-resp-13")],
        "resp_raw": "<html>",
        "url": BASE + "/src/2/w?id=only",
    },
    {  # 5: top-level strings, multi-valued response header
        "name": "scalars_multi_header",
        "path": {"id": 9, "X-Id": "v"}, "query": {"id": "44"}, "req_headers": {"X-Id": "a-1-b-2"},
        "req_body": "reqstr", "status": 201,
        "resp_headers": [("X-Id", "m1"), ("X-Id", "m2"), ("id", "5-6")],
        "resp_body": "respstr",
        "url": BASE + "/src/9/v?id=44",
    },
]

CONTEXTS += c10_extra.extra_contexts(BASE)

A_DOC_PARAMS = (
    [{"name": n, "in": "path", "required": True, "schema": {}} for n in NAMES]
    + [{"name": n, "in": "query", "schema": {}} for n in NAMES]
    + [{"name": n, "in": "header", "schema": {}} for n in NAMES]
)


def a_document(links: dict | None = None) -> dict:
    return {
        "openapi": "3.0.3", "info": {"title": "c10", "version": "1"},
        "paths": {
            "/src/{id}/{X-Id}": {"post": {
                "operationId": "src", "parameters": copy.deepcopy(A_DOC_PARAMS),
                "requestBody": {"content": {"application/json": {"schema": {}}}},
                "responses": {"201": {"description": "ok", **({"links": links} if links else {})}},
            }},
            "/t/{id}": {"get": {"operationId": "t", "parameters": [{"name": "id", "in": "path", "required": True, "schema": {}}],
                                "responses": {"200": {"description": "ok"}}}},
            "/u/{id}": {"put": {"operationId": "u", "parameters": [{"name": "id", "in": "path", "required": True, "schema": {}}],
                                "requestBody": {"content": {"application/json": {"schema": {}}}},
                                "responses": {"200": {"description": "ok"}}}},
        },
    }


_A_CACHE: dict = {}


def _a_contexts() -> list[tuple[dict, Exchange, Any]]:
    """(context data, reference exchange, real StepOutput) - built once per worker from the same plain data."""
    if "ctx" in _A_CACHE:
        return _A_CACHE["ctx"]
    import requests

    from schemathesis.core import NOT_SET
    from schemathesis.core.transport import Response
    from schemathesis.generation.stateful.state_machine import StepOutput

    from mc import engine

    schema = engine.load_schema(a_document())
    operation = schema["/src/{id}/{X-Id}"]["POST"]
    out = []
    for ctx in CONTEXTS:
        absent = ctx["req_body"] == "$ABSENT"
        raw = ctx["resp_raw"].encode() if "resp_raw" in ctx else json.dumps(ctx["resp_body"]).encode()
        exchange = Exchange(
            method="POST", url=ctx["url"], path_params=dict(ctx["path"]), query=dict(ctx["query"]),
            request_headers=dict(ctx["req_headers"]), request_body=ABSENT if absent else copy.deepcopy(ctx["req_body"]),
            status=ctx["status"], response_headers=list(ctx["resp_headers"]), response_body=raw,
        )
        case = operation.Case(
            path_parameters=dict(ctx["path"]), query=dict(ctx["query"]) or None, headers=dict(ctx["req_headers"]) or None,
            body=NOT_SET if absent else copy.deepcopy(ctx["req_body"]), media_type=None if absent else "application/json",
        )
        headers: dict[str, list[str]] = {}
        for k, v in ctx["resp_headers"]:
            headers.setdefault(k, []).append(v)
        response = Response(
            status_code=ctx["status"], headers=headers, content=raw,
            request=requests.Request("POST", ctx["url"]).prepare(), elapsed=0.1, verify=False,
        )
        out.append((ctx, exchange, StepOutput(response, case)))
    _A_CACHE["ctx"] = out
    return out


def _reference(text: Any, exchange: Exchange) -> tuple:
    try:
        v = rtexpr.evaluate(text, exchange)
    except Malformed as exc:
        return ("malformed", exc.reason, exc.maybe_constant)
    except Undecided as exc:
        return ("undecided", exc.reason)
    if v is UNRESOLVED:
        return ("unresolved",)
    return ("value", v)


def _impl_evaluate(text: Any, output: Any, nested: bool = False) -> tuple:
    from schemathesis.core.transforms import Unresolvable
    from schemathesis.specs.openapi import expressions

    try:
        v = expressions.evaluate(text, output, evaluate_nested=nested)
    except Exception as exc:  # noqa: BLE001 - observation
        return ("raise", type(exc).__name__, str(exc)[:200])
    if isinstance(v, Unresolvable):
        return ("unresolved",)
    return ("value", v)


FEATURE_PRIORITY = [
    "array_index_not_rfc6901", "no_such_body", "hash_in_literal_text", "whole_body_embedded", "pointer_escape_~01", "pointer_escape",
    "whole_body", "regex", "pointer_plain", "req_header", "resp_header", "req_query", "req_path", "url", "method", "status", "constant",
]


def expression_facts(text: str, exchange: Exchange) -> dict:
    """Signature facts computed by the reference only: the single most specific feature of the string in this context."""
    try:
        kind, parsed = rtexpr.parse_value(text)
    except (Malformed, Undecided):
        return {}
    feats = set()
    extra: dict[str, Any] = {}
    if kind == "constant":
        feats.add("hash_in_literal_text" if "#" in text else "constant")
        exprs = []
    elif kind == "expression":
        exprs = [parsed]
    else:
        exprs = [p for p in parsed if isinstance(p, rtexpr.Expr)]
        if any(isinstance(p, str) and "#" in p for p in parsed):
            feats.add("hash_in_literal_text")
    for e in exprs:
        if e.regex is not None:
            feats.add("regex")
        if e.kind not in ("req_body", "resp_body"):
            feats.add(e.kind)
            continue
        doc = exchange.request_body if e.kind == "req_body" else rtexpr.response_json(exchange)
        if doc is ABSENT:
            feats.add("no_such_body")
            continue
        if e.pointer is None:
            feats.add("whole_body_embedded" if kind == "template" else "whole_body")
            continue
        if any("~01" in raw for raw in e.raw_tokens):
            feats.add("pointer_escape_~01")
        elif any("~" in raw for raw in e.raw_tokens):
            feats.add("pointer_escape")
        else:
            feats.add("pointer_plain")
        cur = doc
        for tok in e.pointer:
            if isinstance(cur, list):
                if not re.fullmatch(r"0|[1-9][0-9]*", tok):
                    feats.add("array_index_not_rfc6901")
                    extra["index_class"] = ("negative" if re.fullmatch(r"-[0-9]+", tok) else "leading_zero" if re.fullmatch(r"0[0-9]+", tok)
                                            else "dash" if tok == "-" else "other")
                    break
                if int(tok) >= len(cur):
                    break
                cur = cur[int(tok)]
            elif isinstance(cur, dict):
                if tok not in cur:
                    break
                cur = cur[tok]
            else:
                break
    feature = next((f for f in FEATURE_PRIORITY if f in feats), "other")
    return {"feature": feature, **extra}


_ROUND2_STRINGS = frozenset(c10_extra.name_case_strings() + c10_extra.pointer_extra_strings())


def _typename(v: Any) -> str:
    return type(v).__name__


def check_a(item: dict, tier: str, res: Result) -> None:
    contexts = _a_contexts()
    for text in item["strings"]:
        cls, why = rtexpr.classify(text)
        res.count(f"a_strings_{cls}")
        for ctx, exchange, output in contexts:
            ref = _reference(text, exchange)
            got = _impl_evaluate(text, output)
            res.evaluations += 1
            res.traces += 1
            res.states += 1
            res.outcomes.add(f"a:{ref[0]}/{got[0]}")
            if ref[0] == "undecided":
                res.count("a_undecided")
                res.count(f"a_undecided:{ref[1]}")
                continue
            res.nontriv(["a", text, ctx["name"]])
            detail = {"expression": text, "context": ctx["name"], "reference": _plain(ref), "implementation": _plain(got)}
            if ref[0] == "malformed":
                if got[0] == "raise":
                    res.count("a_malformed_rejected")
                    if got[1] not in ("RuntimeExpressionError", "UnknownToken"):
                        res.count(f"a_malformed_rejected_with_{got[1]}")
                    continue
                if got[0] == "value" and ref[2] and isinstance(got[1], str) and got[1] == text:
                    res.count("a_read_as_constant")
                    continue
                res.violation({"part": "a", "kind": "malformed_expression_not_rejected", "reason": ref[1]}, detail)
                continue
            facts = expression_facts(text, exchange)
            if ref[0] == "unresolved":
                if got[0] == "unresolved":
                    res.count("a_unresolved_agree")
                elif got[0] == "raise":
                    res.count("a_raise_on_unresolvable_source")
                else:
                    res.violation({"part": "a", "kind": "unresolvable_evaluates_to_value", **facts}, detail)
                continue
            expected: Value = ref[1]
            if got[0] == "raise":
                res.violation({"part": "a", "kind": "derivable_rejected", **facts, "error": got[1]}, detail)
            elif got[0] == "unresolved":
                res.violation({"part": "a", "kind": "resolvable_evaluates_to_unresolvable", **facts}, detail)
            elif not rtexpr.same(got[1], expected):
                res.violation({"part": "a", "kind": "value_mismatch", **facts}, detail)
            else:
                res.count("a_values_agree")
                if ctx["name"] == "falsy_response_list_query_upper_headers":
                    res.count("a_values_agree_in_round2_context")
                if text in _ROUND2_STRINGS:
                    res.count("a_values_agree_on_round2_strings")
        if len(res.samples) < 2 and cls == "derivable":
            res.samples.append({"part": "a", "expression": text, "context": contexts[0][0]["name"],
                                "reference": _plain(_reference(text, contexts[0][1])),
                                "implementation": _plain(_impl_evaluate(text, contexts[0][2]))})


def _unknown_request_parameter(text: str) -> bool:
    try:
        kind, parsed = rtexpr.parse_value(text)
    except (Malformed, Undecided):
        return False
    exprs = [parsed] if kind == "expression" else [p for p in parsed if isinstance(p, rtexpr.Expr)] if kind == "template" else []
    # query / path names are case-sensitive; a header is the same header in any letter case (RFC 7230 3.2, OpenAPI "in: header")
    return any((e.kind in ("req_path", "req_query") and e.name not in NAMES)
               or (e.kind == "req_header" and e.name.lower() not in {n.lower() for n in NAMES}) for e in exprs)


def _header_only_case_differs(text: str) -> bool:
    """Fact for signatures: the string names a declared request header, spelled in another letter case than the declaration."""
    try:
        kind, parsed = rtexpr.parse_value(text)
    except (Malformed, Undecided):
        return False
    exprs = [parsed] if kind == "expression" else [p for p in parsed if isinstance(p, rtexpr.Expr)] if kind == "template" else []
    return any(e.kind == "req_header" and e.name not in NAMES and e.name.lower() in {n.lower() for n in NAMES} for e in exprs)


def _plain(t: Any) -> Any:
    if isinstance(t, tuple):
        return [_plain(x) for x in t]
    if isinstance(t, Value):
        return {"value": rtexpr.plain(t.value), "loose": t.loose}
    if isinstance(t, (dict, list, str, int, float, bool)) or t is None:
        return rtexpr.plain(t)
    return repr(t)


# ----------------------------------------------------------------------------------------------------------------------
# (a, link level) the same strings inside real link definitions
# ----------------------------------------------------------------------------------------------------------------------


def check_a_link(item: dict, tier: str, res: Result) -> None:
    from schemathesis.core.errors import InvalidStateMachine, InvalidTransition
    from schemathesis.core.result import Ok
    from schemathesis.specs.openapi.stateful.links import get_all_links

    from mc import engine

    strings = item["strings"]
    links: dict[str, dict] = {}
    for i, s in enumerate(strings):
        links[f"P{i}"] = {"operationId": "t", "parameters": {"id": s}}
        links[f"B{i}"] = {"operationId": "u", "parameters": {"id": "$response.body#/id"}, "requestBody": s}
        links[f"N{i}"] = {"operationId": "u", "parameters": {"id": "$response.body#/id"}, "requestBody": {"k": [s]}}
    schema = engine.load_schema(a_document(links))
    operation = schema["/src/{id}/{X-Id}"]["POST"]
    results: dict[str, Any] = {}
    for _, result in get_all_links(operation):
        if isinstance(result, Ok):
            results[result.ok().name] = ("ok", None)
        else:
            err = result.err()
            assert isinstance(err, InvalidTransition)
            results[err.name] = ("rejected", [e.message for e in err.errors])
    assert len(results) == len(links), (len(results), len(links))
    exchange = _a_contexts()[0][1]
    for i, s in enumerate(strings):
        cls, why = rtexpr.classify(s)
        for pos, key in (("parameters", f"P{i}"), ("requestBody", f"B{i}"), ("requestBody_nested", f"N{i}")):
            got = results[key]
            res.evaluations += 1
            res.traces += 1
            res.states += 1
            res.outcomes.add(f"a_link:{cls}/{got[0]}")
            if cls == "undecided":
                res.count("a_link_undecided")
                continue
            res.nontriv(["a_link", s, pos])
            if _header_only_case_differs(s):
                res.count("a_link_header_case_variants")
            detail = {"string": s, "position": pos, "reference": [cls, why], "link": links[key], "implementation": list(got)}
            if cls == "malformed":
                try:
                    rtexpr.parse_value(s)
                    maybe_constant = False
                except Malformed as exc:
                    maybe_constant = exc.maybe_constant
                if got[0] == "rejected":
                    res.count("a_link_malformed_rejected")
                elif maybe_constant:
                    res.count("a_link_maybe_constant_accepted")  # judged by value in part (a)
                elif pos == "parameters":
                    res.violation({"part": "a_link", "kind": "malformed_expression_not_rejected", "position": pos, "reason": why}, detail)
                else:
                    # requestBody is not looked at when the link is constructed: one root cause whatever the reason
                    res.violation({"part": "a_link", "kind": "malformed_expression_not_rejected", "position": pos}, detail | {"reason": why})
            else:
                if got[0] == "rejected" and _unknown_request_parameter(s):
                    res.count("a_link_rejected_unknown_source_parameter")  # a legitimate schema error of its own
                elif got[0] == "rejected":
                    case_fact = {"header_name_case": "differs_from_declaration"} if _header_only_case_differs(s) else {}
                    res.violation({"part": "a_link", "kind": "derivable_expression_rejected", "position": pos,
                                   **expression_facts(s, exchange), **case_fact}, detail)
                else:
                    res.count("a_link_derivable_accepted")
    # one representative per chunk through the public entry point: the whole state machine must refuse to build
    for i, s in enumerate(strings):
        cls, why = rtexpr.classify(s)
        if cls == "malformed" and s.startswith("$") and results[f"P{i}"][0] == "rejected":
            schema2 = engine.load_schema(a_document({"P": links[f"P{i}"]}))
            res.evaluations += 1
            try:
                schema2.as_state_machine()
            except InvalidStateMachine:
                res.count("a_link_state_machine_refused")
            except Exception as exc:  # noqa: BLE001
                res.violation({"part": "a_link", "kind": "malformed_expression_crashes_state_machine", "error": type(exc).__name__,
                               "reason": why}, {"string": s, "error": repr(exc)[:300]})
            else:
                res.violation({"part": "a_link", "kind": "malformed_expression_not_rejected", "position": "as_state_machine",
                               "reason": why}, {"string": s})
            break


# ======================================================================================================================
# (b) status matching
# ======================================================================================================================

B_KEYS: list[Any] = ["200", "201", "2XX", "4XX", "default", 200]
B_STATUSES = [200, 201, 204, 404, 500] + c10_extra.EXTRA_STATUSES  # + exactly at the limits of 1XX/2XX/3XX/4XX


def b_items() -> list[dict]:
    out = []
    for n in range(1, len(B_KEYS) + 1):
        for idxs in itertools.combinations(range(len(B_KEYS)), n):
            orders = [list(idxs)] if n == 1 else [list(idxs), list(reversed(idxs))]
            for order in orders:
                for i in order:
                    out.append({"part": "b", "keys": order, "links": [i]})
                for i, j in itertools.combinations(order, 2):
                    out.append({"part": "b", "keys": order, "links": [i, j]})
    return out


def b_document(keys: list, link_keys: list) -> dict:
    responses: dict[Any, dict] = {}
    for k in keys:
        responses[k] = {"description": "r"}
    for n, k in enumerate(link_keys):
        responses[k]["links"] = {f"LNK{n}": {"operationId": "t", "parameters": {"id": "$response.body#/id"}}}
    return {
        "openapi": "3.0.3", "info": {"title": "c10b", "version": "1"},
        "paths": {
            "/s": {"post": {"operationId": "s", "requestBody": {"required": True, "content": {"application/json": {"schema": {"type": "object"}}}},
                            "responses": responses}},
            "/t/{id}": {"get": {"operationId": "t", "parameters": [{"name": "id", "in": "path", "required": True, "schema": {"type": "integer"}}],
                                "responses": {"200": {"description": "ok"}}}},
        },
    }


def check_b(item: dict, tier: str, res: Result) -> None:
    # the same document as OpenAPI 3.0 / 3.1 / Swagger 2.0 (`x-links`); a violation already reported for the 3.0 spelling of the
    # same (kind, status, link) is only counted for the other spellings (one defect in all spellings = one set of signatures)
    reported: set = set()
    for spec in c10_extra.SPECS:
        common.reset_schemathesis_caches()
        _reset_expression_caches()
        _check_b_spec(item, spec, res, reported)


def _check_b_spec(item: dict, spec: str, res: Result, reported: set) -> None:
    def violation(key: tuple, signature: dict, detail: dict) -> None:
        if spec == "3.0.3":
            reported.add(key)
        elif key in reported:
            res.count("b_violations_repeated_in_other_spelling")
            return
        res.violation(signature, detail)

    import collections

    import requests
    from hypothesis.internal.observability import PredicateCounts

    from schemathesis.core.transport import Response
    from schemathesis.generation.stateful.state_machine import StepOutput

    from mc import engine

    keys = [B_KEYS[i] for i in item["keys"]]
    link_keys = [B_KEYS[i] for i in item["links"]]
    has_int = any(isinstance(k, int) for k in keys)
    # the spelling is a signature fact only where it is not the base one
    spec_fact = {} if spec == "3.0.3" else {"spec": spec}
    base_sig = {"part": "b", "links": len(link_keys), **spec_fact}
    detail0 = {"keys": [repr(k) for k in keys], "link_keys": [repr(k) for k in link_keys], "spec": spec}
    res.evaluations += 1
    res.count(f"b_documents_{spec}")
    try:
        schema = engine.load_schema(b_document(keys, link_keys) if spec == "3.0.3" else c10_extra.b_document(keys, link_keys, spec))
        machine_cls = schema.as_state_machine()
        source = schema["/s"]["POST"]
    except Exception as exc:  # noqa: BLE001
        res.outcomes.add("b:construction_error")
        if has_int:
            res.count("b_undecided_int_key_construction_error")
        else:
            violation(("state_machine_construction_failed", type(exc).__name__),
                      {**base_sig, "kind": "state_machine_construction_failed", "error": type(exc).__name__}, {**detail0, "error": repr(exc)[:300]})
        return
    rules = {}
    for rule in machine_cls.setup_state().rules:
        for n in range(len(link_keys)):
            if f"_LNK{n}_" in rule.function.__name__:
                rules[n] = rule
    if len(rules) != len(link_keys):
        violation(("link_rule_missing",), {**base_sig, "kind": "link_rule_missing", "int_key": has_int},
                  {**detail0, "rules": [r.function.__name__ for r in machine_cls.setup_state().rules]})
        return
    for status in B_STATUSES:
        machine = machine_cls()
        machine._observability_predicates = collections.defaultdict(PredicateCounts)  # what run_state_machine sets up
        case = source.Case(body={}, media_type="application/json")
        response = Response(status_code=status, headers={"Content-Type": ["application/json"]}, content=b'{"id": 1}',
                            request=requests.Request("POST", BASE + "/s").prepare(), elapsed=0.1, verify=False)
        machine._add_results_to_targets(("catch_all",), [StepOutput(response, case)])
        res.states += 1
        for n, key in enumerate(link_keys):
            # Hypothesis' own validity test for a rule: its bundles are non-empty and its preconditions hold
            usable = bool(machine._rules_strategy.is_valid(rules[n]))
            expected = rtexpr.link_usable(key, status, keys)
            res.transitions += 1
            res.traces += 1
            res.outcomes.add(f"b:{expected}/{usable}")
            if expected is None:
                res.count("b_undecided")
                continue
            res.nontriv(["b", detail0, status, n])
            detail = {**detail0, "status": status, "link_on": repr(key), "expected_usable": expected, "implementation_usable": usable}
            others = [k for m, k in enumerate(link_keys) if m != n]
            facts: dict[str, Any] = {"key_kind": rtexpr.key_kind(key)}
            if expected and not usable:
                # which other link (if any) could have taken the response: facts from the document only
                if others:
                    facts["other_link_key_kind"] = rtexpr.key_kind(others[0])
                    facts["other_link_documented_first"] = keys.index(others[0]) < keys.index(key)
                violation(("matching_link_not_usable", status, n), {"part": "b", "kind": "matching_link_not_usable", **facts, **spec_fact}, detail)
            elif usable and not expected:
                violation(("non_matching_link_usable", status, n),
                          {"part": "b", "kind": "non_matching_link_usable", **facts, "status_class": f"{status // 100}xx", **spec_fact}, detail)
            else:
                res.count("b_agree_usable" if usable else "b_agree_not_usable")
                if status in c10_extra.EXTRA_STATUSES:
                    res.count("b_agree_usable_at_range_limit" if usable else "b_agree_not_usable_at_range_limit")
                if spec != "3.0.3":
                    res.count(f"b_agree_{spec}_usable" if usable else f"b_agree_{spec}_not_usable")
        machine.teardown()


# ======================================================================================================================
# (c) live state machine
# ======================================================================================================================

RESPONSES: list[tuple] = [
    (201, [("X-Id", "h-43"), ("Location", "/items/9")],
     {"id": 7, "name": "srv", "obj": {"name": "o", "extra": "e"}, "a/b": [5, 6], "m~n": "tilde", "t~1": "t1"}),
    (201, [], {}),
    (200, [("X-Id", "h-44"), ("Location", "/items/10")],
     {"id": "s t/u", "name": "n2", "obj": {"name": "p", "n": 2}, "a/b": ["x y"], "m~n": 3, "t~1": 4}),
    (404, [("X-Id", "h-45")], {"id": 8, "name": "nf"}),
    (201, [("X-Id", "h-46")], {"id": 0, "name": "", "obj": {}, "a/b": [None], "m~n": False, "t~1": None}),
    (201, [("Content-Type", "text/plain")], "oops"),
    (500, [], {"id": 9}),
]

_ID_PARAM = {"name": "id", "in": "path", "required": True, "schema": {"type": "integer"}}
_STR1 = {"type": "string", "maxLength": 1}
READ_REF = "#/paths/~1items~1{id}/get"
UPDATE_REF = "#/paths/~1items~1{id}/put"


def _lnk(target: str, parameters: dict | None = None, body: Any = "$NONE", merge: bool | None = None, by_ref: bool = False) -> dict:
    out: dict[str, Any] = {}
    if by_ref:
        out["operationRef"] = {"read": READ_REF, "update": UPDATE_REF}[target]
    else:
        out["operationId"] = target
    if parameters is not None:
        out["parameters"] = parameters
    if body != "$NONE":
        out["requestBody"] = body
    if merge is not None:
        out["x-schemathesis"] = {"merge_body": merge}
    return out


# (containers as elements of a list are a code path of their own in the nested evaluation)
_NESTED = {"name": "$response.body#/name", "nested": {"k": ["$statusCode", "{$request.body#/name}!"]}, "n": 1,
           "items": [{"pid": "$response.body#/id"}, ["$statusCode"]]}

SHAPES: dict[str, dict] = {
    "opid_bare": {"links": {"201": {"L": _lnk("peek", {"id": "$response.body#/id", "q": "$request.body#/name"})}}},
    "opref_explicit": {"links": {"201": {"L": _lnk("read", {"path.id": "$response.body#/id", "query.id": "$request.body#/name",
                                                             "header.X-Id": "$response.header.X-Id", "cookie.c": "$method"}, by_ref=True)}}},
    "embedded": {"links": {"201": {"L": _lnk("read", {"path.id": "$response.body#/id", "query.q": "n_{$response.body#/id}_{$statusCode}",
                                                       "query.id": "{$request.path.box}"})}}},
    "regex": {"links": {"201": {"L": _lnk("peek", {"id": "$response.header.Location#regex:/items/(\\d+)",
                                                    "q": "$request.header.X-Src#regex:(a)"})}}},
    "request_sources": {"links": {"201": {"L": _lnk("read", {"path.id": "$request.path.box", "query.q": "$request.query.q",
                                                              "header.X-Id": "$request.header.X-Src", "query.id": "$url"})}}},
    "body_literal_merge": {"links": {"201": {"L": _lnk("update", {"id": "$response.body#/id"}, {"name": "L", "n": 5})}}},
    "body_literal_nomerge": {"links": {"201": {"L": _lnk("update", {"id": "$response.body#/id"}, {"name": "L", "n": 5}, merge=False)}}},
    "body_expr_merge": {"links": {"201": {"L": _lnk("update", {"path.id": "$response.body#/id"}, "$response.body#/obj", merge=True, by_ref=True)}}},
    "body_expr_nomerge": {"links": {"201": {"L": _lnk("update", {"path.id": "$response.body#/id"}, "$response.body#/obj", merge=False)}}},
    "body_nested_merge": {"links": {"201": {"L": _lnk("update", {"id": "$response.body#/id"}, _NESTED)}}},
    "body_nested_nomerge": {"links": {"201": {"L": _lnk("update", {"id": "$response.body#/id"}, _NESTED, merge=False)}}},
    "unresolvable": {"links": {"201": {"L": _lnk("read", {"path.id": "$response.body#/missing", "header.X-Id": "$response.header.Missing",
                                                           "query.q": "$response.body#/id"})}}},
    "unresolvable_body": {"links": {"201": {"L": _lnk("update", {"id": "$response.body#/id"}, {"name": "$response.body#/missing", "n": 2}),
                                            "M": _lnk("update", {"id": "$response.body#/id"}, {"name": "$response.header.Missing"}, merge=False)}}},
    "escapes": {"links": {"201": {"L": _lnk("read", {"path.id": "$response.body#/a~1b/0", "query.q": "$response.body#/m~0n",
                                                      "query.id": "$response.body#/t~01"})}}},
    "key_default": {"keys": ["201", "default"], "links": {"default": {"L": _lnk("peek", {"id": "$response.body#/id"})}}},
    "key_ranges": {"keys": ["2XX", "404", "default"], "links": {"2XX": {"L": _lnk("peek", {"id": "$response.body#/id"})},
                                                                 "default": {"D": _lnk("peek", {"id": "$response.body#/id"})},
                                                                 "404": {"N": _lnk("peek", {"id": "$response.body#/id"})}}},
    "chain": {"links": {"201": {"L": _lnk("read", {"path.id": "$response.body#/id"})}},
              "read_links": {"200": {"R": _lnk("remove", {"id": "$request.path.id"})},
                             "201": {"S": _lnk("remove", {"path.id": "{$response.body#/id}"})}}},
}


# review round 2: constant / falsy link values (mc/c10_extra.py)
SHAPES.update(copy.deepcopy(c10_extra.EXTRA_SHAPES))


def c_document(shape: dict) -> dict:
    keys = shape.get("keys", ["201", "default"])
    create_responses: dict[str, dict] = {k: {"description": "r"} for k in keys}
    for k, links in shape["links"].items():
        create_responses[k]["links"] = copy.deepcopy(links)
    read_responses: dict[str, dict] = {"200": {"description": "ok"}, "201": {"description": "ok"}, "default": {"description": "d"}}
    for k, links in shape.get("read_links", {}).items():
        read_responses[k]["links"] = copy.deepcopy(links)
    return {
        "openapi": "3.0.3", "info": {"title": "c10c", "version": "1"},
        "paths": {
            "/boxes/{box}/items": {"post": {
                "operationId": "create",
                "parameters": [{"name": "box", "in": "path", "required": True, "schema": {"type": "integer", "minimum": 3, "maximum": 4}},
                               {"name": "q", "in": "query", "required": True, "schema": {"type": "string", "minLength": 1, "maxLength": 1}},
                               {"name": "X-Src", "in": "header", "required": True, "schema": {"type": "string", "minLength": 1, "maxLength": 1}}],
                "requestBody": {"required": True, "content": {"application/json": {"schema": {
                    "type": "object", "properties": {"name": _STR1}, "required": ["name"], "additionalProperties": False}}}},
                "responses": create_responses,
            }},
            "/items/{id}": {
                "get": {"operationId": "read", "parameters": [
                    _ID_PARAM, {"name": "id", "in": "query", "schema": _STR1}, {"name": "q", "in": "query", "schema": _STR1},
                    {"name": "X-Id", "in": "header", "schema": _STR1}, {"name": "c", "in": "cookie", "schema": _STR1}],
                    "responses": read_responses},
                "put": {"operationId": "update", "parameters": [_ID_PARAM],
                        "requestBody": {"required": True, "content": {"application/json": {"schema": {
                            "type": "object", "properties": {"name": _STR1, "extra": _STR1, "n": {"type": "integer", "minimum": 0, "maximum": 1}},
                            "required": ["name", "extra"], "additionalProperties": False}}}},
                        "responses": {"200": {"description": "ok"}}},
                "delete": {"operationId": "remove", "parameters": [_ID_PARAM], "responses": {"204": {"description": "ok"}}},
            },
            # a target whose parameter names are unique across locations: bare link parameter names are unambiguous here
            "/peek/{id}": {"get": {"operationId": "peek", "parameters": [_ID_PARAM, {"name": "q", "in": "query", "schema": _STR1}],
                                   "responses": {"200": {"description": "ok"}}}},
        },
    }


TEMPLATES = [("POST", "/boxes/{box}/items", "create"), ("GET", "/items/{id}", "read"), ("PUT", "/items/{id}", "update"),
             ("DELETE", "/items/{id}", "remove"), ("GET", "/peek/{id}", "peek")]


def match_template(method: str, path: str) -> tuple[str, str, dict] | None:
    """(operation id, label, path parameters) of a wire request - own matching, raw (still percent-encoded) segments decoded."""
    segs = path.split("/")
    for m, template, opid in TEMPLATES:
        if m != method:
            continue
        tsegs = template.split("/")
        if len(tsegs) != len(segs):
            continue
        params = {}
        for t, s in zip(tsegs, segs):
            if t.startswith("{"):
                params[t[1:-1]] = unquote(s)
            elif t != s:
                break
        else:
            return opid, f"{m} {template}", params
    return None


def wire_exchange(e: httpseam.Exchange) -> Exchange | None:
    raw_path = urlsplit(e.url).path
    hit = match_template(e.method, raw_path)
    if hit is None:
        return None
    pairs = parse_qsl(urlsplit(e.url).query, keep_blank_values=True)
    query: dict[str, Any] = {}
    for k, v in pairs:
        if k in query:
            return None
        query[k] = v
    body: Any = ABSENT
    if e.body:
        try:
            body = json.loads(e.body.decode("utf-8"))
        except ValueError:
            return None
    payload = e.response_body if isinstance(e.response_body, bytes) else str(e.response_body).encode()
    return Exchange(method=e.method, url=e.url, path_params=hit[2], query=query, request_headers=dict(e.headers), request_body=body,
                    status=int(e.status or 0), response_headers=[(k, v) for k, v in e.response_headers], response_body=payload)


def _operation_def(doc: dict, opid: str) -> tuple[str, str, dict]:
    for path, item in doc["paths"].items():
        for method, op in item.items():
            if op.get("operationId") == opid:
                return method.upper(), path, op
    raise KeyError(opid)


def _link_target(doc: dict, link: dict) -> str:
    """operation id of the link target - own resolution of operationId / operationRef (RFC 6901 pointer into the document)."""
    if "operationId" in link:
        return link["operationId"]
    tokens, _ = rtexpr.parse_pointer(link["operationRef"][1:])
    node = rtexpr.resolve_pointer(doc, tokens)
    return node["operationId"]


def _cookies(headers: dict) -> dict:
    raw = next((v for k, v in headers.items() if k.lower() == "cookie"), "")
    out = {}
    for part in raw.split(";"):
        if "=" in part:
            k, _, v = part.strip().partition("=")
            out[k] = v
    return out


def c_items(tier: str) -> list[dict]:
    out = []
    n = len(RESPONSES)
    for name in SHAPES:
        if name in c10_extra.EXTRA_SHAPES:
            continue
        for r0 in range(n):
            for r1 in range(n):
                out.append({"part": "c", "shape": name, "script": [r0, r1], "modes": "P"})
    # both generation modes for a few shapes (link values must win in negative mode as well)
    for name in ("opref_explicit", "body_nested_merge", "body_literal_nomerge"):
        for r0 in (0, 2, 4):
            out.append({"part": "c", "shape": name, "script": [r0, 0], "modes": "PN"})
    # constant / falsy link values: the value does not depend on the response, three scripts are enough
    for name in c10_extra.EXTRA_SHAPES:
        for script in c10_extra.EXTRA_SCRIPTS:
            out.append({"part": "c", "shape": name, "script": list(script), "modes": "P"})
    out.append({"part": "c", "shape": "constants_qualified", "script": [0, 0], "modes": "PN"})
    out.append({"part": "c", "shape": "body_zero", "script": [0, 0], "modes": "PN"})
    return out


def check_c(item: dict, tier: str, res: Result) -> None:
    import hypothesis
    from hypothesis.stateful import get_state_machine_test
    from hypothesis.strategies._internal.core import DataObject

    from schemathesis.generation import GenerationConfig, GenerationMode

    from mc import engine

    bounds = BOUNDS[tier]
    shape = SHAPES[item["shape"]]
    doc = c_document(shape)
    modes = [GenerationMode.POSITIVE] if item["modes"] == "P" else [GenerationMode.POSITIVE, GenerationMode.NEGATIVE]
    schema = engine.load_schema(doc, generation=GenerationConfig(modes=modes))
    base_cls = schema.as_state_machine()
    holder: dict[str, Any] = {}

    class Machine(base_cls):  # type: ignore[valid-type,misc]
        def validate_response(self, response: Any, case: Any, additional_checks: Any = (), **kwargs: Any) -> None:
            # what the engine's own subclass does first; no checks (the scripted API does not conform on purpose)
            self.recorder.record_response(case_id=case.id, response=response)

    def factory() -> Any:
        holder["machine"] = Machine()
        return holder["machine"]

    settings = hypothesis.settings(deadline=None, database=None, stateful_step_count=bounds["c_steps"],
                                   suppress_health_check=list(hypothesis.HealthCheck), phases=[hypothesis.Phase.generate])
    inner = get_state_machine_test(factory, settings=settings).hypothesis.inner_test
    script = item["script"]

    def handler(e: httpseam.Exchange) -> tuple:
        idx = script[e.index] if e.index < len(script) else 0
        status, headers, payload = RESPONSES[idx]
        if isinstance(payload, str):
            return status, list(headers), payload.encode()
        return httpseam.json_response(status, payload, list(headers))

    def body(draw: Any) -> Any:
        holder.pop("machine", None)
        with httpseam.installed(handler) as log:
            holder["log"] = log
            inner(DataObject(draw.__self__))
        return None

    stats = Stats()
    alphabet = Alphabet(chars=["a", "b"], max_extra_len=1)
    for ex in explore(body, alphabet, bounds["c_deviations"], max_executions=bounds["c_max_exec_per_tree"], stats=stats):
        res.evaluations += 1
        res.outcomes.add(f"c:{ex.status}")
        if ex.status == "error":
            res.count(f"c_execution_error:{type(ex.error).__name__}")
            res.outcomes.add(f"c:error:{type(ex.error).__name__}")
        machine = holder.get("machine")
        log = holder.get("log")
        if machine is None or log is None:
            continue
        res.traces += 1
        judge_c(res, item, doc, list(log.exchanges), machine, ex)
    res.states += stats.nodes
    res.transitions += stats.edges
    if stats.capped:
        res.exhaustive = False
        res.count("c_trees_capped")
    res.count("c_trees")


_TRANSITION_ID = re.compile(r"^(?P<source>.+?) -> \[(?P<key>[^\]]+)\] (?P<name>\S+) -> (?P<target>.+)$")


def judge_c(res: Result, item: dict, doc: dict, exchanges: list, machine: Any, ex: Any) -> None:
    from schemathesis.core import NOT_SET

    by_case: dict[str, httpseam.Exchange] = {}
    for e in exchanges:
        cid = next((v for k, v in e.headers.items() if k.lower() == httpseam.CASE_ID_HEADER.lower()), None)
        if cid is not None:
            by_case[cid] = e
    base_detail = {"shape": item["shape"], "script": item["script"], "modes": item["modes"], "choices": ex.choices,
                   "traffic": [e.as_json() | {"response_body": e.response_body.decode("utf-8", "replace")} for e in exchanges]}
    # sentinels never reach the wire, whatever the request
    for e in exchanges:
        text = unquote(e.url) + json.dumps(sorted(e.headers.items())) + (e.body or b"").decode("utf-8", "replace")
        for s in SENTINELS:
            if s in text:
                res.violation({"part": "c", "kind": "sentinel_sent", "sentinel": s}, base_detail | {"request": e.as_json()})
    followed_from: set[int] = set()
    uses: dict[tuple, int] = {}
    for case_id, node in machine.recorder.cases.items():
        if node.transition is None:
            res.count("c_root_steps")
            continue
        res.count("c_links_followed")
        if item["shape"] in c10_extra.EXTRA_SHAPES:
            res.count("c_round2_followed:" + item["shape"])
        child = by_case.get(case_id)
        parent = by_case.get(node.transition.parent_id)
        m = _TRANSITION_ID.match(node.transition.id)
        if m is None:
            res.oracle_errors.append({"error": "transition id not understood", "id": node.transition.id})
            continue
        # sentinels never enter the derived case either (they may make the transport fail before anything is sent)
        leaked = _sentinels_in_case(node.value)
        if leaked:
            res.violation({"part": "c", "kind": "sentinel_in_derived_case", "location": leaked[0][0], "sentinel": leaked[0][1]},
                          base_detail | {"transition": node.transition.id, "where": leaked})
            continue
        if child is None:
            # a case was derived through the link but no request carries its id: the step failed before sending
            res.violation({"part": "c", "kind": "derived_request_not_sent", "error": type(ex.error).__name__ if ex.error else ex.status},
                          base_detail | {"transition": node.transition.id, "error": repr(ex.error)[:300]})
            continue
        if parent is None or parent.index >= child.index or parent.status is None:
            res.violation({"part": "c", "kind": "derived_request_without_prior_source_response"}, base_detail | {"transition": node.transition.id})
            continue
        followed_from.add(parent.index)
        uses[(parent.index, node.transition.id)] = uses.get((parent.index, node.transition.id), 0) + 1
        if uses[(parent.index, node.transition.id)] == 2:
            res.count("c_same_link_followed_twice_from_one_source")  # second use = a hit in the link's per-case cache
        src = match_template(parent.method, urlsplit(parent.url).path)
        source_label, key, link_name, target_label = m["source"], m["key"], m["name"], m["target"]
        if src is None or src[1] != source_label:
            res.violation({"part": "c", "kind": "transition_source_differs_from_traffic"},
                          base_detail | {"transition": node.transition.id, "source_request": parent.as_json()})
            continue
        _, _, src_op = _operation_def(doc, src[0])
        link = src_op["responses"].get(key, {}).get("links", {}).get(link_name)
        if link is None:
            res.violation({"part": "c", "kind": "followed_link_not_in_document"}, base_detail | {"transition": node.transition.id})
            continue
        target_id = _link_target(doc, link)
        t_method, t_path, dst_op = _operation_def(doc, target_id)
        by = "operationRef" if "operationRef" in link else "operationId"
        detail = base_detail | {"transition": node.transition.id, "link": link, "source_index": parent.index, "derived_index": child.index}
        if f"{t_method} {t_path}" != target_label or child.method != t_method:
            res.violation({"part": "c", "kind": "link_target_differs", "by": by}, detail | {"derived_request": child.as_json()})
            continue
        # 1. status matches the link key
        usable = rtexpr.link_usable(key, int(parent.status), list(src_op["responses"]))
        if usable is False:
            res.violation({"part": "c", "kind": "link_followed_from_non_matching_status", "key_kind": rtexpr.key_kind(key),
                           "status_class": f"{int(parent.status) // 100}xx"}, detail)
            continue
        if usable is None:
            res.count("c_undecided_status_precedence")
        else:
            res.count("c_status_match_checked")
        dst = match_template(child.method, urlsplit(child.url).path)
        if dst is None or dst[0] != target_id:
            # the request did not reach the target operation; fact computed here: does the link put a reserved character into the path?
            reserved = set()
            src_x = wire_exchange(parent)
            for pname, expr in (link.get("parameters") or {}).items():
                loc = pname.partition(".")[0] if "." in pname else next(
                    (p["in"] for p in dst_op.get("parameters", []) if p["name"] == pname), None)
                if loc == "path" and src_x is not None:
                    ref = _reference(expr, src_x)
                    if ref[0] == "value" and isinstance(ref[1].value, str):
                        reserved |= {c for c in ref[1].value if c in "/?#"}
            if reserved:
                res.violation({"part": "c", "kind": "link_path_value_not_escaped_changes_route", "characters": "".join(sorted(reserved))},
                              detail | {"derived_request": child.as_json()})
            else:
                res.violation({"part": "c", "kind": "derived_request_does_not_reach_link_target", "by": by},
                              detail | {"derived_request": child.as_json()})
            continue
        source = wire_exchange(parent)
        sent = wire_exchange(child)
        if source is None or sent is None:
            res.count("c_undecided_unparsable_traffic")
            continue
        case = node.value
        res.nontriv(["c", item["shape"], item["script"], item["modes"], ex.choices, child.index])
        # 2. parameters
        for pname, expr in (link.get("parameters") or {}).items():
            if "." in pname:
                location, _, name = pname.partition(".")
            else:
                name = pname
                locs = [p["in"] for p in dst_op.get("parameters", []) if p["name"] == name]
                if len(locs) != 1:
                    # bare name declared in two locations: OpenAPI asks for the qualified form; which one is meant is open
                    res.count("c_undecided_ambiguous_bare_name")
                    continue
                location = locs[0]
            ref = _reference(expr, source)
            container = {"path": sent.path_params, "query": sent.query, "header": {k.lower(): v for k, v in sent.request_headers.items()},
                         "cookie": _cookies(sent.request_headers)}[location]
            wire = container.get(name.lower() if location == "header" else name)
            case_container = getattr(case, common.CONTAINER[location]) or {}
            if location == "header":
                case_container = {k.lower(): v for k, v in dict(case_container).items()}
            case_value = case_container.get(name.lower() if location == "header" else name, ABSENT)
            facts = expression_facts(expr, source) if isinstance(expr, str) else {"feature": "constant"}
            feature = facts.get("feature", "other")
            # coarse on purpose (one defect = few signatures): only the expression machinery involved, the rest is detail
            sig = {"part": "c", "expression_class": "pointer_escape" if feature.startswith("pointer_escape") else
                   feature if feature in ("regex", "hash_in_literal_text", "array_index_not_rfc6901", "no_such_body") else "plain"}
            if location == "header":
                declared = [p["name"] for p in dst_op.get("parameters", []) if p["in"] == "header"]
                if name not in declared and name.lower() in {d.lower() for d in declared}:
                    # fact from the document: the link spells a declared header of the target in another letter case
                    sig["header_key_case"] = "differs_from_declaration"
                    res.count("c_header_key_in_other_case")
            pdetail = detail | {"parameter": pname, "expression": expr, "reference": _plain(ref), "sent_on_wire": wire,
                                "case_value": _plain(case_value), "location": location, "explicit_location": "." in pname,
                                "target_by": by, **facts}
            if ref[0] == "undecided":
                res.count("c_undecided_parameter")
                continue
            if ref[0] == "unresolved":
                res.count("c_unresolvable_parameters")
                if isinstance(wire, str) and (wire in ("None", "null") or any(s in wire for s in SENTINELS)):
                    res.violation({**sig, "kind": "unresolvable_value_sent"}, pdetail)
                continue
            if ref[0] == "malformed":
                res.oracle_errors.append({"error": "shape carries a malformed expression", "expression": expr})
                continue
            expected: Value = ref[1]
            if expected.value is None:
                res.count("c_undecided_null_value")
                continue
            res.count("c_parameters_checked")
            if not isinstance(expr, str) or feature == "constant":
                res.count("c_constant_parameters_checked")
                if not expected.value and expected.value is not None:
                    res.count("c_falsy_constant_parameters_checked")
            same = case_value is not ABSENT and rtexpr.same(case_value, expected)
            if not same and location == "path" and isinstance(case_value, str) and isinstance(expected.value, str):
                # Case.path_parameters holds text as it goes into the URL (generated values are percent-encoded there too):
                # read it through that encoding; what reaches the route is compared below on the wire
                same = urllib.parse.unquote(case_value) == expected.value
                res.count("c_path_values_read_through_percent_encoding")
            if not same:
                res.violation({**sig, "kind": "link_parameter_not_the_denoted_value"}, pdetail)
                continue
            if isinstance(expected.value, (str, int)) and not isinstance(expected.value, bool) and _wire_safe(expected.value, location):
                res.count("c_wire_values_checked")
                if wire != str(expected.value):
                    res.violation({**sig, "kind": "wire_value_differs_from_denoted_value", "location": location}, pdetail)
        # 3. body
        if "requestBody" in link:
            merge = (link.get("x-schemathesis") or {}).get("merge_body", True)
            sig = {"part": "c", "location": "body", "merge_body": merge,
                   "body_form": "expression" if isinstance(link["requestBody"], str) else "nested" if _has_expression(link["requestBody"]) else "literal"}
            try:
                expected_body, unresolved = rtexpr.evaluate_nested(link["requestBody"], source)
            except Undecided:
                res.count("c_undecided_body")
                continue
            except Malformed:
                res.oracle_errors.append({"error": "shape carries a malformed body expression"})
                continue
            bdetail = detail | {"expected_body": rtexpr.plain(expected_body), "unresolved": unresolved, "sent_body": rtexpr.plain(sent.request_body),
                                "case_body": None if case.body is NOT_SET else case.body}
            if unresolved:
                res.count("c_unresolvable_bodies")
                continue  # sentinel scan above covers "never sent"
            falsy_body = not isinstance(expected_body, Value) and not expected_body and expected_body is not None
            if falsy_body:
                # the fact goes into the signature: a defect that drops only falsy link bodies is a defect of its own
                sig = sig | {"falsy_value": True}
                res.count("c_falsy_bodies_checked_merge_" + ("on" if merge else "off"))
            if sent.request_body is ABSENT:
                res.violation({**sig, "kind": "link_body_not_sent"}, bdetail)
                continue
            if merge and isinstance(rtexpr.plain(expected_body), dict) and isinstance(sent.request_body, dict):
                res.count("c_merge_on_checked")
                lost = [k for k, v in expected_body.items() if k not in sent.request_body or not rtexpr.same(sent.request_body[k], v)]
                if lost:
                    res.violation({**sig, "kind": "link_body_keys_not_overriding"}, bdetail | {"keys": lost})
                extra = [k for k in sent.request_body if k not in expected_body]
                res.count("c_merge_kept_generated_keys" if extra else "c_merge_no_generated_keys")
            else:
                res.count("c_merge_off_checked" if not merge else "c_merge_on_non_object_checked")
                if not rtexpr.same(sent.request_body, expected_body):
                    res.violation({**sig, "kind": "link_body_not_the_denoted_value"}, bdetail)
    for e in exchanges:
        hit = match_template(e.method, urlsplit(e.url).path)
        if hit is None or e.status is None:
            continue
        responses = _operation_def(doc, hit[0])[2]["responses"]
        for k, r in responses.items():
            if r.get("links") and rtexpr.link_usable(k, int(e.status), list(responses)) is False:
                res.count("c_responses_not_matching_a_link_key")
    if len(res.samples) < 2 and followed_from:
        res.samples.append({"part": "c", "shape": item["shape"], "script": item["script"], "choices": ex.choices,
                            "traffic": [[e.method, e.url, (e.body or b"").decode("utf-8", "replace"), e.status] for e in exchanges]})


def _sentinels_in_case(case: Any) -> list:
    out = []
    for location, attr in (("path", "path_parameters"), ("query", "query"), ("header", "headers"), ("cookie", "cookies"), ("body", "body")):
        top = getattr(case, attr, None)
        stack = [top] if location != "body" or type(top).__name__ != "NotSet" else []
        while stack:
            x = stack.pop()
            if isinstance(x, dict) or hasattr(x, "items"):
                stack.extend(v for _, v in x.items())
            elif isinstance(x, (list, tuple)):
                stack.extend(x)
            elif type(x).__name__ in ("Unresolvable", "NotSet"):
                out.append([location, type(x).__name__])
            elif isinstance(x, str) and any(s in x for s in SENTINELS):
                out.append([location, "repr"])
    return out


def _wire_safe(value: Any, location: str) -> bool:
    s = str(value)
    if location in ("header", "cookie"):
        return s != "" and all(c in rtexpr.PLAIN for c in s)
    return True


def _has_expression(obj: Any) -> bool:
    if isinstance(obj, dict):
        return any(_has_expression(v) for v in obj.values())
    if isinstance(obj, list):
        return any(_has_expression(v) for v in obj)
    return isinstance(obj, str) and ("$" in obj or "{" in obj)


# ======================================================================================================================
# module contract
# ======================================================================================================================


def _chunks(xs: list, n: int) -> list[list]:
    return [xs[i : i + n] for i in range(0, len(xs), n)]


def items(tier: str, seed: int) -> list[dict]:
    strings = all_strings(tier)
    out: list[dict] = []
    out += [{"part": "a", "strings": c} for c in _chunks(strings, 120)]
    out += [{"part": "a_link", "strings": c} for c in _chunks(strings, 60)]
    out += b_items()
    out += c_items(tier)
    # cheap exhaustive parts first; a time cap can then only cut (c) short (reported as non-exhaustive)
    out.sort(key=lambda it: {"a": 0, "a_link": 1, "b": 2, "c": 3}[it["part"]])
    return out


def check_item(item: dict, tier: str) -> Result:
    res = Result()
    common.reset_schemathesis_caches()
    _reset_expression_caches()
    part = item["part"]
    if part == "a":
        check_a(item, tier, res)
    elif part == "a_link":
        check_a_link(item, tier, res)
    elif part == "b":
        check_b(item, tier, res)
    else:
        check_c(item, tier, res)
    return res


def _reset_expression_caches() -> None:
    from schemathesis.specs.openapi.expressions import parser
    from schemathesis.specs.openapi.stateful import make_response_filter

    parser.parse.cache_clear()
    make_response_filter.cache_clear()


def vacuity(total: Result, tier: str) -> list[str]:
    c = total.counters
    out = []
    if c.get("c_links_followed", 0) == 0:
        out.append("(c) no execution ever followed a link")
    for key, msg in (
        ("c_parameters_checked", "(c) no link parameter value was compared"),
        ("c_wire_values_checked", "(c) no link parameter was compared on the wire"),
        ("c_unresolvable_parameters", "(c) no unresolvable link parameter was met"),
        ("c_merge_on_checked", "(c) merge_body=on was never exercised"),
        ("c_merge_kept_generated_keys", "(c) merge_body=on never kept a generated key"),
        ("c_merge_off_checked", "(c) merge_body=off was never exercised"),
        ("c_responses_not_matching_a_link_key", "(c) no response with a status outside a link's key was met"),
        ("c_status_match_checked", "(c) the status of a source response was never compared with a link key"),
        ("a_values_agree", "(a) no derivable expression evaluated"),
        ("a_malformed_rejected", "(a) no malformed expression was rejected"),
        ("a_unresolved_agree", "(a) no unresolvable expression"),
        ("a_link_malformed_rejected", "(a) no link with a malformed expression was rejected"),
        ("a_link_derivable_accepted", "(a) no link with a derivable expression was accepted"),
        ("a_link_state_machine_refused", "(a) as_state_machine() never refused a malformed link"),
        ("b_agree_usable", "(b) no link was usable"),
        ("b_agree_not_usable", "(b) no link was unusable"),
        # review round 2
        ("a_values_agree_in_round2_context", "(a) nothing evaluated in the 7th context"),
        ("a_values_agree_on_round2_strings", "(a) none of the letter-case / pointer-token strings evaluated to a value"),
        ("a_link_header_case_variants", "(a) no link with a header name in another letter case"),
        ("b_agree_usable_at_range_limit", "(b) no link usable from a status at a range limit"),
        ("b_agree_not_usable_at_range_limit", "(b) no link unusable from a status at a range limit"),
        ("b_agree_2.0_usable", "(b) no usable link in a Swagger 2.0 document"),
        ("b_agree_3.1.0_usable", "(b) no usable link in an OpenAPI 3.1 document"),
        ("c_constant_parameters_checked", "(c) no constant link parameter was compared"),
        ("c_falsy_constant_parameters_checked", "(c) no falsy constant link parameter was compared"),
        ("c_falsy_bodies_checked_merge_on", "(c) no falsy link body with merge_body on"),
        ("c_falsy_bodies_checked_merge_off", "(c) no falsy link body with merge_body off"),
        ("c_header_key_in_other_case", "(c) no link parameter naming a header in another letter case"),
        ("c_same_link_followed_twice_from_one_source", "(c) no link was followed twice from the same source response"),
    ) + tuple(("c_round2_followed:" + name, f"(c) the links of shape {name} were never followed") for name in c10_extra.EXTRA_SHAPES):
        if c.get(key, 0) == 0:
            out.append(msg)
    return out
