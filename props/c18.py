"""C18 - resource-lifecycle findings (`use_after_free`, `ensure_resource_availability`) follow from the observed history.

Review round 2 (enumerators in mc/c18_extra.py) added five narrow history families - D (depth 5), N (earlier steps without a
recorded response), S (status alphabet), T (identifier types), V (document shapes: operations 8..12) - and family E: the real
stateful phase of the real engine runs both checks against scripted APIs and the recorded trees are judged by the same predicates.

E5: explicit-state breadth-first enumeration of scenario HISTORIES.  A state is the ordered list of steps
``[operation, identifiers, response status, parent, override-shape]``; ``build(history)`` creates a fresh real
``ScenarioRecorder`` and replays the real ``record_case`` / ``record_response`` with real ``Case`` / ``Response`` /
``Transition`` objects, then the REAL check functions are called on the newest case with a ``CheckContext`` made by the
real ``EngineContext.get_check_context``.  The oracle below is a transcription of the property text and works on the
step tuples only - it never looks at the recorder, at ``_is_prefix_operation`` or at ``Case._override``.
"""

from __future__ import annotations

import itertools
from typing import Any, Iterator

from mc import c18_extra as extra
from mc.runner import Result

ID = "C18"
LEVEL = "model_checking"
ENGINES = ["E5"]  # + six single deterministic executions of the real engine (family E)
RULE = (
    "state = ordered scenario history of steps (operation, path identifiers, response status, parent in {none, any earlier "
    "step}, link override shape in {all, some, none}); every history up to the stated depth over the stated alphabets is "
    "built on a fresh real ScenarioRecorder and both real checks are run on its newest case; distinct = distinct ordered "
    "histories (no merging and no identifier-renaming symmetry: the checks are order-sensitive and the identifier alphabet "
    "{1, 11, 2} is deliberately not symmetric - 1 is a substring of 11); non-trivial = a history in which a check reported, "
    "or the text demands / permits / leaves open a report, or the newest request's tree holds a DELETE of its resource "
    "(counter nontrivial_states; distinct_nontrivial counts their classes with identifiers abstracted to their relation "
    "with the newest request)"
)
# family A: full alphabet; family B (thorough only): one level deeper over a reduced alphabet (its histories of depth <= 3
# are a subset of family A's and are judged again, so thorough `states` counts them twice: < 0.1 % of family B).
# "on the newest step" = every judged history varies shape/status of its LAST step over the full alphabet, while steps that
# are extended further come from the restricted alphabet (`Case._override` is observable on the newest case only).
BOUNDS = {
    "quick": {
        "A": {"depth": 3, "ids": [1, 11, 2], "pids": [1, 11], "statuses": [200, 404, 403, 500], "ops": "first 8",
              "override_shapes": "all/some/none on the newest step, 'all' on earlier link-derived steps"},
        # deeper trees over a narrow alphabet: a DELETE that hangs below a non-root ancestor of the judged request
        # (sibling under a non-root parent, cousin below an intermediate ancestor) needs four steps
        "C": {"depth": 4, "ids": [1, 11], "pids": [1], "statuses": [200, 404], "earlier_statuses": [200],
              "ops": [0, 1, 3, 5], "override_shapes": "all/some/none on the newest step, 'all' on earlier link-derived steps"},
        # review round 2 (mc/c18_extra.py): D = depth 5, N = earlier steps without a recorded response, S = status alphabet,
        # T = identifier types, V = document shapes (operations 8..12), E = the real stateful phase against scripted APIs
        **extra.EXTRA_BOUNDS,
        "E": {"engine_scenarios": sorted(extra.ENGINE_SCENARIOS)},
    },
    "thorough": {
        "A": {"depth": 3, "ids": [1, 11, 2], "pids": [1, 11, 2], "statuses": [200, 302, 404, 403, 500], "ops": "first 8",
              "override_shapes": "all/some/none on every link-derived step"},
        "B": {"depth": 4, "ids": [1, 11], "pids": [1, 11], "statuses": [200, 404, 403, 500],
              "earlier_statuses": [200, 403, 500], "ops": "first 8 but PUT",
              "override_shapes": "all/some/none on the newest step, 'all' on earlier link-derived steps"},
        **extra.EXTRA_BOUNDS,
        "E": {"engine_scenarios": sorted(extra.ENGINE_SCENARIOS)},
    },
}
BUDGET_S = {"quick": 140, "thorough": 3000}
CHUNK = 2
ASSUMPTIONS = [
    "one API document (POST /users, GET|PUT|DELETE /users/{id}, GET /users/{id}/posts?limit, DELETE /users/{id}/posts/{pid}, "
    "GET /orders/{id}, DELETE /users/{id}/avatar; family V adds GET|POST /users/{user_id}/comments, DELETE /users/{uid}/comments/{cid}, "
    "GET|DELETE /userstats/{id}); no two collection names differ only in trailing 's', so the singular/plural heuristic of "
    "_is_prefix_operation is not exercised (the text says 'same path prefix' and leaves such pairs open)",
    "identifiers are integers from {1, 11, 2} (family T: 1, '1', '11', 'a', 'A' - an integer and the string of its digits address the "
    "same resource, they make the same URL); statuses 200/404/403/500 (+302 in the thorough tier; family S: 200 201 202 204 299 300 "
    "399 400 401 404 499 503); family N: earlier steps with a recorded network error or with no interaction at all - such a request "
    "is not known to have succeeded",
    "every non-root step is link-derived (carries a real Transition); cases derived inside checks (transition=None) are not enumerated",
    "family E: six scripted APIs x one derandomized run of the real stateful phase each (12 examples x 5 steps); what the engine "
    "recorded for a case is judged, a check result that is missing for a case (equal failures are recorded once per suite) is undecided",
    "case metadata for link-derived steps is hand-built; a dedicated work item proves it equal to what the real "
    "OpenApiLink.extract + into_step_input produce for the same link shapes",
    "'resource not available after creation' is judged one-way (the text says 'only for'); 3xx as 'successful' and a successful "
    "DELETE recorded in another tree between POST and the request are left open by the text and counted as undecided",
]

# ---------------------------------------------------------------------------------------------------------------------
# API document
# ---------------------------------------------------------------------------------------------------------------------

OPS = [
    {"method": "POST", "path": "/users", "vars": [], "query": []},
    {"method": "GET", "path": "/users/{id}", "vars": ["id"], "query": []},
    {"method": "PUT", "path": "/users/{id}", "vars": ["id"], "query": []},
    {"method": "DELETE", "path": "/users/{id}", "vars": ["id"], "query": []},
    {"method": "GET", "path": "/users/{id}/posts", "vars": ["id"], "query": ["limit"]},
    {"method": "DELETE", "path": "/users/{id}/posts/{pid}", "vars": ["id", "pid"], "query": []},
    {"method": "GET", "path": "/orders/{id}", "vars": ["id"], "query": []},
    # a sub-resource WITHOUT an identifier of its own: deeper path, same variables as /users/{id} (deleting it does not delete the user)
    {"method": "DELETE", "path": "/users/{id}/avatar", "vars": ["id"], "query": []},
    # 8..12 (review round 2, used by family V only): differently named variables, /userstats, a POST with an identifier
    *extra.EXTRA_OPS,
]
LIMIT = 5  # value of the generated (or link-provided) optional query parameter


def op_label(op: int) -> str:
    return f"{OPS[op]['method']} {OPS[op]['path']}"


def shapes_of(op: int) -> list[str]:
    """Override shapes a link-derived step of this operation can have.

    all  = every declared parameter came from the link; some = only `id` came from the link (the other parameter was
    generated); none = the link passed no parameter.  An operation without parameters has the single (vacuous) shape `all`.
    """
    n = len(OPS[op]["vars"]) + len(OPS[op]["query"])
    if n == 0:
        return ["all"]
    if n == 1:
        return ["all", "none"]
    return ["all", "some", "none"]


def _param(name: str, location: str = "path", required: bool = True) -> dict:
    return {"name": name, "in": location, "required": required, "schema": {"type": "integer"}}


# links out of `POST /users` -> 201, one per (target, shape); used by the metadata-conformance item only
LINKS = {
    "GetUserAll": (1, "all"), "GetUserNone": (1, "none"),
    "PutUserAll": (2, "all"), "DeleteUserAll": (3, "all"), "DeleteUserNone": (3, "none"),
    "PostsAll": (4, "all"), "PostsSome": (4, "some"), "PostsNone": (4, "none"),
    "DeletePostAll": (5, "all"), "DeletePostSome": (5, "some"), "DeletePostNone": (5, "none"),
    "OrderAll": (6, "all"), "CreateAgain": (0, "all"),
    **extra.EXTRA_LINKS,
}
EXPRESSIONS = {"id": "$response.body#/id", "pid": "$response.body#/pid", "limit": "$response.body#/limit", **extra.EXTRA_EXPRESSIONS}


def link_parameters(op: int, shape: str) -> dict[str, str]:
    """Link `parameters` object (name -> runtime expression) producing the given shape."""
    if shape == "none":
        return {}
    out = {}
    names = OPS[op]["vars"] + OPS[op]["query"]
    if shape == "some":
        names = names[:1]
    for name in names:
        out[name] = EXPRESSIONS[name]
    return out


def document(link_definitions: dict | None = None) -> dict:
    """link_definitions: name -> (operation, `parameters` object) replaces the links of `POST /users` -> 201 (engine scenarios)."""
    ok = {"200": {"description": "ok"}, "default": {"description": "other"}}
    op_ids = {0: "createUser", 1: "getUser", 2: "putUser", 3: "deleteUser", 4: "listPosts", 5: "deletePost", 6: "getOrder", 7: "deleteAvatar",
              **extra.EXTRA_OPERATION_IDS}
    links = {}
    if link_definitions is None:
        link_definitions = {name: (op, link_parameters(op, shape)) for name, (op, shape) in LINKS.items()}
    for name, (op, parameters) in sorted(link_definitions.items()):
        links[name] = {"operationId": op_ids[op], "parameters": dict(parameters)}
    body = {"content": {"application/json": {"schema": {"type": "object"}}}, "required": True}
    return {
        "openapi": "3.0.2",
        "info": {"title": "c18", "version": "1"},
        "paths": {
            "/users": {"post": {"operationId": op_ids[0], "requestBody": body,
                                "responses": {"201": {"description": "created", "links": links}, "default": {"description": "other"}}}},
            "/users/{id}": {
                "parameters": [_param("id")],
                "get": {"operationId": op_ids[1], "responses": ok},
                "put": {"operationId": op_ids[2], "requestBody": body, "responses": ok},
                "delete": {"operationId": op_ids[3], "responses": ok},
            },
            "/users/{id}/posts": {"get": {"operationId": op_ids[4], "parameters": [_param("id"), _param("limit", "query", False)],
                                          "responses": ok}},
            "/users/{id}/posts/{pid}": {"delete": {"operationId": op_ids[5], "parameters": [_param("id"), _param("pid")],
                                                   "responses": ok}},
            "/orders/{id}": {"get": {"operationId": op_ids[6], "parameters": [_param("id")], "responses": ok}},
            "/users/{id}/avatar": {"delete": {"operationId": op_ids[7], "parameters": [_param("id")], "responses": ok}},
            "/users/{user_id}/comments": {"parameters": [_param("user_id")],
                                          "get": {"operationId": op_ids[8], "responses": ok},
                                          "post": {"operationId": op_ids[12], "requestBody": body, "responses": ok}},
            "/users/{uid}/comments/{cid}": {"delete": {"operationId": op_ids[9], "parameters": [_param("uid"), _param("cid")],
                                                       "responses": ok}},
            "/userstats/{id}": {"parameters": [_param("id")], "get": {"operationId": op_ids[10], "responses": ok},
                                "delete": {"operationId": op_ids[11], "responses": ok}},
        },
    }


# ---------------------------------------------------------------------------------------------------------------------
# Step alphabet.  A step is [op, ids, status, parent, shape]; parent = -1 (root, shape "root") or an earlier index.
# ---------------------------------------------------------------------------------------------------------------------


def family_config(tier: str, family: str) -> dict:
    b = BOUNDS[tier][family]
    return {
        "depth": b["depth"], "ids": b["ids"], "pids": b["pids"], "statuses": b["statuses"],
        # statuses of steps that are extended further (the newest step of every judged history uses `statuses`)
        "earlier_statuses": b.get("earlier_statuses", b["statuses"]),
        "ops": list(b["ops"]) if isinstance(b["ops"], list) else [i for i in range(8) if not (b["ops"] == "first 8 but PUT" and i == 2)],
        "family": family,
        "earlier_only": [s for s in b.get("earlier_statuses", []) if s not in b["statuses"]],
        "shapes_on_newest_only": b["override_shapes"].startswith("all/some/none on the newest step"),
    }


def op_ids_choices(cfg: dict, op: int) -> list[list[int]]:
    pools = [cfg["pids"] if v in extra.SECOND_LEVEL_VARIABLES else cfg["ids"] for v in OPS[op]["vars"]]
    return [list(c) for c in itertools.product(*pools)]


def extensions(cfg: dict, n_before: int, newest: bool, ops: list[int] | None = None) -> Iterator[list]:
    """Every step that can be appended to a history of `n_before` steps (deterministic order, simplest first).

    newest=True: the full alphabet of a step that is judged; newest=False: only the steps that are also extended."""
    for op in ops if ops is not None else cfg["ops"]:
        for ids in op_ids_choices(cfg, op):
            for status in cfg["statuses"] if newest else cfg["earlier_statuses"]:
                yield [op, ids, status, -1, "root"]
                for parent in range(n_before):
                    shapes = shapes_of(op) if (newest or not cfg["shapes_on_newest_only"]) else ["all"]
                    for shape in shapes:
                        yield [op, ids, status, parent, shape]


def extendable(cfg: dict, step: list) -> bool:
    """Is this step part of the alphabet of non-newest steps?  (Every step is judged as a newest step first.)"""
    if step[2] not in cfg["earlier_statuses"]:
        return False
    return not cfg["shapes_on_newest_only"] or step[4] in ("root", "all")


def leaf_only_variants(cfg: dict, history: list) -> list[list]:
    """Steps equal to the last step of `history` in operation, identifiers and parent whose (status, shape) is outside the
    alphabet of extended steps: judged as newest steps, never extended.  Owned by the simplest extendable sibling."""
    if not history:
        return []
    op, ids, status, parent, shape = history[-1]
    if status != cfg["earlier_statuses"][0]:
        return []
    out = []
    for st in cfg["statuses"]:
        for sh in (["root"] if parent == -1 else shapes_of(op)):
            step = [op, ids, st, parent, sh]
            if not extendable(cfg, step):
                out.append(step)
    return out


def history_families(tier: str) -> list[str]:
    """The narrow families of review round 2 first (they are cheap: a run stopped by the time cap has still done them)."""
    return sorted((f for f in BOUNDS[tier] if "depth" in BOUNDS[tier][f]), key=lambda f: (f not in extra.EXTRA_BOUNDS, f))


def items(tier: str, seed: int) -> list[dict]:
    out: list[dict] = [{"family": "meta"}]
    for name in BOUNDS[tier]["E"]["engine_scenarios"]:
        out.append({"family": "E", "scenario": name})
    for family in history_families(tier):
        cfg = family_config(tier, family)
        # an item = a prefix of depth-2 steps (canonical shapes) + the operation of the next step; it owns every extension
        prefix_len = cfg["depth"] - 2
        level: list[list] = [[]]
        shorter: list[list] = []
        for k in range(prefix_len):
            shorter.extend(level)
            level = [p + [s] for p in level for s in extensions(cfg, k, newest=False)]
        out.append({"family": family, "only": shorter})  # histories shorter than a prefix (at least the empty one)
        for prefix in level:
            for n, op in enumerate(cfg["ops"]):
                out.append({"family": family, "prefix": prefix, "next_op": op, "owns_prefix": n == 0})
    return out


# ---------------------------------------------------------------------------------------------------------------------
# Reference predicates - transcribed from the property text; they see step tuples only
# ---------------------------------------------------------------------------------------------------------------------


_SEGMENTS: dict = {}


def _segments(step: list) -> list[tuple[str, Any]]:
    """Path of the step's request as (kind, value) segments: literal collection names and identifier values."""
    key = (step[0], *step[1])
    out = _SEGMENTS.get(key)
    if out is None:
        spec = OPS[step[0]]
        values = dict(zip(spec["vars"], step[1]))
        out = _SEGMENTS[key] = []
        for part in spec["path"].strip("/").split("/"):
            if part.startswith("{"):
                out.append(("id", str(values[part[1:-1]])))
            else:
                out.append(("lit", part))
    return out


def path_template_is_prefix(a: list, b: list) -> bool:
    sa, sb = _segments(a), _segments(b)
    return len(sa) <= len(sb) and all(x[0] == y[0] and (x[0] == "id" or x[1] == y[1]) for x, y in zip(sa, sb))


def same_resource(a: list, b: list) -> bool:
    """`a` addresses `b`'s resource or one it is nested in: same path prefix and equal identifier values."""
    sa, sb = _segments(a), _segments(b)
    return len(sa) <= len(sb) and all(x == y for x, y in zip(sa, sb))


def root_of(history: list, i: int) -> int:
    while history[i][3] != -1:
        i = history[i][3]
    return i


def is_2xx(status: Any) -> bool:
    """`status` is an integer, or "E" / "U" for a step without a recorded response (which did not succeed as far as anyone saw)."""
    return status.__class__ is int and 200 <= status < 300


def is_3xx(status: Any) -> bool:
    return status.__class__ is int and 300 <= status < 400


def status_class(status: int | None) -> str:
    if status is None:
        return "none"
    if is_2xx(status):
        return "2xx"
    if is_3xx(status):
        return "3xx"
    if status == 404:
        return "404"
    return "4xx" if status < 500 else "5xx"


def oracle_use_after_free(history: list) -> tuple[bool | None, dict]:
    """(expected, facts).  expected: True = must be reported, False = must not, None = the text leaves it open."""
    last = len(history) - 1
    newest = history[last]
    tree = root_of(history, last)
    deletes = [j for j in range(last) if OPS[history[j][0]]["method"] == "DELETE"]
    in_tree = [j for j in deletes if root_of(history, j) == tree]
    on_resource = [j for j in in_tree if same_resource(history[j], newest)]
    succeeded = [j for j in on_resource if is_2xx(history[j][2])]
    redirected = [j for j in on_resource if is_3xx(history[j][2])]
    failed = [j for j in on_resource if not is_2xx(history[j][2]) and not is_3xx(history[j][2])]

    def parent_class(j: int) -> str:
        p = history[j][3]
        return "none" if p == -1 else ("2xx" if is_2xx(history[p][2]) else "non_2xx")

    # nearest miss, for the signature of a report that the text forbids
    if succeeded:
        nearest = "successful_delete_of_same_resource"
    elif failed or redirected:
        nearest = "delete_of_same_resource_did_not_succeed"
    elif any(path_template_is_prefix(history[j], newest) for j in in_tree):
        others = [j for j in in_tree if path_template_is_prefix(history[j], newest)]
        nearest = "delete_of_other_identifier"
        if any(_id_strings_nest(history[j], newest) for j in others):
            nearest = "delete_of_other_identifier_that_is_a_substring"
    elif in_tree:
        nearest = "delete_on_unrelated_or_longer_path"
    elif deletes:
        nearest = "delete_in_another_tree"
    else:
        nearest = "no_delete_in_history"
    facts = {
        "relevant": bool(on_resource),
        "successful_deletes": succeeded, "failed_deletes": failed, "nearest": nearest,
        # facts that tell whether "the DELETE's parent answered 2xx" (what the implementation tests) differs from
        # "the DELETE answered 2xx" (what the text says)
        "failed_delete_with_2xx_parent": any(parent_class(j) == "2xx" for j in failed),
        "successful_delete_parent_classes": sorted({parent_class(j) for j in succeeded}),
    }
    status = newest[2]
    if status == 404:
        return False, facts
    if not succeeded:
        if redirected:
            return None, facts  # is a 3xx DELETE "successful"?  open
        return False, facts
    if status >= 500:
        return None, facts  # "only if" holds, "whenever" is limited to non-5xx: both verdicts conform
    return True, facts


def _id_strings_nest(a: list, b: list) -> bool:
    sa, sb = _segments(a), _segments(b)
    return any(x[0] == "id" and x[1] != y[1] and (x[1] in y[1] or y[1] in x[1]) for x, y in zip(sa, sb))


def oracle_resource_availability(history: list) -> tuple[bool | None, list[str]]:
    """(permitted, failed conditions).  True = every stated condition holds (a report conforms; the text does not demand
    it), False = a report is forbidden, None = open."""
    last = len(history) - 1
    newest = history[last]
    failed: list[str] = []
    undecided = False
    if not (400 <= newest[2] < 500):
        failed.append("answer_is_not_4xx")
    parent = newest[3]
    if parent == -1:
        failed.append("request_did_not_come_from_a_link")
        return False, failed
    source = history[parent]
    if OPS[source[0]]["method"] != "POST":
        failed.append("link_source_is_not_POST")
    if not is_2xx(source[2]):
        if is_3xx(source[2]):
            undecided = True
        else:
            failed.append("link_source_did_not_succeed")
    if not same_resource(source, newest):
        failed.append("link_source_is_not_on_a_prefix_of_the_path")
    if newest[4] != "all":
        failed.append("not_all_parameters_came_from_the_link")
    tree = root_of(history, last)
    for j in range(parent + 1, last):
        step = history[j]
        if OPS[step[0]]["method"] == "DELETE" and same_resource(step, newest):
            if is_2xx(step[2]):
                if root_of(history, j) == tree:
                    failed.append("successful_delete_in_between")
                else:
                    undecided = True  # "in between" without "in the same tree": open
            elif is_3xx(step[2]):
                undecided = True
    if failed:
        return False, sorted(set(failed))
    return (None if undecided else True), []


# ---------------------------------------------------------------------------------------------------------------------
# Real objects
# ---------------------------------------------------------------------------------------------------------------------


class World:
    """Per-process real objects: schema, operations, engine context; pools of immutable Case/Response objects."""

    def __init__(self) -> None:
        import threading

        from mc import engine
        from props import common
        from schemathesis.engine.context import EngineContext

        self.schema = common.load(document())
        self.operations = [self.schema[o["path"]][o["method"]] for o in OPS]
        self.engine_ctx = EngineContext(schema=self.schema, stop_event=threading.Event(),
                                        config=engine.make_config(phases=["stateful"]))
        from schemathesis.core.transport import Response

        self.response_class = Response
        self._cases: dict = {}
        self._responses: dict = {}
        self._transitions: dict = {}

    # -- cases -------------------------------------------------------------------------------------------------
    def case(self, position: int, step: list) -> Any:
        op, ids, _, _, shape = step
        key = (position, op, tuple(ids), shape)
        found = self._cases.get(key)
        if found is None:
            found = self._cases[key] = self.make_case(op, ids, shape, f"step{position}")
        return found

    def make_case(self, op: int, ids: list[int], shape: str, case_id: str) -> Any:
        """What `openapi_cases(operation=..., **link kwargs)` returns for this shape (checked by the `meta` item):
        a component is absent from `meta.components` when nothing is declared for it or the link supplied all of its parameters."""
        from schemathesis.core import NOT_SET
        from schemathesis.generation import GenerationMode
        from schemathesis.generation.meta import (CaseMetadata, ComponentInfo, ComponentKind, GenerationInfo,
                                                  GeneratePhaseData, PhaseInfo, TestPhase)

        spec = OPS[op]
        operation = self.operations[op]
        supplied = supplied_by_link(op, shape)
        kinds = [ComponentKind.QUERY, ComponentKind.PATH_PARAMETERS, ComponentKind.HEADERS, ComponentKind.COOKIES]
        declared = {ComponentKind.PATH_PARAMETERS: spec["vars"], ComponentKind.QUERY: spec["query"]}
        components = {}
        for kind in kinds:
            names = declared.get(kind, [])
            if not names:
                continue  # no parameter declared for this location: its value is None, there is nothing to label
            if all(n in supplied for n in names):
                continue  # explicit value == final value -> "not generated"
            components[kind] = ComponentInfo(mode=GenerationMode.POSITIVE)
        has_body = spec["method"] in ("POST", "PUT")
        if has_body:
            components[ComponentKind.BODY] = ComponentInfo(mode=GenerationMode.POSITIVE)
        meta = CaseMetadata(generation=GenerationInfo(time=0.0, mode=GenerationMode.POSITIVE), components=components,
                            phase=PhaseInfo(name=TestPhase.GENERATE, data=GeneratePhaseData()))
        case = operation.Case(
            path_parameters=dict(zip(spec["vars"], ids)) if spec["vars"] else None,
            query={name: LIMIT for name in spec["query"]} if spec["query"] else None,
            body={} if has_body else NOT_SET,
            meta=meta,
        )
        case.id = case_id
        return case

    # -- responses ---------------------------------------------------------------------------------------------
    def response(self, step: list) -> Any:
        import requests

        from schemathesis.core.transport import Response

        op, ids, status = step[0], step[1], step[2]
        key = (op, tuple(ids), status)
        found = self._responses.get(key)
        if found is None:
            spec = OPS[op]
            url = "http://verif.local" + spec["path"].format(**dict(zip(spec["vars"], ids)))
            prepared = requests.Request(spec["method"], url, params={n: LIMIT for n in spec["query"]},
                                        json={} if spec["method"] in ("POST", "PUT") else None).prepare()
            body = b'{"id": 1, "pid": 1, "limit": 5}'
            found = self._responses[key] = Response(status_code=status, headers={"content-type": ["application/json"]},
                                                    content=body, request=prepared, elapsed=0.01, verify=False)
        return found

    # -- transitions -------------------------------------------------------------------------------------------
    def transition(self, parent_position: int, parent_step: list, step: list) -> Any:
        """Same fields as `OpenApiLink._extract_impl` fills."""
        from schemathesis.core.result import Ok
        from schemathesis.generation.stateful.state_machine import ExtractedParam, Transition

        op, ids, _, _, shape = step
        key = (parent_position, parent_step[0], parent_step[2], op, tuple(ids), shape)
        found = self._transitions.get(key)
        if found is None:
            spec = OPS[op]
            values = dict(zip(spec["vars"], ids)) | {n: LIMIT for n in spec["query"]}
            parameters: dict = {}
            for name, expression in link_parameters(op, shape).items():
                container = "path_parameters" if name in spec["vars"] else "query"
                parameters.setdefault(container, {})[name] = ExtractedParam(definition=expression, value=Ok(values[name]))
            found = self._transitions[key] = Transition(
                id=f"{op_label(parent_step[0])} -> [{parent_step[2]}] L{shape} -> {op_label(op)}",
                parent_id=f"step{parent_position}", parameters=parameters, request_body=None)
        return found


def supplied_by_link(op: int, shape: str) -> list[str]:
    return list(link_parameters(op, shape)) if shape in ("all", "some") else []


_WORLD: World | None = None


def world() -> World:
    global _WORLD
    if _WORLD is None:
        _WORLD = World()
    return _WORLD


def resolve(w: World, history: list, position: int) -> tuple:
    """Real objects of one step: (case, parent_id, transition, response)."""
    step = history[position]
    case = w.case(position, step)
    parent = step[3]
    # "U": nothing is recorded for the step; "E": a network error (the prepared request without a response) is recorded
    answer = None if step[2] == "U" else (w.response([step[0], step[1], 200]).request if step[2] == "E" else w.response(step))
    if parent == -1:
        return case, None, None, answer
    transition = w.transition(parent, history[parent], step)
    return case, transition.parent_id, transition, answer


def build(w: World, history: list, resolved: list | None = None) -> tuple[Any, Any, Any, Any]:
    """Fresh real recorder with the history replayed the way `OpenAPIStateMachine` + the stateful executor do it:
    record_case(parent_id, transition, case) -> (call) -> record_response(case_id, response) per step."""
    from schemathesis.engine.recorder import ScenarioRecorder

    if resolved is None:
        resolved = [resolve(w, history, n) for n in range(len(history))]
    recorder = ScenarioRecorder(label="Stateful tests")
    case = response = None
    for case, parent_id, transition, response in resolved:
        recorder.record_case(parent_id=parent_id, transition=transition, case=case)
        if response.__class__ is w.response_class:
            recorder.record_response(case_id=case.id, response=response)
        elif response is not None:
            recorder.record_request(case_id=case.id, request=response)
    ctx = w.engine_ctx.get_check_context(recorder)
    return recorder, ctx, case, response


def run_check(fn: Any, ctx: Any, response: Any, case: Any) -> tuple[str, Any]:
    from schemathesis.core.failures import Failure

    try:
        skipped = fn(ctx, response, case)
    except Failure as failure:
        return "reported", failure
    except Exception as exc:  # noqa: BLE001 - neither a report nor silence
        return "crashed", exc
    return ("skipped" if skipped else "silent"), None


# ---------------------------------------------------------------------------------------------------------------------
# Judging one state
# ---------------------------------------------------------------------------------------------------------------------

MAX_VIOLATIONS_PER_SIGNATURE_PER_ITEM = 2
_CHECKS: tuple | None = None


def _checks() -> tuple:
    global _CHECKS
    if _CHECKS is None:
        from schemathesis.specs.openapi.checks import ensure_resource_availability, use_after_free

        _CHECKS = (use_after_free, ensure_resource_availability)
    return _CHECKS


def flush_tally(res: Result, seen_sigs: dict) -> None:
    """Per-item tally (depth, uaf verdict, uaf expectation, era verdict, era permission) -> the Result's counters."""
    for (depth, uaf, want_uaf, era, allow_era), n in sorted(seen_sigs.pop("tally", {}).items(), key=repr):
        res.evaluations += 2 * n
        res.traces += n
        res.transitions += n
        res.outcomes.add(f"uaf:{uaf}/era:{era}")
        res.count(f"depth_{depth}", n)
        res.count(f"uaf_{uaf}_expected_{want_uaf}", n)
        res.count(f"era_{era}_permitted_{allow_era}", n)


def describe(history: list) -> list[str]:
    out = []
    for n, (op, ids, status, parent, shape) in enumerate(history):
        spec = OPS[op]
        path = spec["path"].format(**dict(zip(spec["vars"], ids)))
        origin = "root" if parent == -1 else f"link from #{parent}, parameters from link: {shape}"
        out.append(f"#{n} {spec['method']} {path} -> {status} ({origin})")
    return out


def judge(res: Result, w: World, history: list, seen_sigs: dict, resolved: list | None = None, family: str = "") -> None:
    """Build the history on the real recorder, run both real checks on the newest case, compare with the text."""
    _, ctx, case, response = build(w, history, resolved)
    checks = _checks()
    uaf, uaf_failure = run_check(checks[0], ctx, response, case)
    era, era_failure = run_check(checks[1], ctx, response, case)
    res.states += 1
    want_uaf, facts = oracle_use_after_free(history)
    allow_era, era_failed = oracle_resource_availability(history)
    tally = seen_sigs["tally"]
    key = (len(history), uaf, want_uaf, era, allow_era)
    tally[key] = tally.get(key, 0) + 1
    if uaf == "silent" and era == "silent" and want_uaf is False and allow_era is False and not facts["relevant"]:
        if family == "V" and extra.unrelated_name_extension(OPS, history):
            res.count("V_silent_after_delete_in_collection_with_extended_name")
        return  # trivial: nothing reported, nothing demanded or permitted, no DELETE of this resource in the tree
    if family in extra.EXTRA_BOUNDS:
        for name in extra.features(family, OPS, history, facts, uaf, era, allow_era):
            res.count(name)

    def violation(signature: dict, extra: dict) -> None:
        key = tuple(sorted((k, str(v)) for k, v in signature.items()))
        res.count("violating_states")
        res.count("violating_states_in_family_" + (family or "?"))
        res.count("violating_states:" + ",".join(f"{k}={v}" for k, v in key))
        seen_sigs[key] = seen_sigs.get(key, 0) + 1
        if seen_sigs[key] <= MAX_VIOLATIONS_PER_SIGNATURE_PER_ITEM:
            res.violation(signature, {"history": describe(history), "steps": history, **extra})

    newest_class = status_class(history[-1][2])
    # ---- use_after_free: judged both ways ("only if" and "whenever") ----
    if uaf in ("crashed", "skipped"):
        violation({"check": "use_after_free", "kind": uaf, "error": type(uaf_failure).__name__ if uaf_failure else None},
                  {"error": repr(uaf_failure)})
    elif uaf == "reported" and want_uaf is False:
        violation(
            {"check": "use_after_free",
             "kind": "reported_for_404" if newest_class == "404" else "reported_without_successful_delete_of_the_resource",
             "nearest": facts["nearest"],
             # fact about the history: some DELETE of this resource failed although the request it was derived from got 2xx
             "failed_delete_with_2xx_parent": facts["failed_delete_with_2xx_parent"]},
            {"reported": {"free": uaf_failure.free, "usage": uaf_failure.usage}, "oracle": facts},
        )
    elif uaf == "silent" and want_uaf is True:
        classes = facts["successful_delete_parent_classes"]
        violation(
            {"check": "use_after_free", "kind": "not_reported_after_successful_delete", "answer": newest_class,
             # fact about the history: every successful DELETE of this resource is a root or derives from a non-2xx request
             "every_successful_delete_lacks_2xx_parent": "2xx" not in classes},
            {"oracle": facts},
        )
    # ---- ensure_resource_availability: judged one way ("only for") ----
    if era in ("crashed", "skipped"):
        violation({"check": "ensure_resource_availability", "kind": era,
                   "error": type(era_failure).__name__ if era_failure else None}, {"error": repr(era_failure)})
    elif era == "reported" and allow_era is False:
        violation({"check": "ensure_resource_availability", "kind": "reported_although_a_stated_condition_fails",
                   "failed_conditions": era_failed},
                  {"reported": {"created_with": era_failure.created_with, "not_available_with": era_failure.not_available_with}})
    res.count("nontrivial_states")
    # distinct non-trivial *classes* (identifiers abstracted to their relation with the newest request's); the exact
    # number of non-trivial histories is the counter above
    res.nontriv([[s[0], s[2], s[3], s[4], _relation(s, history[-1])] for s in history] + [uaf, era, want_uaf, allow_era])
    if len(res.samples) < 2 and (uaf == "reported" or era == "reported"):
        res.samples.append({"history": describe(history), "use_after_free": uaf, "ensure_resource_availability": era,
                            "oracle": {"use_after_free_expected": want_uaf, "resource_availability_permitted": allow_era}})


def _relation(step: list, newest: list) -> str:
    if same_resource(step, newest):
        return "prefix_same_ids"
    if path_template_is_prefix(step, newest):
        return "prefix_substring_ids" if _id_strings_nest(step, newest) else "prefix_other_ids"
    return "other_path"


class Walk:
    """Depth-first walk that keeps the real objects of the current history's steps next to the step tuples."""

    def __init__(self, res: Result, w: World, cfg: dict) -> None:
        self.res, self.w, self.cfg = res, w, cfg
        self.seen: dict = {"tally": {}}
        self.history: list = []
        self.resolved: list = []

    def push(self, step: list) -> None:
        self.history.append(step)
        self.resolved.append(resolve(self.w, self.history, len(self.history) - 1))

    def pop(self) -> None:
        self.history.pop()
        self.resolved.pop()

    def judge_current(self) -> None:
        if self.history[-1][2].__class__ is not int:
            return  # no response: the checks are never called for such a step, it only occurs as an earlier step
        judge(self.res, self.w, list(self.history), self.seen, self.resolved, self.cfg["family"])

    def judge_owned(self) -> None:
        """The current history and its siblings whose last step is outside the alphabet of extended steps."""
        if not self.history:
            self.res.states += 1  # the empty history: no newest case, nothing to judge
            return
        self.judge_current()
        last = self.history[-1]
        for sibling in leaf_only_variants(self.cfg, self.history):
            self.pop()
            self.push(sibling)
            self.judge_current()
        self.pop()
        self.push(last)

    def extend(self, ops: list[int] | None = None) -> None:
        """Judge every one-step extension of the current history, then recurse: each history is judged exactly once."""
        if len(self.history) >= self.cfg["depth"]:
            return
        for step in extensions(self.cfg, len(self.history), newest=True, ops=ops):
            self.push(step)
            self.judge_current()
            # a step outside the alphabet of earlier steps (non-canonical shape / status) is judged but not extended
            if extendable(self.cfg, step):
                self.extend()
            self.pop()
        if self.cfg["earlier_only"]:
            # steps that exist as earlier steps only (no recorded response): never judged, always extended
            for step in extensions(self.cfg, len(self.history), newest=False, ops=ops):
                if step[2] in self.cfg["earlier_only"]:
                    self.push(step)
                    self.extend()
                    self.pop()

    def finish(self) -> Result:
        flush_tally(self.res, self.seen)
        return self.res


def check_item(item: dict, tier: str) -> Result:
    from props import common

    common.reset_schemathesis_caches()
    res = Result()
    w = world()
    if item["family"] == "meta":
        return check_metadata(res, w)
    if item["family"] == "E":
        return check_engine(res, item["scenario"])
    walk = Walk(res, w, family_config(tier, item["family"]))
    if "only" in item:
        for history in item["only"]:
            for step in history:
                walk.push(step)
            walk.judge_owned()
            for _ in history:
                walk.pop()
        return walk.finish()
    for step in item["prefix"]:
        walk.push(step)
    if item["owns_prefix"]:
        walk.judge_owned()
    walk.extend(ops=[item["next_op"]])
    return walk.finish()


# ---------------------------------------------------------------------------------------------------------------------
# The other entry point: the real stateful phase runs both checks against a scripted API (family E)
# ---------------------------------------------------------------------------------------------------------------------

ENGINE_EXAMPLES = 12
ENGINE_STEPS = 5


def check_engine(res: Result, name: str) -> Result:
    """One deterministic execution of the real engine (stateful phase, derandomized) per scripted API.  Every recorded case of
    every finished scenario is judged: its history = the cases recorded before it (the scenario is sequential), read from the
    recorder's raw mappings; its verdicts = the check results the engine recorded for it."""
    from mc import engine
    from schemathesis.specs.openapi.checks import ensure_resource_availability, use_after_free

    scenario = extra.ENGINE_SCENARIOS[name]
    schema = engine.load_schema(document(scenario["links"]))
    config = engine.make_config(phases=["stateful"], max_examples=ENGINE_EXAMPLES, stateful_step_count=ENGINE_STEPS,
                                checks=[use_after_free, ensure_resource_availability], continue_on_failure=True)
    run = engine.run_engine(schema, config, extra.scripted_api(scenario))
    res.evaluations += 1
    problems = [type(e).__name__ for e in run.events if type(e).__name__ in ("FatalError", "NonFatalError", "Interrupted")]
    if run.error is not None or problems:
        res.oracle_errors.append({"error": "the engine run did not complete cleanly", "scenario": name, "exception": repr(run.error),
                                  "events": problems})
        return res
    seen: dict = {}
    finished = run.of_type("ScenarioFinished")
    res.count("engine_scenarios_finished", len(finished))
    for event in finished:
        steps, verdicts = extra.tree_of(event.recorder, OPS)
        for n, step in enumerate(steps):
            if step[2].__class__ is not int or step[4] == "derived":
                continue
            judge_recorded(res, steps[: n + 1], verdicts[n], name, seen)
    res.outcomes.add("engine")
    return res


def judge_recorded(res: Result, history: list, recorded: dict, scenario: str, seen: dict) -> None:
    observed = {"FAILURE": "reported", "SUCCESS": "silent"}
    uaf = observed.get(recorded.get("use_after_free"), "unrecorded")
    era = observed.get(recorded.get("ensure_resource_availability"), "unrecorded")
    want_uaf, facts = oracle_use_after_free(history)
    allow_era, era_failed = oracle_resource_availability(history)
    res.states += 1
    res.traces += 1
    res.transitions += 1
    res.count(f"engine_uaf_{uaf}_expected_{want_uaf}")
    res.count(f"engine_era_{era}_permitted_{allow_era}")
    res.outcomes.add(f"engine:uaf:{uaf}/era:{era}")
    if uaf == "reported" and any([type(v) for v in history[j][1]] != [type(v) for v in history[-1][1]] for j in facts["successful_deletes"]):
        res.count("engine_use_after_free_reported_across_identifier_types")

    def violation(signature: dict, extra_detail: dict) -> None:
        key = tuple(sorted((k, str(v)) for k, v in signature.items()))
        seen[key] = seen.get(key, 0) + 1
        res.count("violating_states")
        res.count("violating_states_in_family_E")
        if seen[key] <= MAX_VIOLATIONS_PER_SIGNATURE_PER_ITEM:
            res.violation(signature, {"scenario": scenario, "history": describe(history), "steps": history, "recorded": recorded,
                                      **extra_detail})

    newest_class = status_class(history[-1][2])
    if uaf == "reported" and want_uaf is False:
        violation({"entry": "engine", "check": "use_after_free",
                   "kind": "reported_for_404" if newest_class == "404" else "reported_without_successful_delete_of_the_resource",
                   "nearest": facts["nearest"]}, {"oracle": facts})
    elif uaf == "silent" and want_uaf is True:
        violation({"entry": "engine", "check": "use_after_free", "kind": "not_reported_after_successful_delete",
                   "answer": newest_class}, {"oracle": facts})
    if era == "reported" and allow_era is False:
        violation({"entry": "engine", "check": "ensure_resource_availability", "kind": "reported_although_a_stated_condition_fails",
                   "failed_conditions": era_failed}, {})
    if uaf == "reported" or era == "reported" or want_uaf is not False or allow_era is not False or facts["relevant"]:
        res.count("nontrivial_states")
        res.nontriv(["engine"] + [[s[0], s[2], s[3], s[4], _relation(s, history[-1])] for s in history] + [uaf, era, want_uaf, allow_era])
        if len(res.samples) < 1 and (uaf == "reported" or era == "reported"):
            res.samples.append({"engine_scenario": scenario, "history": describe(history), "use_after_free": uaf,
                                "ensure_resource_availability": era})


# ---------------------------------------------------------------------------------------------------------------------
# Metadata conformance: the hand-built cases/transitions equal what the real link machinery produces
# ---------------------------------------------------------------------------------------------------------------------


def check_metadata(res: Result, w: World) -> Result:
    from mc.choicetree import Alphabet, draw_strategy, replay
    from schemathesis.core.result import Ok
    from schemathesis.generation import GenerationMode
    from schemathesis.generation.stateful.state_machine import StepOutput
    from schemathesis.specs.openapi.stateful import into_step_input
    from schemathesis.specs.openapi.stateful.links import get_all_links

    source = w.operations[0]
    parent_step = [0, [], 201, -1, "root"]
    parent_case = w.make_case(0, [], "root", "step0")
    parent_response = w.response(parent_step)
    output = StepOutput(parent_response, parent_case)
    links = {}
    for _, link in get_all_links(source):
        assert isinstance(link, Ok), link
        links[link.ok().name] = link.ok()
    compared = 0
    for name, (op, shape) in sorted(LINKS.items()):
        link = links[name]
        strategy = into_step_input(target=w.operations[op], link=link, modes=[GenerationMode.POSITIVE])(output)
        ex = replay(draw_strategy(strategy), Alphabet(chars=["a"]), [])
        res.evaluations += 1
        if ex.status != "valid":
            res.oracle_errors.append({"error": f"real link {name} did not yield a step input: {ex.status} {ex.error!r}"})
            continue
        real_case, real_transition = ex.value.case, ex.value.transition
        ids = [1] * len(OPS[op]["vars"])
        mine = w.make_case(op, ids, shape, "step1")
        mine_transition = w.transition(0, parent_step, [op, ids, 200, 0, shape])
        declared = [p.name for p in w.operations[op].iter_parameters()]

        def overridden(case: Any) -> list[str]:
            override = case._override
            return sorted(n for n in declared if n in override.path_parameters or n in override.query)

        problems = []
        if sorted(k.value for k in real_case.meta.components) != sorted(k.value for k in mine.meta.components):
            problems.append(("components", sorted(k.value for k in real_case.meta.components), sorted(k.value for k in mine.meta.components)))
        if type(real_case.meta.phase.data) is not type(mine.meta.phase.data):
            problems.append(("phase", repr(real_case.meta.phase), repr(mine.meta.phase)))
        if overridden(real_case) != overridden(mine):
            problems.append(("override", overridden(real_case), overridden(mine)))
        if overridden(mine) != sorted(supplied_by_link(op, shape)) and not (shape == "some" and len(OPS[op]["vars"]) == 2):
            # DELETE /users/{id}/posts/{pid} with only `id` from the link: the whole component counts as generated
            problems.append(("override_vs_shape", overridden(mine), supplied_by_link(op, shape)))
        want_params = {c: sorted(v) for c, v in mine_transition.parameters.items()}
        real_params = {c: sorted(v) for c, v in real_transition.parameters.items()}
        if want_params != real_params or real_transition.parent_id != parent_case.id or real_transition.request_body is not None:
            problems.append(("transition", real_params, want_params))
        if (real_case.path_parameters or {}).keys() != (mine.path_parameters or {}).keys():
            problems.append(("path_parameters", real_case.path_parameters, mine.path_parameters))
        for p in problems:
            res.oracle_errors.append({"error": "hand-built link metadata differs from the real link machinery", "link": name, "what": list(p)})
        compared += 1
    # roots: the real strategy without explicit values
    for op in range(len(OPS)):
        ex = replay(draw_strategy(w.operations[op].as_strategy(generation_mode=GenerationMode.POSITIVE)), Alphabet(chars=["a"]), [])
        res.evaluations += 1
        mine = w.make_case(op, [1] * len(OPS[op]["vars"]), "root", "step0")
        if ex.status != "valid" or sorted(k.value for k in ex.value.meta.components) != sorted(k.value for k in mine.meta.components):
            res.oracle_errors.append({"error": "hand-built root metadata differs from the real strategy", "op": op_label(op)})
        compared += 1
    res.count("metadata_shapes_compared_with_real_link_machinery", compared)
    res.outcomes.add("meta")
    return res


# ---------------------------------------------------------------------------------------------------------------------


REVIEW_ROUND_2_COUNTERS = [
    "S_use_after_free_reported_after_delete_with_another_2xx", "S_use_after_free_reported_for_another_answer",
    "S_unavailable_reported_after_post_with_another_2xx",
    "T_use_after_free_reported_across_identifier_types",
    "V_use_after_free_reported_across_variable_names", "V_unavailable_reported_after_post_with_identifiers",
    "V_silent_after_delete_in_collection_with_extended_name",
    "N_silent_after_delete_without_response",
    "engine_uaf_reported_expected_True", "engine_uaf_silent_expected_False",
    "engine_era_reported_permitted_True", "engine_era_silent_permitted_False",
    "engine_use_after_free_reported_across_identifier_types",
]


def vacuity(total: Result, tier: str) -> list[str]:
    c = total.counters
    out = []
    if not c.get("uaf_reported_expected_True"):
        out.append("use_after_free never reported where the text demands it")
    if not c.get("uaf_silent_expected_False"):
        out.append("use_after_free never silent where the text forbids a report")
    if not c.get("era_reported_permitted_True"):
        out.append("ensure_resource_availability never reported where the text permits it")
    if not c.get("era_silent_permitted_False"):
        out.append("ensure_resource_availability never silent where the text forbids a report")
    if c.get("metadata_shapes_compared_with_real_link_machinery", 0) < len(LINKS) + len(OPS):
        out.append("link metadata was not compared with the real link machinery")
    # a run stopped by the time cap (reported as exhaustive=False by the runner) may not have reached the deepest family
    capped = "items_done_before_time_cap" in c
    depths = [BOUNDS[tier][f]["depth"] for f in history_families(tier)]
    depth = min(depths) if capped else max(depths)
    if not c.get(f"depth_{depth}"):
        out.append(f"no history of depth {depth} was reached")
    if not capped:
        # every dimension of review round 2 reached the shape it was added for
        for name in REVIEW_ROUND_2_COUNTERS:
            if not c.get(name):
                out.append(f"review-round-2 coverage counter is zero: {name}")
    if len(total.outcomes) < 3:
        out.append("fewer than three outcome classes")
    return out


TECHNIQUE = (
    "explicit-state breadth-first enumeration of every scenario history (operation x identifiers x status x parent x link "
    "override shape) up to a depth, each rebuilt on a fresh real ScenarioRecorder and judged by reference predicates "
    "transcribed from the property text"
)
LEVEL_TEXT = (
    "Every ordered history within the stated alphabets and depth is constructed with the real recorder, real Case/Response/"
    "Transition objects and a CheckContext from the real EngineContext; the two real check functions are run on the newest "
    "case of every history and compared with the reference predicates, so soundness (no report on unrelated history) and "
    "completeness of use_after_free are decided for all orderings, tree shapes and identifier coincidences in the bound."
)
LEVEL_NOTE = (
    "Trusted: the reference predicates in this module and the hand-built link metadata (proved equal to the real link machinery "
    "for every shape by the `meta` item). Not covered: histories deeper than the bound, other documents (singular/plural "
    "collection names, trailing slashes), identifiers other than integers and short strings, cases derived inside checks."
)
