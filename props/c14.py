"""C14 - configured credentials and overrides reach every request; tokens are fetched once per interval and key.

(a) E2: every set of <= 2 configuration atoms (--header, --auth, --set-query/-header/-cookie/-path, schema-level and global
    auth providers with apply_to / skip_for / cache key) x every phase alone; one real engine run each through the in-process
    HTTP seam.  Oracle: on every logged request to an operation an atom applies to, the user's value is present and wins.
(b) E3: the real CachingAuthProvider / KeyedCachingAuthProvider with a shim lock and a virtual timer (both are dataclass
    fields), 2-3 threads x 2 `get` calls; every schedule <= p pre-emptions, the clock may jump past `expires` as an environment
    answer.  Oracle: per key, no second fetch while the previous token is still valid; every caller gets a token of its own key.
"""

from __future__ import annotations

import base64
from typing import Any

from mc import c14_extra, engine, httpseam, sched
from mc.runner import Result

ID = "C14"
LEVEL = "model_checking"
ENGINES = ["E2", "E3"]
RULE = (
    "(a) work item = (set of <=2 configuration atoms, phase); one engine run; every logged request is judged; distinct = distinct "
    "(item, request); non-trivial = a request to which at least one atom applies; (b) work item = (provider kind, threads, keys, "
    "pre-emption bound, clock jumps); every schedule is executed on the real provider object; states = scheduler states; "
    "review round 2 (mc/c14_extra.py): (a2) engine runs with atom pairs meeting in one container, both generation modes, all "
    "built-in checks on a document with security schemes (check-derived probes are recognised through the recorder and exempt), "
    "security parameters off, 2 workers, header-name letter case, further provider registrations, provider.get call log; "
    "(t) the Python API with test-scope auth / override / call headers over the requests, WSGI and ASGI transports; (g) a "
    "GraphQL schema; (b) also the provider registered through AuthStorage and driven by AuthStorage.set, falsy cache keys, "
    "an underlying get() that fails once, a clock jump that stays inside the refresh interval"
)
BOUNDS = {
    "quick": {"atom_set_size": 2, "preemptions": 2, "threads": [2, 3], "clock_jumps": 1, "max_exec_per_item": 12000,
              "round2": "engine: 24 further atoms, 8 pairs, modes {positive, both}, checks {default, all}, workers {1, 2}; python api: 3 transports x 19 atom sets; graphql: 8; provider variants: 2 threads; DOC3 (two parameters in every location, both writing orders): 4 same-location override pairs x both atom orders, all 8 overrides at once, x 4 phases"},
    "thorough": {"atom_set_size": 2, "preemptions": 3, "threads": [2, 3], "clock_jumps": 1, "max_exec_per_item": 200000,
                 "round2": "as quick (provider variants: 2 threads, 3 pre-emptions)"},
}
BUDGET_S = {"quick": 140, "thorough": 3300}
CHUNK = 2
ASSUMPTIONS = [
    "part (a) items use the positive generation mode; the a2 items with modes=both also judge negative and unexpected-method cases (the user's value must be on them as well)",
    "requests issued by the `ignored_auth` check itself (credentials stripped on purpose) are exempt as a whole, recognised as recorder nodes with a parent and no transition",
    "when both a schema-level and a global auth provider are registered only the schema-level one is judged (scope precedence: the more specific storage shadows the global one); likewise test scope over schema scope, and an explicit --auth replaces the global provider (engine/core.py)",
    "two user-supplied values for the same header (e.g. --header Authorization with --auth, a provider writing a configured header) are not ranked",
    "an override applies to an operation that declares the parameter in that location: exact name for query/cookie/path, case-insensitive name for headers; a name declared elsewhere or nowhere claims nothing (the run must only not fail)",
    "provider.get call log: at most one call per cache key and engine run for a caching provider (default refresh interval 300 s, a run takes under a second); `set_from_requests` with the WSGI transport is not judged (a requests auth object)",
    "(b) scheduling points: lock acquire, every timer() read and the underlying provider's get(); code between them is atomic",
]
TECHNIQUE = "exhaustive configuration enumeration with real engine runs, plus stateless exploration of all thread schedules of the real caching auth provider under a virtual clock"
LEVEL_TEXT = (
    "Request-building paths differ per phase and per source of the case (example, boundary value, fuzzing, link); the check enumerates "
    "the atom x phase product and inspects every request on the wire. The token cache is a check-then-act structure: all "
    "interleavings of concurrent lookups up to the pre-emption bound are executed on the real object."
)
LEVEL_NOTE = "Trusted: in-process HTTP seam; scheduler shims; Lock and timer are injected through the provider's own dataclass fields."

OK = {"200": {"description": "OK"}}
DOC = {
    "openapi": "3.0.2", "info": {"title": "t", "version": "1"},
    "paths": {
        "/r/{id}": {"get": {
            "parameters": [
                {"name": "id", "in": "path", "required": True, "schema": {"type": "integer", "example": 5}},
                {"name": "q", "in": "query", "required": True, "schema": {"type": "integer", "example": 3}},
                {"name": "X-H", "in": "header", "schema": {"type": "string", "example": "gen"}},
                {"name": "c", "in": "cookie", "schema": {"type": "string", "example": "gen"}},
            ],
            "responses": OK,
        }},
        "/plain": {"get": {"parameters": [{"name": "z", "in": "query", "schema": {"type": "boolean", "example": True}}], "responses": OK}},
        "/users": {"post": {
            "operationId": "createUser",
            "requestBody": {"required": True, "content": {"application/json": {"schema": {
                "type": "object", "properties": {"name": {"type": "string", "maxLength": 2, "example": "ab"}}, "required": ["name"],
                "additionalProperties": False}}}},
            "responses": {"201": {"description": "ok", "links": {"get": {"operationId": "getUser", "parameters": {"id": "$response.body#/id"}}}}},
        }},
        "/users/{id}": {"get": {
            "operationId": "getUser",
            "parameters": [{"name": "id", "in": "path", "required": True, "schema": {"type": "integer", "example": 6}},
                           {"name": "q", "in": "query", "schema": {"type": "integer", "example": 4}}],
            "responses": {"200": {"description": "ok"}, "404": {"description": "nf"}},
        }},
    },
}
OPS = {
    "GET /r/{id}": {"query": {"q"}, "headers": {"X-H"}, "cookies": {"c"}, "path_parameters": {"id"}},
    "GET /plain": {"query": {"z"}, "headers": set(), "cookies": set(), "path_parameters": set()},
    "POST /users": {"query": set(), "headers": set(), "cookies": set(), "path_parameters": set()},
    "GET /users/{id}": {"query": {"q"}, "headers": set(), "cookies": set(), "path_parameters": {"id"}},
}

ATOMS = {
    "header_authorization": {"kind": "header", "name": "Authorization", "value": "Bearer U1"},
    "header_same_as_param": {"kind": "header", "name": "X-H", "value": "U2"},
    "header_custom": {"kind": "header", "name": "X-Custom", "value": "U9"},
    "basic_auth": {"kind": "auth", "value": ["user", "pw"]},
    "set_query": {"kind": "override", "location": "query", "name": "q", "value": "41"},
    "set_header": {"kind": "override", "location": "headers", "name": "X-H", "value": "U5"},
    "set_cookie": {"kind": "override", "location": "cookies", "name": "c", "value": "U6"},
    "set_path": {"kind": "override", "location": "path_parameters", "name": "id", "value": "77"},
    "schema_auth": {"kind": "provider", "scope": "schema", "header": "X-Token", "value": "U8", "filter": None},
    "schema_auth_apply_to": {"kind": "provider", "scope": "schema", "header": "X-Token", "value": "U8", "filter": ["apply_to", "/plain"]},
    "schema_auth_skip_for": {"kind": "provider", "scope": "schema", "header": "X-Token", "value": "U8", "filter": ["skip_for", "/plain"]},
    "global_auth_keyed": {"kind": "provider", "scope": "global", "header": "X-Global", "value": "U10", "filter": None, "keyed": True},
}
PAIRS = [("header_authorization", "set_query"), ("header_same_as_param", "set_path"), ("basic_auth", "set_cookie"),
         ("schema_auth", "set_header"), ("global_auth_keyed", "schema_auth_apply_to"), ("header_custom", "schema_auth_skip_for"),
         ("set_query", "set_path"), ("header_authorization", "schema_auth")]
PHASES = ["examples", "coverage", "fuzzing", "stateful"]


def items(tier: str, seed: int) -> list[dict]:
    out: list[dict] = []
    for phase in PHASES:
        for name in ATOMS:
            out.append({"part": "a", "atoms": [name], "phase": phase})
        for pair in PAIRS:
            out.append({"part": "a", "atoms": list(pair), "phase": phase})
    b = BOUNDS[tier]
    for keyed in (False, True):
        for threads in b["threads"]:
            for interval in (10, 0):
                out.append({"part": "b", "keyed": keyed, "threads": threads, "calls": 2, "p": b["preemptions"] if threads == 2 else max(1, b["preemptions"] - 1),
                            "e": b["clock_jumps"], "interval": interval})
    # review round 2: the provider as registered through AuthStorage and driven through AuthStorage.set; falsy cache keys;
    # the underlying get() failing once; a clock jump that stays INSIDE the refresh interval (kept small: 2 threads)
    for threads in b["threads"][:1]:
        common = {"part": "b", "threads": threads, "calls": 2, "p": b["preemptions"], "e": b["clock_jumps"], "interval": 10}
        for keyed in (False, True):
            out.append({**common, "keyed": keyed, "entry": "storage"})
            out.append({**common, "keyed": keyed, "fail_first": True})
            out.append({**common, "keyed": keyed, "jump": "inside"})
        out.append({**common, "keyed": True, "keys": [0, ""]})
        out.append({**common, "keyed": True, "keys": [0, ""], "entry": "storage", "interval": 0})
    out.extend(c14_extra.extra_items(tier))
    return out


def handler(ex: httpseam.Exchange) -> tuple:
    if ex.path == "/users" and ex.method == "POST":
        return httpseam.json_response(201, {"id": 7})
    return httpseam.json_response(200, {})


def _operation(ex: httpseam.Exchange) -> str | None:
    p = ex.path
    if p.startswith("/r/"):
        return "GET /r/{id}"
    if p == "/plain":
        return "GET /plain"
    if p == "/users":
        return "POST /users"
    if p.startswith("/users/"):
        return "GET /users/{id}"
    return None


def check_a(item: dict, tier: str) -> Result:
    import schemathesis
    from schemathesis import auths
    from schemathesis.generation.overrides import Override

    res = Result()
    atoms = [ATOMS[a] for a in item["atoms"]]
    headers: dict[str, str] = {}
    auth = None
    override = {"query": {}, "headers": {}, "cookies": {}, "path_parameters": {}}
    schema = engine.load_schema(DOC)
    registered_global = False
    for atom in atoms:
        if atom["kind"] == "header":
            headers[atom["name"]] = atom["value"]
        elif atom["kind"] == "auth":
            auth = tuple(atom["value"])
        elif atom["kind"] == "override":
            override[atom["location"]][atom["name"]] = atom["value"]
        elif atom["kind"] == "provider":
            def make(atom: dict = atom) -> type:
                class Provider:
                    def get(self, case: Any, context: Any) -> str:
                        return atom["value"]

                    def set(self, case: Any, data: str, context: Any) -> None:
                        case.headers = case.headers or {}
                        case.headers[atom["header"]] = data

                return Provider

            kwargs = {}
            if atom.get("keyed"):
                kwargs["cache_by_key"] = lambda case, ctx: case.operation.label
            target = schema.auth if atom["scope"] == "schema" else schemathesis.auth
            registrar = target(**kwargs)
            if atom["filter"]:
                registrar = getattr(registrar, atom["filter"][0])(path=atom["filter"][1])
            registrar(make())
            if atom["scope"] == "global":
                registered_global = True
    has_override = any(override.values())
    config = engine.make_config(phases=[item["phase"]], max_examples=3, headers=headers, auth=auth,
                                override=Override(**override) if has_override else None, stateful_step_count=2)
    try:
        run = engine.run_engine(schema, config, handler)
    finally:
        if registered_global:
            auths.unregister()
    res.evaluations += 1
    res.states += 1
    res.transitions += len(run.exchanges)
    base = {"part": "a", "phase": item["phase"]}
    if run.error is not None:
        res.violation({**base, "kind": "engine_run_raised", "error": type(run.error).__name__}, {"item": item, "error": repr(run.error)[:300]})
        return res
    errors = [e for e in run.events if type(e).__name__ == "NonFatalError"]
    if errors:
        res.violation({**base, "kind": "engine_reported_error", "atoms": item["atoms"]},
                      {"item": item, "errors": [str(getattr(e, "value", e))[:300] for e in errors][:3]})
    for ex in run.exchanges:
        op = _operation(ex)
        if op is None:
            continue
        res.traces += 1
        hdrs = {k.lower(): v for k, v in ex.headers.items()}
        applies = False
        for name, atom in zip(item["atoms"], atoms):
            detail = {"item": item, "atom": name, "request": ex.as_json(), "operation": op}
            sig = {**base, "atom": name, "operation": op}
            if atom["kind"] == "header":
                applies = True
                overridden_by = [a for a in atoms if a["kind"] == "override" and a["location"] == "headers" and a["name"].lower() == atom["name"].lower()]
                if overridden_by and atom["name"] in OPS[op]["headers"]:
                    continue  # two user-supplied values for the same header: the property does not rank them
                if hdrs.get(atom["name"].lower()) != atom["value"]:
                    res.violation({**sig, "kind": "configured_header_missing_or_overwritten"}, detail | {"observed": hdrs.get(atom["name"].lower())})
            elif atom["kind"] == "auth":
                applies = True
                expected = "Basic " + base64.b64encode(":".join(atom["value"]).encode()).decode()
                if any(a["kind"] == "header" and a["name"].lower() == "authorization" for a in atoms):
                    continue
                if hdrs.get("authorization") != expected:
                    res.violation({**sig, "kind": "basic_auth_missing"}, detail | {"observed": hdrs.get("authorization")})
            elif atom["kind"] == "override":
                loc, pname, value = atom["location"], atom["name"], atom["value"]
                if pname not in OPS[op][loc]:
                    continue
                applies = True
                if loc == "query":
                    vals = [v for k, v in ex.query if k == pname]
                    if vals != [value]:
                        res.violation({**sig, "kind": "query_override_missing_or_overwritten"}, detail | {"observed": vals})
                elif loc == "headers":
                    if hdrs.get(pname.lower()) != value:
                        res.violation({**sig, "kind": "header_override_missing_or_overwritten"}, detail | {"observed": hdrs.get(pname.lower())})
                elif loc == "cookies":
                    cookie = hdrs.get("cookie", "")
                    pairs = dict(p.strip().split("=", 1) for p in cookie.split(";") if "=" in p)
                    if pairs.get(pname) != value:
                        res.violation({**sig, "kind": "cookie_override_missing_or_overwritten"}, detail | {"observed": cookie})
                elif loc == "path_parameters":
                    segment = ex.path.rstrip("/").rsplit("/", 1)[-1]
                    if segment != value:
                        res.violation({**sig, "kind": "path_override_missing_or_overwritten"}, detail | {"observed": segment})
            elif atom["kind"] == "provider":
                if atom["scope"] == "global" and any(a["kind"] == "provider" and a["scope"] == "schema" for a in atoms):
                    # documented precedence: a schema-level auth storage shadows the global one as a whole; whether the
                    # global provider should still serve operations the schema-level filter excludes is left open
                    continue
                flt = atom["filter"]
                template = op.split(" ", 1)[1]
                should = True
                if flt and flt[0] == "apply_to":
                    should = template == flt[1]
                if flt and flt[0] == "skip_for":
                    should = template != flt[1]
                observed = hdrs.get(atom["header"].lower())
                if should:
                    applies = True
                    if observed != atom["value"]:
                        res.violation({**sig, "kind": "auth_provider_data_missing"}, detail | {"observed": observed})
                elif observed is not None:
                    res.violation({**sig, "kind": "auth_provider_applied_outside_its_filter"}, detail | {"observed": observed})
        if applies:
            res.nontriv([item, ex.method, ex.url, sorted(hdrs.items()), ex.body])
    phases_with_requests = len(run.exchanges) > 0
    res.outcomes.add((item["phase"], phases_with_requests))
    link_followed = any(ex.path.startswith("/users/7") for ex in run.exchanges)
    if link_followed:
        res.count("runs_with_link_derived_requests")
    if len(res.samples) < 1 and run.exchanges:
        res.samples.append({"item": item, "requests": [x.as_json() for x in run.exchanges[:3]]})
    return res


# ---- (b) the caching provider under the scheduler ---------------------------------------------------------------------

def check_b(item: dict, tier: str) -> Result:
    from schemathesis.auths import CachingAuthProvider, KeyedCachingAuthProvider

    res = Result()
    interval = item["interval"]
    keys = item.get("keys") or ["k1", "k2"]
    entry = item.get("entry", "direct")  # "storage": registered through AuthStorage, driven through AuthStorage.set
    fail_first = item.get("fail_first", False)  # the first call of the underlying get() raises
    jump = item.get("jump", "past")  # "inside": the clock moves, but not past the validity of a token fetched before
    stats = sched.ExploreStats()

    class InjectedError(Exception):
        pass

    class _Case(dict):  # AuthStorage.set marks the case (`_has_explicit_auth`): a dict that takes attributes
        pass

    def body(sch: sched.Scheduler) -> dict:
        ns = sch.threading_namespace()
        clock = {"now": 100.0, "jumped": False}
        fetches: list[tuple[float, str, int]] = []  # (time of fetch start, key, thread)
        stores: list[tuple[float, str]] = []
        results: list[tuple[int, str, Any, float]] = []

        def timer() -> float:
            sch.point("timer")
            if item["e"] and not clock["jumped"] and sch.me() is not None:
                if sch.env_choice("clock", ["stay", "jump_past_expiry" if jump == "past" else "jump_inside_interval"]) == 1:
                    clock["jumped"] = True
                    clock["now"] += max(interval, 1) + 1 if jump == "past" else interval - 1
            return clock["now"]

        state = {"failed": False}

        class Underlying:
            def get(self, case: Any, context: Any) -> str:
                me = sch.me()
                key = case["key"] if item["keyed"] else "single"
                started = clock["now"]
                if fail_first and not state["failed"]:
                    state["failed"] = True
                    sch.point("provider.get")
                    raise InjectedError("token endpoint unavailable")
                fetches.append((started, key, me.tid if me else -1))
                sch.point("provider.get")
                return f"token:{key}:{len(fetches)}"

            def set(self, case: Any, data: Any, context: Any) -> None:
                if entry == "storage":
                    sch.point("provider.set")
                    case["applied"] = data

        storage: Any = None
        if entry == "storage":
            from schemathesis.auths import AuthStorage

            storage = AuthStorage()
            kwargs: dict[str, Any] = {"refresh_interval": interval}
            if item["keyed"]:
                kwargs["cache_by_key"] = lambda case, ctx: case["key"]
            storage.register(**kwargs)(Underlying)
            provider: Any = storage.providers[0]
            provider.timer = timer
            provider._refresh_lock = ns.Lock()
        elif item["keyed"]:
            provider = KeyedCachingAuthProvider(Underlying(), refresh_interval=interval, timer=timer, _refresh_lock=ns.Lock(),
                                                cache_by_key=lambda case, ctx: case["key"])
        else:
            provider = CachingAuthProvider(Underlying(), refresh_interval=interval, timer=timer, _refresh_lock=ns.Lock())

        def worker(i: int) -> None:
            for n in range(item["calls"]):
                key = keys[(i + n) % 2] if item["keyed"] else "single"
                case = _Case(key=key)
                try:
                    if storage is not None:
                        storage.set(case, None)
                        data = case.get("applied")
                    else:
                        data = provider.get(case, None)
                except InjectedError:
                    data = "<injected error>"
                me = sch.me()
                results.append((me.tid if me else -1, key, data, clock["now"]))

        threads = [sch.spawn(f"caller_{i}", lambda i=i: worker(i)) for i in range(item["threads"])]
        for t in threads:
            sch.point(f"join:{t.name}", enabled=lambda t=t: t.finished)
        return {"fetches": fetches, "results": results, "errors": [repr(getattr(t, "error", None)) for t in threads if getattr(t, "error", None)],
                "jumped": clock["jumped"]}

    cap = BOUNDS[tier]["max_exec_per_item"]
    for run in sched.explore(body, preemptions=item["p"], env=item["e"], max_executions=cap, stats=stats):
        res.evaluations += 1
        current_item = item if "replay_choices" in item else {**item, "replay_choices": run.choices}
        out = run.outcome
        base = {"part": "b", "keyed": item["keyed"], "interval_zero": interval == 0}
        if entry != "direct" or fail_first or jump != "past" or "keys" in item:
            base |= {"entry": entry, "fail_first": fail_first, "jump": jump, "falsy_keys": "keys" in item}
        schedule = [f"{i}:T{p.thread}:{p.desc}->{p.labels[p.chosen]}" for i, p in enumerate(run.trace) if p.chosen]
        if run.aborted or out is None:
            res.violation({**base, "kind": f"no_termination_{run.aborted}"}, {"item": item, "schedule": schedule}, current_item)
            continue
        res.traces += 1
        detail = {"item": item, "schedule": schedule, "fetches": out["fetches"], "results": out["results"]}
        if out["errors"]:
            res.violation({**base, "kind": "caller_raised"}, detail | {"errors": out["errors"]}, current_item)
        # per key: a second fetch may start only when the clock has passed the validity of the previous token
        by_key: dict[str, list[float]] = {}
        for t, key, _ in out["fetches"]:
            by_key.setdefault(key, []).append(t)
        for key, times in by_key.items():
            times.sort()
            for a, b in zip(times, times[1:]):
                if interval > 0 and b < a + interval:
                    res.violation({**base, "kind": "token_fetched_twice_within_refresh_interval"}, detail | {"key": key, "times": [a, b]}, current_item)
                    break
        injected = 0
        for tid, key, data, now in out["results"]:
            if fail_first and data == "<injected error>":
                injected += 1  # the caller whose fetch failed sees the failure
                continue
            if not isinstance(data, str) or not data.startswith(f"token:{key}:"):
                res.violation({**base, "kind": "caller_got_token_of_another_key_or_none"}, detail | {"key": key, "data": data}, current_item)
        if fail_first and injected != 1:
            # the underlying get() raised exactly once: exactly one caller may see that error, it must not be kept and served again
            res.violation({**base, "kind": "provider_error_seen_by_other_than_one_caller"}, detail | {"callers_with_error": injected}, current_item)
        if len(out["results"]) != item["threads"] * item["calls"]:
            res.violation({**base, "kind": "caller_did_not_finish"}, detail, current_item)
        res.outcomes.add((len(out["fetches"]), out["jumped"]))
        if run.switches > 2:
            res.nontriv([item, run.choices])
        if len(res.samples) < 1 and run.switches > 3:
            res.samples.append({"item": item, "schedule": schedule, "fetches": out["fetches"]})
    res.states += len(stats.states)
    res.transitions += stats.points
    if stats.capped:
        res.exhaustive = False
        res.count("items_capped")
    return res


def _run_replay(item: dict, tier: str) -> Result:
    return check_b(item, tier)


def check_item(item: dict, tier: str) -> Result:
    if item["part"] == "a":
        return check_a(item, tier)
    if item["part"] == "a2":
        return c14_extra.check_a2(item, tier)
    if item["part"] == "t":
        return c14_extra.check_t(item, tier)
    if item["part"] == "g":
        return c14_extra.check_g(item, tier)
    if "replay_choices" in item:
        # replay one recorded schedule
        choices = item["replay_choices"]
        saved = sched.explore

        def one(body: Any, **kw: Any) -> Any:
            yield sched.run_schedule(body, list(choices), allow_interrupt=False)

        sched.explore = one  # type: ignore[assignment]
        try:
            return check_b(item, tier)
        finally:
            sched.explore = saved  # type: ignore[assignment]
    return check_b(item, tier)


def vacuity(total: Result, tier: str) -> list[str]:
    out = []
    if len(total.nontrivial) < 50:
        out.append("fewer than 50 distinct requests / schedules judged")
    if not total.counters.get("runs_with_link_derived_requests"):
        out.append("no stateful run followed a link (link-derived requests never judged)")
    out += c14_extra.vacuity(total, tier)
    return out
